(* ProvnSpecProofs.v — the PROV-N printer model composed with the independent PROV-N reader, at
   value level: the tokens the reader's lexer cuts out of what provn_value prints for an attribute
   value, and what read_literal makes of them, are the strict content of the value.  With
   SpecProofs.v (PROV-JSON, PROV-XML) this is the value-level end-to-end statement for the three
   text formats. *)
From Coq Require Import String Ascii List Bool Arith ZArith Lia DecimalString.
From Prov Require Import Str StrProofs Sexp Tables Nsm NsmProofs Values Record RecordProofs World Provn ProvnSpec ProvnProofs
  Spec IsoDigits IsoProofs SpecProofs.
Import ListNotations.
Open Scope string_scope.

(* ---- character classes *)
Definition plain_char (c : ascii) : bool := (negb (Ascii.eqb c dq) && negb (Ascii.eqb c bsl))%bool.
Definition plain (s : string) : bool := all_chars plain_char s.
Definition wordy (s : string) : bool := all_chars is_word_char s.
Definition nonword_start (s : string) : Prop :=
  match s with EmptyString => True | String c _ => is_word_char c = false end.

Lemma escape_plain : forall s, plain s = true -> escape_provn s = s.
Proof.
  induction s as [|c s IH]; intros H; [reflexivity|].
  cbn [plain all_chars] in H. apply andb_prop in H. destruct H as [Hc Hs].
  unfold plain_char in Hc. apply andb_prop in Hc. destruct Hc as [Hd Hb].
  apply negb_true_iff in Hd, Hb. cbn [escape_provn]. rewrite Hb, Hd. f_equal. apply IH. exact Hs.
Qed.

Lemma take_while_word : forall w rest, wordy w = true -> nonword_start rest ->
  take_while is_word_char (w ++ rest) = (w, rest).
Proof.
  induction w as [|c w IH]; intros rest W N.
  - cbn [append]. destruct rest as [|c r]; [reflexivity|]. cbn [take_while]. cbn in N. rewrite N. reflexivity.
  - cbn [wordy all_chars] in W. apply andb_prop in W. destruct W as [Wc Ww].
    rewrite append_cons. cbn [take_while]. rewrite Wc. rewrite (IH rest Ww N). reflexivity.
Qed.

(* a word character is none of the characters the lexer treats specially *)
Lemma word_char_plain : forall c, is_word_char c = true ->
  is_ws c = false /\ Ascii.eqb c "(" = false /\ Ascii.eqb c ")" = false /\ Ascii.eqb c "[" = false /\
  Ascii.eqb c "]" = false /\ Ascii.eqb c "," = false /\ Ascii.eqb c ";" = false /\ Ascii.eqb c "=" = false /\
  Ascii.eqb c "%" = false /\ Ascii.eqb c "@" = false /\ Ascii.eqb c "<" = false /\ Ascii.eqb c "'" = false /\
  Ascii.eqb c dqc = false.
Proof.
  intros [b0 b1 b2 b3 b4 b5 b6 b7] H.
  destruct b0, b1, b2, b3, b4, b5, b6, b7; try discriminate H; vm_compute; repeat split; reflexivity.
Qed.

Lemma lex_word : forall f c w rest, wordy (String c w) = true -> nonword_start rest ->
  lex (S f) (String c w ++ rest) =
  match lex f rest with Some l => Some (TWord (String c w) :: l) | None => None end.
Proof.
  intros f c w rest W N.
  assert (Wc : is_word_char c = true) by (cbn [wordy all_chars] in W; apply andb_prop in W; tauto).
  destruct (word_char_plain c Wc) as [H0 [H1 [H2 [H3 [H4 [H5 [H6 [H7 [H8 [H9 [H10 [H11 H12]]]]]]]]]]]].
  rewrite append_cons. cbn [lex]. rewrite H0, H1, H2, H3, H4, H5, H6, H7, H8, H9, H10, H11, H12, Wc.
  change (String c (w ++ rest)) with (String c w ++ rest). rewrite (take_while_word _ _ W N). reflexivity.
Qed.

(* ---- a quoted string followed by anything that does not start with a quote *)
Definition no_quote_start (s : string) : Prop :=
  match s with EmptyString => True | String c _ => Ascii.eqb c dq = false end.

Lemma app_assoc_s : forall a b c : string, (a ++ b) ++ c = a ++ (b ++ c).
Proof. induction a as [|x a IH]; intros b c; [reflexivity|]. cbn [append]. rewrite IH. reflexivity. Qed.

Lemma lex_quote_str_app : forall s rest f, no_quote_start rest ->
  lex (S f) (quote_str s ++ rest) = match lex f rest with Some l => Some (TStr s :: l) | None => None end.
Proof.
  intros s rest f NQ. unfold quote_str.
  destruct (contains_char nl (escape_provn s)) eqn:EN.
  - unfold dq3. rewrite !app_assoc_s. rewrite !append_cons. cbn [append]. rewrite lex_dq. cbv zeta.
    rewrite !Ascii.eqb_refl. cbn [andb]. rewrite long_string_escape. reflexivity.
  - unfold dq1. rewrite !app_assoc_s. rewrite !append_cons. cbn [append]. rewrite lex_dq. cbv zeta.
    pose proof (escape_no_leading_quote s) as NL.
    pose proof (short_string_escape s rest) as SS.
    destruct (escape_provn s) as [|c2 e2] eqn:EE.
    + cbn [append]. cbn [append] in SS.
      destruct rest as [|r0 r1]; [rewrite SS; reflexivity|].
      cbn in NQ. rewrite NQ, andb_false_r. rewrite SS. reflexivity.
    + cbn [append]. destruct e2 as [|c3 e3].
      * cbn [append]. cbn [append] in SS. rewrite NL. cbn [andb]. rewrite SS. reflexivity.
      * cbn [append]. rewrite NL. cbn [andb]. cbn [append] in SS. rewrite SS. reflexivity.
Qed.

(* ---- what follows a value in an attribute list: a comma or the closing bracket *)
Definition sep_start (rest : string) : Prop := exists r, rest = String "," r \/ rest = String "]" r.

Lemma sep_nonword : forall rest, sep_start rest -> nonword_start rest /\ no_quote_start rest.
Proof. intros rest [r [->| ->]]; split; reflexivity. Qed.

Lemma lex_sep : forall rest f toks, sep_start rest -> lex f rest = Some toks ->
  exists l, toks = TComma :: l \/ toks = TRbr :: l.
Proof.
  intros rest f toks [r [->| ->]] H; destruct f as [|f]; cbn [lex] in H; try discriminate;
    change (is_ws ","%char) with false in H; change (is_ws "]"%char) with false in H; cbn in H;
    destruct (lex f r) as [l|]; try discriminate; injection H as <-; exists l; [left | right]; reflexivity.
Qed.

(* " %% " *)
Lemma lex_pct : forall f x,
  lex (S (S (S f))) (String " " (String "%" (String "%" (String " " x)))) =
  match lex f x with Some l => Some (TPct :: l) | None => None end.
Proof. intros f x. reflexivity. Qed.

(* quoted string, " %% ", datatype name *)
Lemma lex_typed : forall s c ty rest f toks,
  wordy (String c ty) = true -> nonword_start rest -> lex f rest = Some toks ->
  lex (S (S (S (S (S f))))) (quote_str s ++ " %% " ++ String c ty ++ rest)
  = Some (TStr s :: TPct :: TWord (String c ty) :: toks).
Proof.
  intros s c ty rest f toks W N L.
  rewrite lex_quote_str_app by reflexivity.
  change (" %% " ++ String c ty ++ rest) with (String " " (String "%" (String "%" (String " " (String c ty ++ rest))))).
  rewrite lex_pct. rewrite (lex_word f c ty rest W N), L. reflexivity.
Qed.

Definition PStd (t : ProvnSpec.ptable) : Prop :=
  lookup "xsd" t = Some spec_xsd_uri /\ lookup "prov" t = Some spec_prov_uri.

Lemma nresolve_pref : forall t p l u, contains_char colon p = false -> lookup p t = Some u ->
  nresolve t (p ++ String colon l) = Some (u ++ l).
Proof. intros t p l u C H. unfold nresolve. rewrite (split_colon_app p l C), H. reflexivity. Qed.

(* ---- strings *)
Theorem provn_spec_str : forall t s rest f toks, sep_start rest -> lex f rest = Some toks ->
  lex (S f) (provn_value (VStr s) ++ rest) = Some (TStr s :: toks) /\
  read_literal t (TStr s :: toks) = Some (content_value (VStr s), toks).
Proof.
  intros t s rest f toks S L. destruct (sep_nonword _ S) as [_ NQ]. cbn [provn_value].
  rewrite (lex_quote_str_app s rest f NQ), L. split; [reflexivity|].
  destruct (lex_sep _ _ _ S L) as [l [-> | ->]]; reflexivity.
Qed.

(* ---- strings that need no escaping and hold no newline are printed between single quotes as they are *)
Definition safe_char (c : ascii) : bool := (plain_char c && negb (Ascii.eqb c nl))%bool.
Definition safe (s : string) : bool := all_chars safe_char s.

Lemma all_chars_app : forall f a b, all_chars f (a ++ b) = (all_chars f a && all_chars f b)%bool.
Proof. induction a as [|c a IH]; intros b; [reflexivity|]. cbn [append all_chars]. rewrite IH, andb_assoc. reflexivity. Qed.

Lemma safe_plain : forall s, safe s = true -> plain s = true /\ contains_char nl s = false.
Proof.
  induction s as [|c s IH]; intros H; [split; reflexivity|].
  cbn [safe all_chars] in H. apply andb_prop in H. destruct H as [Hc Hs]. destruct (IH Hs) as [P N].
  unfold safe_char in Hc. apply andb_prop in Hc. destruct Hc as [Hp Hn]. apply negb_true_iff in Hn.
  split; [cbn [plain all_chars]; rewrite Hp; exact P|].
  cbn [contains_char]. rewrite (Ascii.eqb_sym nl c), Hn. exact N.
Qed.

Lemma quote_safe : forall s, safe s = true -> quote_str s = dq1 ++ s ++ dq1.
Proof.
  intros s H. destruct (safe_plain s H) as [P N]. unfold quote_str. rewrite (escape_plain s P), N. reflexivity.
Qed.

Lemma digit_safe : forall c d, digit_val c = Some d -> safe_char c = true.
Proof.
  intros [b0 b1 b2 b3 b4 b5 b6 b7] d H.
  destruct b0, b1, b2, b3, b4, b5, b6, b7; vm_compute in H; try discriminate H; reflexivity.
Qed.

Lemma take_digits_safe : forall n acc s v, take_digits n acc s = Some (v, EmptyString) -> safe s = true.
Proof.
  induction n as [|n IH]; intros acc s v H; cbn [take_digits] in H.
  - injection H as _ ->. reflexivity.
  - destruct s as [|c r]; [discriminate|]. destruct (digit_val c) as [d|] eqn:E; [|discriminate].
    cbn [safe all_chars]. rewrite (digit_safe c d E). exact (IH _ _ _ H).
Qed.

Lemma field_safe : forall w z, field_ok w z = true -> safe (pad w z) = true.
Proof.
  intros w z H. unfold field_ok in H. destruct (take_digits w 0%Z (pad w z)) as [[v r]|] eqn:E; [|discriminate].
  destruct r; [|discriminate]. exact (take_digits_safe _ _ _ _ E).
Qed.

Lemma pad2_safe : forall z, (0 <= z < 100)%Z -> safe (pad 2 z) = true.
Proof. intros z Hz. apply field_safe. apply (proj1 (forallb_forall _ _) all2). apply in_zrange. simpl. lia. Qed.
Lemma pad4_safe : forall z, (0 <= z < 10000)%Z -> safe (pad 4 z) = true.
Proof.
  intros z Hz. apply field_safe. apply (proj1 (forallb_forall _ _) all4). apply in_zrange.
  change (Z.of_nat 10000) with 10000%Z. lia.
Qed.
Lemma pad6_safe : forall z, (0 <= z < 1000000)%Z -> safe (pad 6 z) = true.
Proof.
  intros z Hz. apply field_safe.
  pose proof (proj1 (forallb_forall _ _) all6 (z / 1000)%Z) as Ha.
  assert (Hin : In (z / 1000)%Z (zrange 1000)).
  { apply in_zrange. change (Z.of_nat 1000) with 1000%Z.
    split; [apply Z.div_pos; lia | apply Z.div_lt_upper_bound; lia]. }
  specialize (Ha Hin). cbv beta in Ha.
  pose proof (proj1 (forallb_forall _ _) Ha (z mod 1000)%Z) as Hb.
  assert (Hin2 : In (z mod 1000)%Z (zrange 1000)).
  { apply in_zrange. change (Z.of_nat 1000) with 1000%Z. apply Z.mod_pos_bound. lia. }
  specialize (Hb Hin2). cbv beta in Hb.
  replace (z / 1000 * 1000 + z mod 1000)%Z with z in Hb; [exact Hb|].
  rewrite (Z.div_mod z 1000) at 1 by lia. lia.
Qed.

Lemma all_tz_safe : forallb (fun k => safe (print_offset (k - 1439)%Z)) (zrange 2879) = true.
Proof. vm_compute. reflexivity. Qed.

Lemma tz_text_safe : forall tz, match tz with None => True | Some o => (-1440 < o < 1440)%Z end -> safe (tz_text tz) = true.
Proof.
  intros [o|] H; [|reflexivity]. cbn [tz_text].
  pose proof (proj1 (forallb_forall _ _) all_tz_safe (o + 1439)%Z) as X.
  assert (Hin : In (o + 1439)%Z (zrange 2879)) by (apply in_zrange; change (Z.of_nat 2879) with 2879%Z; lia).
  specialize (X Hin). cbv beta in X. replace (o + 1439 - 1439)%Z with o in X by lia. exact X.
Qed.

Lemma iso_print_safe : forall t, valid_dt t = true -> safe (iso_print t) = true.
Proof.
  intros t V. destruct (valid_dt_bounds t V) as [Hb Htz]. rewrite iso_print_shape. unfold safe.
  repeat (rewrite all_chars_app || (cbn [all_chars]; idtac)).
  fold (safe (pad 4 (dy t))). rewrite pad4_safe by lia.
  repeat match goal with |- context [all_chars safe_char (pad 2 ?z)] => fold (safe (pad 2 z)); rewrite (pad2_safe z) by lia end.
  fold (safe (tz_text (dtz t))). rewrite (tz_text_safe _ Htz).
  destruct (Z.eqb (dus t) 0).
  - reflexivity.
  - cbn [all_chars]. fold (safe (pad 6 (dus t))). rewrite pad6_safe by lia. reflexivity.
Qed.

(* ---- typed values: "lexical form" %% xsd:type *)
Ltac typed_tokens t Hx l :=
  unfold read_literal;
  change (nresolve t ("xsd:" ++ l)) with (nresolve t ("xsd" ++ String colon l));
  rewrite (nresolve_pref t "xsd" l _ eq_refl Hx);
  cbn [String.eqb Ascii.eqb Bool.eqb append spec_xsd_uri spec_prov_uri orb].

Lemma typed_shape : forall s x rest, (dq1 ++ s ++ dq1 ++ x) ++ rest = (dq1 ++ s ++ dq1) ++ x ++ rest.
Proof. intros s x rest. rewrite !app_assoc_s. reflexivity. Qed.

Theorem provn_spec_time : forall t tm rest f toks, PStd t -> valid_dt tm = true ->
  nonword_start rest -> lex f rest = Some toks ->
  lex (S (S (S (S (S f))))) (provn_value (VTime tm) ++ rest) = Some (TStr (iso_print tm) :: TPct :: TWord "xsd:dateTime" :: toks) /\
  read_literal t (TStr (iso_print tm) :: TPct :: TWord "xsd:dateTime" :: toks) = Some (content_value (VTime tm), toks).
Proof.
  intros t tm rest f toks [Hx _] V N L. cbn [provn_value].
  rewrite typed_shape, <- (quote_safe _ (iso_print_safe tm V)).
  split; [exact (lex_typed (iso_print tm) "x" "sd:dateTime" rest f toks eq_refl N L)|].
  change "xsd:dateTime" with ("xsd:" ++ "dateTime"). typed_tokens t Hx "dateTime".
  rewrite (iso_roundtrip tm V). reflexivity.
Qed.

Theorem provn_spec_float : forall t r iv g rest f toks, PStd t -> safe r = true ->
  nonword_start rest -> lex f rest = Some toks ->
  lex (S (S (S (S (S f))))) (provn_value (VFloat r iv g) ++ rest) = Some (TStr r :: TPct :: TWord "xsd:double" :: toks) /\
  read_literal t (TStr r :: TPct :: TWord "xsd:double" :: toks) = Some (content_value (VFloat r iv g), toks).
Proof.
  intros t r iv g rest f toks [Hx _] S N L. cbn [provn_value].
  rewrite typed_shape, <- (quote_safe _ S).
  split; [exact (lex_typed r "x" "sd:double" rest f toks eq_refl N L)|].
  change "xsd:double" with ("xsd:" ++ "double"). typed_tokens t Hx "double". reflexivity.
Qed.

Theorem provn_spec_bool : forall t b rest f toks, PStd t ->
  nonword_start rest -> lex f rest = Some toks ->
  lex (S (S (S (S (S f))))) (provn_value (VBool b) ++ rest)
    = Some (TStr (if b then "1" else "0") :: TPct :: TWord "xsd:boolean" :: toks) /\
  read_literal t (TStr (if b then "1" else "0") :: TPct :: TWord "xsd:boolean" :: toks) = Some (content_value (VBool b), toks).
Proof.
  intros t b rest f toks [Hx _] N L. cbn [provn_value].
  assert (S : safe (if b then "1" else "0") = true) by (destruct b; reflexivity).
  rewrite typed_shape, <- (quote_safe _ S).
  split; [exact (lex_typed _ "x" "sd:boolean" rest f toks eq_refl N L)|].
  change "xsd:boolean" with ("xsd:" ++ "boolean"). typed_tokens t Hx "boolean". destruct b; reflexivity.
Qed.

(* a URI that needs no escaping (C06-F3 is the case of a URI holding a quote) *)
Theorem provn_spec_id : forall t u rest f toks, PStd t -> safe u = true ->
  nonword_start rest -> lex f rest = Some toks ->
  lex (S (S (S (S (S f))))) (provn_value (VId u) ++ rest) = Some (TStr u :: TPct :: TWord "xsd:anyURI" :: toks) /\
  read_literal t (TStr u :: TPct :: TWord "xsd:anyURI" :: toks) = Some (content_value (VId u), toks).
Proof.
  intros t u rest f toks [Hx _] S N L. cbn [provn_value].
  rewrite typed_shape, <- (quote_safe _ S).
  split; [exact (lex_typed u "x" "sd:anyURI" rest f toks eq_refl N L)|].
  change "xsd:anyURI" with ("xsd:" ++ "anyURI"). typed_tokens t Hx "anyURI". reflexivity.
Qed.

(* ---- integers print as bare words *)
Lemma uint_wordy : forall d, all_chars is_word_char (NilEmpty.string_of_uint d) = true.
Proof. induction d; cbn [NilEmpty.string_of_uint all_chars]; try reflexivity; rewrite IHd; reflexivity. Qed.

Lemma int_wordy : forall d, all_chars is_word_char (NilZero.string_of_int d) = true.
Proof.
  intros [d|d]; unfold NilZero.string_of_int, NilZero.string_of_uint.
  - destruct d; try reflexivity; apply (uint_wordy (_ d)) || (cbn [NilEmpty.string_of_uint all_chars]; rewrite uint_wordy; reflexivity).
  - destruct d; try reflexivity; cbn [NilEmpty.string_of_uint all_chars]; rewrite uint_wordy; reflexivity.
Qed.

Lemma str_of_Z_nonempty : forall z, exists c w, str_of_Z z = String c w.
Proof.
  intros z. unfold str_of_Z. destruct (Z.to_int z) as [d|d]; unfold NilZero.string_of_int, NilZero.string_of_uint;
    destruct d; cbn [NilEmpty.string_of_uint]; eauto.
Qed.

Theorem provn_spec_int : forall t z rest f toks, nonword_start rest -> lex f rest = Some toks ->
  lex (S f) (provn_value (VInt z) ++ rest) = Some (TWord (str_of_Z z) :: toks) /\
  read_literal t (TWord (str_of_Z z) :: toks) = Some (content_value (VInt z), toks).
Proof.
  intros t z rest f toks N L. cbn [provn_value].
  destruct (str_of_Z_nonempty z) as [c [w E]].
  assert (W : wordy (str_of_Z z) = true) by (unfold wordy, str_of_Z; apply int_wordy).
  split.
  - rewrite E in *. rewrite (lex_word f c w rest W N), L. reflexivity.
  - unfold read_literal. rewrite parse_int_str_of_Z. reflexivity.
Qed.

(* ---- qualified names: 'prefix:local' *)
Lemma take_until_app : forall c0 s rest, contains_char c0 s = false ->
  take_until c0 (s ++ String c0 rest) = Some (s, rest).
Proof.
  induction s as [|c s IH]; intros rest H.
  - cbn [append take_until]. rewrite Ascii.eqb_refl. reflexivity.
  - cbn [contains_char] in H. apply orb_false_iff in H. destruct H as [H1 H2].
    rewrite append_cons. cbn [take_until]. rewrite (Ascii.eqb_sym c c0), H1, (IH rest H2). reflexivity.
Qed.

Theorem provn_spec_qn : forall t q rest f toks, PStd t ->
  ns_prefix (qn_ns q) <> "" -> contains_char colon (ns_prefix (qn_ns q)) = false ->
  lookup (ns_prefix (qn_ns q)) t = Some (ns_uri (qn_ns q)) ->
  contains_char "'"%char (qn_str q) = false ->
  lex f rest = Some toks ->
  lex (S f) (provn_value (VQn q) ++ rest) = Some (TQn (qn_str q) :: toks) /\
  read_literal t (TQn (qn_str q) :: toks) = Some (content_value (VQn q), toks).
Proof.
  intros t q rest f toks _ NE C B NA L. cbn [provn_value].
  split.
  - change ("'" ++ qn_str q ++ "'") with (String "'" (qn_str q ++ String "'" EmptyString)).
    rewrite append_cons. cbn [lex]. change (is_ws "'"%char) with false. cbn [Ascii.eqb Bool.eqb]. cbv iota.
    rewrite app_assoc_s. change (String "'" "" ++ rest) with (String "'" rest).
    rewrite (take_until_app "'"%char (qn_str q) rest NA), L. reflexivity.
  - unfold read_literal.
    assert (E : qn_str q = ns_prefix (qn_ns q) ++ String colon (qn_local q)).
    { unfold qn_str. destruct (ns_prefix (qn_ns q)); [contradiction | reflexivity]. }
    rewrite E, (nresolve_pref t _ _ _ C B). reflexivity.
Qed.

(* ---- language-tagged strings: "..."@lang *)
Theorem provn_spec_lang : forall t lex0 c l rest f toks,
  wordy (String c l) = true -> nonword_start rest -> lex f rest = Some toks ->
  lex (S (S f)) (provn_value (VLit lex0 (Some (prov_qn "InternationalizedString")) (Some (String c l))) ++ rest)
    = Some (TStr lex0 :: TLang (String c l) :: toks) /\
  read_literal t (TStr lex0 :: TLang (String c l) :: toks)
    = Some (content_value (VLit lex0 (Some (prov_qn "InternationalizedString")) (Some (String c l))), toks).
Proof.
  intros t lex0 c l rest f toks W N L. cbn [provn_value]. split; [|reflexivity].
  rewrite app_assoc_s. rewrite lex_quote_str_app by reflexivity.
  change (("@" ++ String c l) ++ rest) with (String "@" (String c l ++ rest)).
  cbn [lex]. change (is_ws "@"%char) with false. cbn [Ascii.eqb Bool.eqb]. cbv iota.
  rewrite (take_while_word _ _ W N), L. reflexivity.
Qed.

(* ---- literals of a foreign datatype: "..." %% prefix:local *)
Theorem provn_spec_foreign : forall t lex0 d rest f toks, PStd t ->
  ns_prefix (qn_ns d) <> "" -> contains_char colon (ns_prefix (qn_ns d)) = false ->
  lookup (ns_prefix (qn_ns d)) t = Some (ns_uri (qn_ns d)) ->
  wordy (qn_str d) = true ->
  starts_with spec_xsd_uri (qn_uri d) = false ->
  nonword_start rest -> lex f rest = Some toks ->
  lex (S (S (S (S (S f))))) (provn_value (VLit lex0 (Some d) None) ++ rest) = Some (TStr lex0 :: TPct :: TWord (qn_str d) :: toks) /\
  read_literal t (TStr lex0 :: TPct :: TWord (qn_str d) :: toks) = Some (content_value (VLit lex0 (Some d) None), toks).
Proof.
  intros t lex0 d rest f toks _ NE C B W NX N L. cbn [provn_value opt_qn_str].
  assert (E : qn_str d = ns_prefix (qn_ns d) ++ String colon (qn_local d)).
  { unfold qn_str. destruct (ns_prefix (qn_ns d)); [contradiction | reflexivity]. }
  destruct (qn_str d) as [|c0 w0] eqn:EQ.
  { exfalso. destruct (ns_prefix (qn_ns d)); [contradiction | discriminate]. }
  split.
  - rewrite app_assoc_s. rewrite app_assoc_s.
    exact (lex_typed lex0 c0 w0 rest f toks W N L).
  - unfold read_literal. rewrite E, (nresolve_pref t _ _ _ C B). fold (qn_uri d).
    assert (X : forall l, String.eqb (qn_uri d) (spec_xsd_uri ++ l) = false).
    { intros l. apply String.eqb_neq. intro H. rewrite H, starts_with_app in NX. discriminate. }
    rewrite !X. reflexivity.
Qed.
