(* ConverseProofs.v — C08, the if half of "raises exactly on conflict": when unifying the records of a
   container returns, no two records of one (kind, identifier) group hold unequal values under a formal
   attribute other than prov:entity (the members of a collection, which the library lets accumulate).
   Hence a container with such a strict conflict never comes back from unified(): it raises — and then,
   by ConflictProofs, ProvException — or it is outside the model's domain. *)
From Coq Require Import String List Arith ZArith Bool Lia.
From Prov Require Import Str StrProofs Sexp Tables Nsm NsmProofs Values Record RecordProofs SingleProofs World EqProofs
  IdemProofs ReaddProofs UnifyProofs ConflictProofs.
Import ListNotations.
Open Scope string_scope.

(* ---- == is transitive *)
Lemma py_eq_trans : forall a b c, py_eq a b = true -> py_eq b c = true -> py_eq a c = true.
Proof.
  intros a b c.
  destruct a as [s|z|r iv g|b0|t|u|q|l d g]; destruct b as [s'|z'|r' iv' g'|b1|t'|u'|q'|l' d' g'];
    destruct c as [s2|z2|r2 iv2 g2|b2|t2|u2|q2|l2 d2 g2];
    cbn; try (intros; discriminate);
    try (destruct iv); try (destruct iv'); try (destruct iv2); cbn; try (intros; discriminate);
    intros H1 H2;
    try (apply Z.eqb_eq in H1, H2; apply Z.eqb_eq; congruence);
    try (eapply str_eqb_trans; eassumption);
    try (eapply time_eqb_trans; eassumption);
    try (eapply qn_eqb_trans; eassumption);
    try (unfold qn_eqb in *; apply String.eqb_eq in H1, H2; apply String.eqb_eq; congruence).
  apply andb_true_iff in H1, H2. destruct H1 as [H1 G1], H2 as [H2 G2].
  apply andb_true_iff in H1, H2. destruct H1 as [L1 D1], H2 as [L2 D2].
  rewrite (str_eqb_trans _ _ _ L1 L2), (opt_eqb_trans qn_eqb qn_eqb_trans _ _ _ D1 D2),
    (opt_eqb_trans String.eqb str_eqb_trans _ _ _ G1 G2). reflexivity.
Qed.

Lemma set_same_py_eq : forall a b, set_same a b = true -> py_eq a b = true.
Proof. intros a b H. destruct a, b; cbn [set_same] in H; try exact H; discriminate. Qed.

Lemma kept_py_eq : forall v2 w, (w = v2 \/ set_same v2 w = true \/ py_eq v2 w = true) -> py_eq v2 w = true.
Proof. intros v2 w [->|[H|H]]; [apply py_eq_refl | apply set_same_py_eq; exact H | exact H]. Qed.

(* ---- a value found under a name is one of the record's attribute pairs *)
Lemma attr_get_attributes : forall d a v, In v (attr_get a d) ->
  exists p, In p (flat_map (fun kv => map (fun v => (fst kv, v)) (snd kv)) d) /\ qn_eqb a (fst p) = true /\ snd p = v.
Proof.
  induction d as [|[k vs] d IH]; intros a v H; cbn [attr_get] in H; [destruct H|].
  cbn [flat_map fst snd]. destruct (qn_eqb a k) eqn:E.
  - exists (k, v). split; [apply in_or_app; left; apply in_map; exact H | split; [exact E | reflexivity]].
  - destruct (IH a v H) as [p [Hp X]]. exists p. split; [apply in_or_app; right; exact Hp | exact X].
Qed.

(* ---- the strict conflict: a formal attribute other than prov:entity under which two records hold
   values that are not equal *)
Definition sconflict (q1 q2 : prec) : Prop :=
  exists a v1 v2, is_formal_attr a = true /\ is_prov_name "entity" a = false /\
                  In v1 (attr_get a (rattrs q1)) /\ In v2 (attr_get a (rattrs q2)) /\ py_eq v1 v2 = false.

(* every attribute pair of q is kept in o, as itself or as an equal *)
Definition covered (q o : prec) : Prop :=
  forall p, In p (attributes q) ->
    exists v2 w, same_value (snd p) v2 /\ In w (attr_get (fst p) (rattrs o)) /\
                 (w = v2 \/ set_same v2 w = true \/ py_eq v2 w = true).

Lemma NormalE_one : forall o a w1 w2, NormalE o -> is_formal_attr a = true -> is_prov_name "entity" a = false ->
  In w1 (attr_get a (rattrs o)) -> In w2 (attr_get a (rattrs o)) -> w1 = w2.
Proof.
  intros o a w1 w2 N F E H1 H2. specialize (N a F). rewrite E in N.
  destruct (attr_get a (rattrs o)) as [|x [|y l]]; [destruct H1| |contradiction].
  destruct H1 as [<-|[]], H2 as [<-|[]]. reflexivity.
Qed.

(* two records kept in one single-valued record do not conflict *)
Theorem covered_agree : forall o q1 q2, NormalE o -> covered q1 o -> covered q2 o -> ~ sconflict q1 q2.
Proof.
  intros o q1 q2 N C1 C2 [a [v1 [v2 [F [E [H1 [H2 PE]]]]]]].
  destruct (attr_get_attributes _ _ _ H1) as [p1 [Hp1 [E1 S1]]].
  destruct (attr_get_attributes _ _ _ H2) as [p2 [Hp2 [E2 S2]]].
  destruct (C1 p1 Hp1) as [v1' [w1 [SV1 [W1 K1]]]]. destruct (C2 p2 Hp2) as [v2' [w2 [SV2 [W2 K2]]]].
  rewrite <- (attr_get_eqb _ _ _ E1) in W1. rewrite <- (attr_get_eqb _ _ _ E2) in W2.
  pose proof (NormalE_one o a w1 w2 N F E W1 W2) as EW. subst w2.
  pose proof (kept_py_eq _ _ K1) as P1. pose proof (kept_py_eq _ _ K2) as P2. rewrite py_eq_sym in P2.
  pose proof (py_eq_trans _ _ _ P1 P2) as P.
  rewrite (py_eq_same_value _ _ _ _ SV1 SV2), S1, S2 in P. congruence.
Qed.

(* a single-valued record does not conflict with itself *)
Lemma self_agree : forall q, NormalE q -> ~ sconflict q q.
Proof.
  intros q N [a [v1 [v2 [F [E [H1 [H2 PE]]]]]]]. rewrite (NormalE_one q a v1 v2 N F E H1 H2), py_eq_refl in PE. discriminate.
Qed.

(* ---- the same for every formal attribute, prov:entity included, when the keeping record is strictly single-valued *)
Definition econflict (q1 q2 : prec) : Prop :=
  exists a v1 v2, is_formal_attr a = true /\
                  In v1 (attr_get a (rattrs q1)) /\ In v2 (attr_get a (rattrs q2)) /\ py_eq v1 v2 = false.

Lemma Normal_one : forall o a w1 w2, Normal o -> is_formal_attr a = true ->
  In w1 (attr_get a (rattrs o)) -> In w2 (attr_get a (rattrs o)) -> w1 = w2.
Proof.
  intros o a w1 w2 N F H1 H2. specialize (N a F).
  destruct (attr_get a (rattrs o)) as [|x [|y l]]; [destruct H1| |contradiction].
  destruct H1 as [<-|[]], H2 as [<-|[]]. reflexivity.
Qed.

Theorem covered_agree_strict : forall o q1 q2, Normal o -> covered q1 o -> covered q2 o -> ~ econflict q1 q2.
Proof.
  intros o q1 q2 N C1 C2 [a [v1 [v2 [F [H1 [H2 PE]]]]]].
  destruct (attr_get_attributes _ _ _ H1) as [p1 [Hp1 [E1 S1]]].
  destruct (attr_get_attributes _ _ _ H2) as [p2 [Hp2 [E2 S2]]].
  destruct (C1 p1 Hp1) as [v1' [w1 [SV1 [W1 K1]]]]. destruct (C2 p2 Hp2) as [v2' [w2 [SV2 [W2 K2]]]].
  rewrite <- (attr_get_eqb _ _ _ E1) in W1. rewrite <- (attr_get_eqb _ _ _ E2) in W2.
  pose proof (Normal_one o a w1 w2 N F W1 W2) as EW. subst w2.
  pose proof (kept_py_eq _ _ K1) as P1. pose proof (kept_py_eq _ _ K2) as P2. rewrite py_eq_sym in P2.
  pose proof (py_eq_trans _ _ _ P1 P2) as P.
  rewrite (py_eq_same_value _ _ _ _ SV1 SV2), S1, S2 in P. congruence.
Qed.

Lemma self_agree_strict : forall q, Normal q -> ~ econflict q q.
Proof.
  intros q N [a [v1 [v2 [F [H1 [H2 PE]]]]]]. rewrite (Normal_one q a v1 v2 N F H1 H2), py_eq_refl in PE. discriminate.
Qed.

(* a record that does not name prov:collection among its attributes: re-adding it leaves the single-value guard on
   for prov:entity too *)
Definition no_coll (r : prec) : Prop := names_collection (all_attr_args r) = false.

Lemma merge_group_normal : forall c rs m acc m' r',
  Normal acc -> (forall r, In r rs -> no_coll r) -> merge_group c m acc rs = Done m' r' -> Normal r'.
Proof.
  intros c rs. induction rs as [|r rest IH]; intros m acc m' r' N NC H; cbn [merge_group] in H.
  - inversion H; subst. exact N.
  - pose proof (add_attributes_normal c m acc (all_attr_args r) N (NC r (or_introl eq_refl))) as X.
    destruct (add_attributes c m acc (all_attr_args r)) as [m1 acc1| |]; try discriminate.
    exact (IH _ _ _ _ X (fun q Hq => NC q (or_intror Hq)) H).
Qed.

(* ---- merging keeps single-valuedness *)
Lemma merge_group_normalE : forall c rs m acc m' r', NormalE acc -> merge_group c m acc rs = Done m' r' -> NormalE r'.
Proof.
  intros c rs. induction rs as [|r rest IH]; intros m acc m' r' N H; cbn [merge_group] in H.
  - inversion H; subst. exact N.
  - pose proof (add_attributes_normalE c m acc (all_attr_args r) N) as X.
    destruct (add_attributes c m acc (all_attr_args r)) as [m1 acc1| |]; try discriminate. exact (IH _ _ _ _ X H).
Qed.

(* ---- groups *)
Lemma same_group_trans : forall a b c, same_group a b = true -> same_group b c = true -> same_group a c = true.
Proof.
  intros a b c H1 H2. unfold same_group in *. apply andb_true_iff in H1, H2. destruct H1 as [K1 I1], H2 as [K2 I2].
  rewrite (str_eqb_trans _ _ _ K1 K2). cbn [andb].
  destruct (rid a), (rid b), (rid c); try discriminate. exact (qn_eqb_trans _ _ _ I1 I2).
Qed.

Lemma same_group_has_id : forall a b, same_group a b = true -> exists q, rid a = Some q.
Proof.
  intros a b H. unfold same_group in H. apply andb_true_iff in H. destruct H as [_ H].
  destruct (rid a) as [q|]; [exists q; reflexivity | discriminate].
Qed.

(* what the walk leaves behind for a group: the group is one record, or one single-valued record keeps every
   attribute pair of every member (strictly single-valued when no member names prov:collection) *)
Definition in_group (r : prec) (all : list prec) (x : prec) : Prop := In x all /\ same_group r x = true.
Definition witness (r : prec) (all : list prec) : Prop :=
  (exists r', forall x, in_group r all x -> x = r') \/
  (exists o, NormalE o /\ ((forall x, in_group r all x -> no_coll x) -> Normal o) /\
             forall x, in_group r all x -> covered x o).

Lemma in_group_transfer : forall r r' all x, same_group r' r = true -> in_group r' all x -> in_group r all x.
Proof.
  intros r r' all x S [Hx G]. split; [exact Hx|]. rewrite same_group_sym in S. exact (same_group_trans _ _ _ S G).
Qed.

Lemma witness_transfer : forall r r' all, same_group r' r = true -> witness r all -> witness r' all.
Proof.
  intros r r' all S [[r1 H]|[o [N [NS C]]]].
  - left. exists r1. intros x Hx. apply H. exact (in_group_transfer _ _ _ _ S Hx).
  - right. exists o. split; [exact N|]. split.
    + intros NC. apply NS. intros x Hx. apply NC. rewrite same_group_sym in S. exact (in_group_transfer _ _ _ _ S Hx).
    + intros x Hx. apply C. exact (in_group_transfer _ _ _ _ S Hx).
Qed.

Definition group_agrees (r : prec) (all : list prec) : Prop :=
  forall q1 q2, In q1 all -> In q2 all -> same_group r q1 = true -> same_group r q2 = true -> ~ sconflict q1 q2.
Definition group_agrees_strict (r : prec) (all : list prec) : Prop :=
  forall q1 q2, In q1 all -> In q2 all -> same_group r q1 = true -> same_group r q2 = true -> ~ econflict q1 q2.

Lemma witness_agrees : forall r all, (forall x, In x all -> NormalE x) -> witness r all -> group_agrees r all.
Proof.
  intros r all NE [[r1 H]|[o [N [_ C]]]] q1 q2 H1 H2 G1 G2.
  - rewrite (H q1 (conj H1 G1)), (H q2 (conj H2 G2)). apply self_agree. rewrite <- (H q1 (conj H1 G1)). exact (NE q1 H1).
  - exact (covered_agree o q1 q2 N (C q1 (conj H1 G1)) (C q2 (conj H2 G2))).
Qed.

Lemma witness_agrees_strict : forall r all,
  (forall x, in_group r all x -> no_coll x /\ Normal x) -> witness r all -> group_agrees_strict r all.
Proof.
  intros r all HS [[r1 H]|[o [_ [NS C]]]] q1 q2 H1 H2 G1 G2.
  - rewrite (H q1 (conj H1 G1)), (H q2 (conj H2 G2)). apply self_agree_strict.
    rewrite <- (H q1 (conj H1 G1)). exact (proj2 (HS q1 (conj H1 G1))).
  - apply (covered_agree_strict o q1 q2); [apply NS; intros x Hx; exact (proj1 (HS x Hx)) | exact (C q1 (conj H1 G1)) | exact (C q2 (conj H2 G2))].
Qed.

Lemma filter_none : forall (f : prec -> bool) l, (forall x, In x l -> f x = false) -> filter f l = [].
Proof.
  intros f l. induction l as [|y l IH]; intros H; [reflexivity|]. cbn [filter].
  rewrite (H y (or_introl eq_refl)). apply IH. intros x Hx. apply H. right; exact Hx.
Qed.

(* ---- the walk: when it returns, every group it was responsible for agrees *)
Lemma walk_done_witness : forall fuel c m all pre todo seen m' l,
  all = (pre ++ todo)%list -> length todo < fuel -> InvU m ->
  (forall r, In r all -> good_rec (cft c) r) ->
  (forall x y, In x pre -> In y todo -> same_group x y = true -> existsb (same_group y) seen = true) ->
  unify_walk fuel c m all todo seen = Done m' l ->
  forall r, In r todo -> existsb (same_group r) seen = false -> rid r <> None -> witness r all.
Proof.
  induction fuel as [|f IH]; intros c m all pre todo seen m' l A L I G INV H; [inversion L|].
  destruct todo as [|r0 rest]; [intros r []|]. cbn [unify_walk] in H.
  assert (L' : length rest < f) by (cbn in L; lia).
  assert (A' : all = ((pre ++ [r0]) ++ rest)%list) by (rewrite <- app_assoc; exact A).
  assert (Rall : In r0 all) by (rewrite A; apply in_or_app; right; left; reflexivity).
  assert (RestAll : forall y, In y rest -> In y all) by (intros y Hy; rewrite A; apply in_or_app; right; right; exact Hy).
  (* the invariant for the rest, given what this step adds to seen *)
  assert (INVSTEP : forall seen',
            (forall y, existsb (same_group y) seen = true -> existsb (same_group y) seen' = true) ->
            (forall y, In y rest -> same_group r0 y = true -> existsb (same_group y) seen' = true) ->
            forall x y, In x (pre ++ [r0])%list -> In y rest -> same_group x y = true -> existsb (same_group y) seen' = true).
  { intros seen' MONO NEW x y Hx Hy S. apply in_app_or in Hx. destruct Hx as [Hx|[<-|[]]].
    - apply MONO. exact (INV x y Hx (or_intror Hy) S).
    - exact (NEW y Hy S). }
  destruct (rid r0) as [q0|] eqn:ER.
  - destruct (existsb (same_group r0) seen) eqn:ES.
    + (* group already emitted: r0 is nobody's responsibility here *)
      assert (INV' : forall x y, In x (pre ++ [r0])%list -> In y rest -> same_group x y = true -> existsb (same_group y) seen = true).
      { apply INVSTEP; [auto|]. intros y Hy S. apply existsb_exists in ES. destruct ES as [s [Hs Gs]].
        apply existsb_exists. exists s. split; [exact Hs|]. rewrite same_group_sym in S. exact (same_group_trans _ _ _ S Gs). }
      intros r [<-|Hr] NS NI; [congruence|].
      exact (IH _ _ _ _ _ _ _ _ A' L' I G INV' H r Hr NS NI).
    + (* r0 opens its group; nothing of the group stands before it *)
      assert (PRE : forall x, In x pre -> same_group r0 x = false).
      { intros x Hx. destruct (same_group r0 x) eqn:S; [|reflexivity]. rewrite same_group_sym in S.
        rewrite (INV x r0 Hx (or_introl eq_refl) S) in ES. discriminate. }
      assert (RR : same_group r0 r0 = true) by exact (same_group_refl r0 q0 ER).
      assert (FG : filter (same_group r0) all = r0 :: filter (same_group r0) rest).
      { rewrite A, filter_app, (filter_none _ pre PRE). cbn [app filter]. rewrite RR. reflexivity. }
      rewrite FG in H.
      destruct (filter (same_group r0) rest) as [|g1 grest] eqn:EG; cbv iota beta in H.
      * (* alone *)
        destruct (unify_walk f c m all rest seen) as [m1 l1|m1 e1|] eqn:EW; cbv iota beta in H; try discriminate.
        assert (ALONE : forall y, In y rest -> same_group r0 y = false).
        { intros y Hy. destruct (same_group r0 y) eqn:S; [|reflexivity].
          assert (X : In y (filter (same_group r0) rest)) by (apply filter_In; split; assumption). rewrite EG in X. destruct X. }
        assert (A0 : witness r0 all).
        { left. exists r0. intros x [Hx Sx].
          assert (X : In x (filter (same_group r0) all)) by (apply filter_In; split; assumption).
          rewrite FG in X. destruct X as [<-|[]]. reflexivity. }
        assert (INV' : forall x y, In x (pre ++ [r0])%list -> In y rest -> same_group x y = true -> existsb (same_group y) seen = true).
        { apply INVSTEP; [auto|]. intros y Hy S. rewrite (ALONE y Hy) in S. discriminate. }
        intros r [<-|Hr] NS NI; [exact A0|].
        exact (IH _ _ _ _ _ _ _ _ A' L' I G INV' EW r Hr NS NI).
      * (* a group of two or more: copied, merged *)
        cbn [tl] in H.
        assert (GRP : forall x, In x (g1 :: grest) -> In x all /\ same_group r0 x = true).
        { intros x Hx. rewrite <- EG in Hx. apply filter_In in Hx. destruct Hx as [Hx Sx]. split; [exact (RestAll x Hx) | exact Sx]. }
        destruct (add_attributes c m (mkRec (rkind r0) (Some q0) []) (all_attr_args r0)) as [m1 cp|m1 cp e1|] eqn:EA;
          cbv iota beta in H; try discriminate.
        pose proof (add_attributes_InvU_done _ _ _ _ _ _ I EA) as I1.
        destruct (readd_all_conserves c m _ r0 m1 cp I (G r0 Rall) EA) as [_ [_ [_ [_ C1]]]].
        pose proof (add_attributes_normalE c m (mkRec (rkind r0) (Some q0) []) (all_attr_args r0) (NormalE_nil : NormalE (mkRec _ _ []))) as Ncp.
        rewrite EA in Ncp.
        assert (GT : forall x, In x (g1 :: grest) -> good_rec (cft c) x) by (intros x Hx; apply G; exact (proj1 (GRP x Hx))).
        destruct (merge_group c m1 cp (g1 :: grest)) as [m2 merged|m2 e2|] eqn:EM; cbv iota beta in H; try discriminate.
        destruct (merge_group_conserves c _ m1 cp m2 merged I1 GT EM) as [_ [_ [I2 [_ [P2 C2]]]]].
        pose proof (merge_group_normalE _ _ _ _ _ _ Ncp EM) as Nm.
        destruct (unify_walk f c m2 all rest (r0 :: seen)) as [m3 l3|m3 e3|] eqn:EW; cbv iota beta in H; try discriminate.
        assert (COV : forall x, In x all -> same_group r0 x = true -> covered x merged).
        { intros x Hx Sx. assert (X : In x (filter (same_group r0) all)) by (apply filter_In; split; assumption).
          rewrite FG in X. destruct X as [<-|X].
          - intros p Hp. destruct (C1 p Hp) as [v2 [w [SV [Hw K]]]]. exists v2, w. split; [exact SV|]. split; [apply P2; exact Hw | exact K].
          - intros p Hp. exact (C2 x p X Hp). }
        assert (A0 : witness r0 all).
        { right. exists merged. split; [exact Nm|]. split.
          - intros NC.
            pose proof (add_attributes_normal c m (mkRec (rkind r0) (Some q0) []) (all_attr_args r0)
                          (NormalD_nil : Normal (mkRec _ _ [])) (NC r0 (conj Rall RR))) as Scp.
            rewrite EA in Scp.
            refine (merge_group_normal _ _ _ _ _ _ Scp _ EM).
            intros x Hx. apply NC. destruct (GRP x Hx) as [Hall Sx]. split; assumption.
          - intros x [Hx Sx]. exact (COV x Hx Sx). }
        assert (INV' : forall x y, In x (pre ++ [r0])%list -> In y rest -> same_group x y = true ->
                                   existsb (same_group y) (r0 :: seen) = true).
        { apply INVSTEP.
          - intros y Ey. cbn [existsb]. rewrite Ey. apply orb_true_r.
          - intros y Hy S. cbn [existsb]. rewrite same_group_sym, S. reflexivity. }
        intros r [<-|Hr] NS NI; [exact A0|].
        destruct (same_group r r0) eqn:SR.
        -- exact (witness_transfer r0 r all SR A0).
        -- assert (NS' : existsb (same_group r) (r0 :: seen) = false) by (cbn [existsb]; rewrite SR, NS; reflexivity).
           exact (IH _ _ _ _ _ _ _ _ A' L' I2 G INV' EW r Hr NS' NI).
  - (* no identifier: kept as it is, groups with nothing *)
    destruct (unify_walk f c m all rest seen) as [m1 l1|m1 e1|] eqn:EW; cbv iota beta in H; try discriminate.
    assert (INV' : forall x y, In x (pre ++ [r0])%list -> In y rest -> same_group x y = true -> existsb (same_group y) seen = true).
    { apply INVSTEP; [auto|]. intros y Hy S. destruct (same_group_has_id _ _ S) as [q Eq]. congruence. }
    intros r [<-|Hr] NS NI; [congruence|].
    exact (IH _ _ _ _ _ _ _ _ A' L' I G INV' EW r Hr NS NI).
Qed.

(* a strict conflict inside one (kind, identifier) group *)
Definition group_sconflict (all : list prec) : Prop :=
  exists r q1 q2, In r all /\ In q1 all /\ In q2 all /\
                  same_group r q1 = true /\ same_group r q2 = true /\ sconflict q1 q2.

(* unified() of the records of a container does not return when two records of one group disagree on a
   single-valued formal attribute *)
Lemma unified_returns_witness : forall ft b u,
  (forall r, In r (brecs b) -> good_rec ft r) -> unified_records ft b = OK u ->
  forall r, In r (brecs b) -> rid r <> None -> witness r (brecs b).
Proof.
  intros ft b u G H r Hr NI. unfold unified_records in H.
  destruct (unify_walk (S (length (brecs b))) (mkCtx (Some (bns b)) ft) nsm_init (brecs b) (brecs b) []) as [m' l|m' e'|] eqn:E;
    try discriminate.
  refine (walk_done_witness _ (mkCtx (Some (bns b)) ft) _ (brecs b) [] _ _ _ _ eq_refl (Nat.lt_succ_diag_r _) InvU_init G _ E
            r Hr eq_refl NI).
  intros x y [].
Qed.

Theorem unified_returns_no_conflict : forall ft b u,
  (forall r, In r (brecs b) -> good_rec ft r) -> (forall r, In r (brecs b) -> NormalE r) ->
  unified_records ft b = OK u -> ~ group_sconflict (brecs b).
Proof.
  intros ft b u G NE H [r [q1 [q2 [Hr [H1 [H2 [G1 [G2 C]]]]]]]].
  destruct (same_group_has_id _ _ G1) as [q Eq].
  assert (NI : rid r <> None) by congruence.
  exact (witness_agrees r (brecs b) NE (unified_returns_witness ft b u G H r Hr NI) q1 q2 H1 H2 G1 G2 C).
Qed.

(* prov:entity too: in a group none of whose records names prov:collection and all of whose records are strictly
   single-valued (generations, usages, ... — everything but memberships), no two records disagree on any formal
   attribute when unified() returns *)
Definition group_econflict (all : list prec) : Prop :=
  exists r q1 q2, In r all /\ In q1 all /\ In q2 all /\
                  same_group r q1 = true /\ same_group r q2 = true /\
                  (forall x, In x all -> same_group r x = true -> no_coll x /\ Normal x) /\ econflict q1 q2.

Theorem unified_returns_no_econflict : forall ft b u,
  (forall r, In r (brecs b) -> good_rec ft r) ->
  unified_records ft b = OK u -> ~ group_econflict (brecs b).
Proof.
  intros ft b u G H [r [q1 [q2 [Hr [H1 [H2 [G1 [G2 [HS C]]]]]]]]].
  destruct (same_group_has_id _ _ G1) as [q Eq].
  assert (NI : rid r <> None) by congruence.
  refine (witness_agrees_strict r (brecs b) _ (unified_returns_witness ft b u G H r Hr NI) q1 q2 H1 H2 G1 G2 C).
  intros x [Hx Sx]. exact (HS x Hx Sx).
Qed.

(* in every reachable world: a conflict means unified() raises ProvException (or the container is outside
   the model's domain — World.formal_single, fuel never runs out on a list of that length) *)
From Prov Require Import Interp InterpProofs WInvUProofs GoodProofs NormalWorld.

Lemma WNormal_get_cont_recs : forall w c b, WNormal w -> get_cont w c = Some b -> forall r, In r (brecs b) -> NormalE r.
Proof.
  intros w c b W G r Hr. destruct (In_nth_error _ _ Hr) as [i Hi].
  apply (WNormal_get_rec w (RRef c i) r W). unfold get_rec. rewrite G. exact Hi.
Qed.

Theorem reachable_conflict_raises : forall ft ops c b,
  let w := wrun ft ops in
  get_cont w c = Some b -> group_sconflict (brecs b) ->
  unified_records (wft w) b = Raise EProv \/ unified_records (wft w) b = OutOfDomain.
Proof.
  intros ft ops c b w G C.
  destruct (reachable_WGood ft ops) as [_ WG]. fold w in WG.
  pose proof (WGood_get_cont w c b WG G) as B. unfold BGood in B. rewrite Forall_forall in B.
  assert (GR : forall r, In r (brecs b) -> good_rec (wft w) r) by (intros r Hr; apply GoodR_good_rec; exact (B r Hr)).
  assert (NR : forall r, In r (brecs b) -> NormalE r) by (exact (WNormal_get_cont_recs w c b (reachable_WNormal ft ops) G)).
  destruct (unified_records (wft w) b) as [u|e|] eqn:E.
  - exfalso. exact (unified_returns_no_conflict _ _ _ GR NR E C).
  - left. destruct (unified_raises_on_conflict_only (wft w) b e GR E) as [-> _]. reflexivity.
  - right. reflexivity.
Qed.

(* ---- documents: ProvDocument.unified() returns only when neither the document's own records nor the records
   of any of its bundles hold a strict conflict *)
From Prov Require Import Derive.

Lemma unify_bundles_all_ok : forall ft bs nd nd', unify_bundles ft bs nd = OK nd' ->
  forall k b, In (k, b) bs -> exists u, unified_records ft b = OK u.
Proof.
  intros ft bs. induction bs as [|[k0 b0] rest IH]; intros nd nd' H k b Hin; [destruct Hin|].
  cbn [unify_bundles] in H.
  destruct (bundle_unified ft b0) as [nb|e|] eqn:EB; try discriminate.
  destruct (attach_bundle nd nb) as [nd1 [x|e|]] eqn:EA; try discriminate.
  destruct Hin as [Heq|Hin].
  - inversion Heq; subst k0 b0. unfold bundle_unified in EB.
    destruct (unified_records ft b) as [u|e|]; try discriminate. exists u. reflexivity.
  - exact (IH _ _ H k b Hin).
Qed.

Theorem doc_unified_returns_no_conflict : forall ft dd nd,
  DGood ft dd -> DNormal dd -> doc_unified ft dd = OK nd ->
  ~ group_sconflict (brecs (dmain dd)) /\ forall k b, In (k, b) (dbundles dd) -> ~ group_sconflict (brecs b).
Proof.
  intros ft dd nd [GM GB] [NM NB] H. unfold doc_unified in H.
  destruct (add_namespaces nsm_init (map snd (regd (bns (dmain dd))))) as [m0|]; [|discriminate].
  destruct (unified_records ft (dmain dd)) as [u|e|] eqn:EU; try discriminate.
  destruct (add_records None ft _ u) as [nmain [x|e|]]; try discriminate.
  unfold BGood in GM. rewrite Forall_forall in GM, GB, NB. unfold BNormal in NM. rewrite Forall_forall in NM.
  split.
  - apply (unified_returns_no_conflict ft (dmain dd) u); [intros r Hr; apply GoodR_good_rec; exact (GM r Hr) | exact NM | exact EU].
  - intros k b Hin. destruct (unify_bundles_all_ok _ _ _ _ H k b Hin) as [ub EUb].
    pose proof (GB (k, b) Hin) as Gb. pose proof (NB (k, b) Hin) as Nb. cbn [snd] in Gb, Nb.
    unfold BGood in Gb. unfold BNormal in Nb. rewrite Forall_forall in Gb, Nb.
    apply (unified_returns_no_conflict ft b ub); [intros r Hr; apply GoodR_good_rec; exact (Gb r Hr) | exact Nb | exact EUb].
Qed.

Theorem reachable_doc_unified_no_conflict : forall ft ops d dd nd,
  let w := wrun ft ops in
  get_doc w d = Some dd -> doc_unified (wft w) dd = OK nd ->
  ~ group_sconflict (brecs (dmain dd)) /\ forall k b, In (k, b) (dbundles dd) -> ~ group_sconflict (brecs b).
Proof.
  intros ft ops d dd nd w G H.
  destruct (reachable_WGood ft ops) as [_ WG]. fold w in WG.
  exact (doc_unified_returns_no_conflict _ _ _ (WGood_get_doc w d dd WG G) (WNormal_get_doc w d dd (reachable_WNormal ft ops) G) H).
Qed.

(* the strict form in every reachable world *)
Theorem reachable_econflict_raises : forall ft ops c b,
  let w := wrun ft ops in
  get_cont w c = Some b -> group_econflict (brecs b) ->
  unified_records (wft w) b = Raise EProv \/ unified_records (wft w) b = OutOfDomain.
Proof.
  intros ft ops c b w G C.
  destruct (reachable_WGood ft ops) as [_ WG]. fold w in WG.
  pose proof (WGood_get_cont w c b WG G) as B. unfold BGood in B. rewrite Forall_forall in B.
  assert (GR : forall r, In r (brecs b) -> good_rec (wft w) r) by (intros r Hr; apply GoodR_good_rec; exact (B r Hr)).
  destruct (unified_records (wft w) b) as [u|e|] eqn:E.
  - exfalso. exact (unified_returns_no_econflict _ _ _ GR E C).
  - left. destruct (unified_raises_on_conflict_only (wft w) b e GR E) as [-> _]. reflexivity.
  - right. reflexivity.
Qed.

(* a record with one value under one formal attribute is strictly single-valued *)
Lemma Normal_single_pair : forall k i a v, typed a v -> Normal (mkRec k i [(a, [v])]).
Proof.
  intros k i a v T x F. cbn [rattrs attr_get]. destruct (qn_eqb x a) eqn:E; [|exact I].
  eapply typed_transfer; eauto.
Qed.

(* documents, strict form: ProvDocument.unified() returns only when no container holds a disagreement under any formal
   attribute in a group without prov:collection; and ProvBundle.unified() likewise for the bundle's own records *)
Theorem reachable_doc_unified_no_econflict : forall ft ops d dd nd,
  let w := wrun ft ops in
  get_doc w d = Some dd -> doc_unified (wft w) dd = OK nd ->
  ~ group_econflict (brecs (dmain dd)) /\ forall k b, In (k, b) (dbundles dd) -> ~ group_econflict (brecs b).
Proof.
  intros ft ops d dd nd w G H.
  destruct (reachable_WGood ft ops) as [_ WG]. fold w in WG.
  destruct (WGood_get_doc w d dd WG G) as [GM GB].
  unfold doc_unified in H.
  destruct (add_namespaces nsm_init (map snd (regd (bns (dmain dd))))) as [m0|]; [|discriminate].
  destruct (unified_records (wft w) (dmain dd)) as [u|e|] eqn:EU; try discriminate.
  destruct (add_records None (wft w) _ u) as [nmain [x|e|]]; try discriminate.
  unfold BGood in GM. rewrite Forall_forall in GM, GB.
  split.
  - apply (unified_returns_no_econflict (wft w) (dmain dd) u); [intros r Hr; apply GoodR_good_rec; exact (GM r Hr) | exact EU].
  - intros k b Hin. destruct (unify_bundles_all_ok _ _ _ _ H k b Hin) as [ub EUb].
    pose proof (GB (k, b) Hin) as Gb. cbn [snd] in Gb. unfold BGood in Gb. rewrite Forall_forall in Gb.
    apply (unified_returns_no_econflict (wft w) b ub); [intros r Hr; apply GoodR_good_rec; exact (Gb r Hr) | exact EUb].
Qed.

Theorem reachable_bundle_unified_no_conflict : forall ft ops c b nb,
  let w := wrun ft ops in
  get_cont w c = Some b -> bundle_unified (wft w) b = OK nb ->
  ~ group_sconflict (brecs b) /\ ~ group_econflict (brecs b).
Proof.
  intros ft ops c b nb w G H.
  destruct (reachable_WGood ft ops) as [_ WG]. fold w in WG.
  pose proof (WGood_get_cont w c b WG G) as B. unfold BGood in B. rewrite Forall_forall in B.
  assert (GR : forall r, In r (brecs b) -> good_rec (wft w) r) by (intros r Hr; apply GoodR_good_rec; exact (B r Hr)).
  assert (NR : forall r, In r (brecs b) -> NormalE r) by (exact (WNormal_get_cont_recs w c b (reachable_WNormal ft ops) G)).
  unfold bundle_unified in H. destruct (unified_records (wft w) b) as [u|e|] eqn:E; try discriminate.
  split; [exact (unified_returns_no_conflict _ _ _ GR NR E) | exact (unified_returns_no_econflict _ _ _ GR E)].
Qed.
