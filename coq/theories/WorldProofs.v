(* WorldProofs.v — C18: the identifier map of every container agrees with its record
   list after any sequence of API calls. *)
From Coq Require Import String Ascii List Bool Arith ZArith Lia.
From Prov Require Import Str StrProofs Sexp Tables Nsm NsmProofs Values Record RecordProofs World Interp.
Import ListNotations.
Open Scope string_scope.

Definition has_uri (k : string) (r : prec) : bool :=
  match rid r with Some q => String.eqb (qn_uri q) k | None => false end.

(* positions of the records identified by URI k, in insertion order *)
Fixpoint positions_from (i : nat) (k : string) (l : list prec) : list nat :=
  match l with
  | [] => []
  | r :: rest => ((if has_uri k r then [i] else []) ++ positions_from (S i) k rest)%list
  end.

Definition idmap_get (k : string) (b : bundle) : list nat :=
  match lookup k (bidmap b) with Some l => l | None => [] end.

Definition Coherent (b : bundle) : Prop :=
  forall k, idmap_get k b = positions_from 0 k (brecs b).

Lemma positions_app : forall l i k r,
  positions_from i k (l ++ [r])%list =
  (positions_from i k l ++ (if has_uri k r then [i + length l] else []))%list.
Proof.
  induction l as [|x l IH]; intros i k r; cbn [positions_from app length].
  - rewrite Nat.add_0_r, app_nil_r. reflexivity.
  - rewrite IH. rewrite <- app_assoc. replace (S i + length l) with (i + S (length l)) by lia. reflexivity.
Qed.

Lemma positions_rids : forall l l' i k, map rid l = map rid l' -> positions_from i k l = positions_from i k l'.
Proof.
  induction l as [|x l IH]; intros [|y l'] i k H; cbn [map] in H; try discriminate; [reflexivity|].
  inversion H as [[H1 H2]]. cbn [positions_from]. unfold has_uri. rewrite H1. f_equal. apply IH. exact H2.
Qed.

Lemma Coherent_init : forall i, Coherent (bundle_init i).
Proof. intros i k. reflexivity. Qed.

Lemma Coherent_empty : forall i m, Coherent (mkB i m [] []).
Proof. intros i m k. reflexivity. Qed.

Lemma Coherent_with_ns : forall b m, Coherent b -> Coherent (with_ns b m).
Proof. intros b m C k. apply C. Qed.

Lemma Coherent_add_rec : forall b r, Coherent b -> Coherent (add_rec_to b r).
Proof.
  intros b r C k. unfold add_rec_to, idmap_get. cbn [bidmap brecs].
  rewrite positions_app. cbn [plus]. rewrite <- (C k). unfold idmap_get, has_uri.
  destruct (rid r) as [q|].
  - unfold idmap_append. rewrite lookup_dset.
    destruct (String.eqb k (qn_uri q)) eqn:E.
    + apply String.eqb_eq in E. subst k. rewrite String.eqb_refl.
      destruct (lookup (qn_uri q) (bidmap b)); reflexivity.
    + rewrite String.eqb_sym, E. rewrite app_nil_r. reflexivity.
  - rewrite app_nil_r. reflexivity.
Qed.

Lemma map_rid_set_nth : forall (l : list prec) i r r0,
  nth_error l i = Some r0 -> rid r = rid r0 -> map rid (World.set_nth i r l) = map rid l.
Proof.
  induction l as [|x l IH]; intros [|i] r r0 H E; cbn in *; try discriminate.
  - inversion H; subst. rewrite E. reflexivity.
  - f_equal. eapply IH; eauto.
Qed.

Lemma Coherent_upd : forall b i m r r0,
  Coherent b -> nth_error (brecs b) i = Some r0 -> rid r = rid r0 -> Coherent (upd_rec b i m r).
Proof.
  intros b i m r r0 C H E k. unfold upd_rec, idmap_get. cbn [bidmap brecs].
  rewrite (positions_rids _ (brecs b)); [apply C|]. eapply map_rid_set_nth; eauto.
Qed.

Lemma add_attributes_rid : forall c m r l,
  match add_attributes c m r l with
  | ADone _ r' => rid r' = rid r
  | AFail _ r' _ => rid r' = rid r
  | AOOD => True
  end.
Proof.
  intros c m r l. unfold add_attributes. destruct l; [reflexivity|].
  destruct (add_attrs_loop _ _ _ _ _) as [[m' d] [|e|]]; cbn; auto.
Qed.

Lemma new_record_coherent : forall par ft b k i attrs b' x,
  Coherent b -> new_record par ft b k i attrs = (b', x) -> Coherent b'.
Proof.
  intros par ft b k i attrs b' x C H. unfold new_record in H.
  destruct (match i with None => Done (bns b) None | Some x0 => resolve_o _ (bns b) x0 end)
    as [m1 idq|m1 e|]; try (inversion H; subst; auto using Coherent_with_ns; fail).
  destruct (new_prec _ m1 k idq attrs) as [m2 r|m2 e|];
    inversion H; subst; auto using Coherent_with_ns, Coherent_add_rec.
Qed.

Lemma add_record_coherent : forall par ft b r b' x,
  Coherent b -> add_record par ft b r = (b', x) -> Coherent b'.
Proof.
  intros par ft b r b' x C H. unfold add_record in H.
  destruct (negb (formal_single r)); [inversion H; subst; exact C|].
  eapply new_record_coherent; eauto.
Qed.

Lemma add_records_coherent : forall par ft rs b b' x,
  Coherent b -> add_records par ft b rs = (b', x) -> Coherent b'.
Proof.
  induction rs as [|r rs IH]; intros b b' x C H; cbn [add_records] in H.
  - inversion H; subst; exact C.
  - destruct (add_record par ft b r) as [b1 [y|e|]] eqn:E.
    + eapply IH; [|exact H]. eapply add_record_coherent; eauto.
    + inversion H; subst. eapply add_record_coherent; eauto.
    + inversion H; subst. eapply add_record_coherent; eauto.
Qed.

Lemma nth_error_last : forall (l : list prec) r, nth_error (l ++ [r])%list (length (l ++ [r])%list - 1) = Some r.
Proof.
  intros l r. rewrite app_length. cbn [length]. replace (length l + 1 - 1) with (length l) by lia.
  rewrite nth_error_app2 by lia. rewrite Nat.sub_diag. reflexivity.
Qed.

Lemma new_record_ok_last : forall par ft b k i attrs b' r,
  new_record par ft b k i attrs = (b', OK r) ->
  nth_error (brecs b') (length (brecs b') - 1) = Some r.
Proof.
  intros par ft b k i attrs b' r H. unfold new_record in H.
  destruct (match i with None => Done (bns b) None | Some x0 => resolve_o _ (bns b) x0 end)
    as [m1 idq|m1 e|]; try (inversion H; fail).
  destruct (new_prec _ m1 k idq attrs) as [m2 r2|m2 e|]; inversion H; subst.
  unfold add_rec_to. cbn [brecs with_ns]. apply nth_error_last.
Qed.

Lemma factory_call_coherent : forall par ft b f i args other b' x,
  Coherent b -> factory_call par ft b f i args other = (b', x) -> Coherent b'.
Proof.
  intros par ft b f i args other b' x C H. unfold factory_call in H.
  destruct (factory_entry f) as [[[[fn k] params] asserted]|]; [|inversion H; subst; exact C].
  destruct (factory_args (bns b) params args) as [m0 fa|m0 e|]; try (inversion H; subst; exact C).
  destruct (new_record par ft b k i (fa ++ other)%list) as [b1 [r|e|]] eqn:E;
    try (inversion H; subst; eapply new_record_coherent; eauto; fail).
  pose proof (new_record_coherent _ _ _ _ _ _ _ _ C E) as C1.
  destruct asserted as [ty|]; [|inversion H; subst; exact C1].
  pose proof (add_attributes_rid (mkCtx par ft) (bns b1) r [(NQn (prov_qn "type"), AQn (prov_qn ty))]) as R.
  pose proof (new_record_ok_last _ _ _ _ _ _ _ _ E) as LST.
  destruct (add_attributes _ (bns b1) r _) as [m2 r2|m2 r2 e|]; inversion H; subst.
  - change (Coherent (upd_rec b1 (length (brecs b1) - 1) m2 r2)). eapply Coherent_upd; eauto.
  - change (Coherent (upd_rec b1 (length (brecs b1) - 1) m2 r2)). eapply Coherent_upd; eauto.
  - exact C1.
Qed.

(* ---- documents and worlds ---- *)
Definition DCoh (dd : doc) : Prop :=
  Coherent (dmain dd) /\ Forall (fun kb => Coherent (snd kb)) (dbundles dd).
Definition WCoh (w : world) : Prop := Forall DCoh (wdocs w).

Lemma Forall_set_nth {T} (P : T -> Prop) : forall l i v, Forall P l -> P v -> Forall P (World.set_nth i v l).
Proof.
  induction l as [|a l IH]; intros [|i] v F Pv; cbn; inversion F; subst; constructor; auto.
Qed.

Lemma WCoh_get_doc : forall w d dd, WCoh w -> get_doc w d = Some dd -> DCoh dd.
Proof. intros w d dd W G. unfold WCoh in W. rewrite Forall_forall in W. apply W. eapply nth_error_In; eauto. Qed.

Lemma WCoh_get_cont : forall w c b, WCoh w -> get_cont w c = Some b -> Coherent b.
Proof.
  intros w c b W G. destruct c as [d|d i]; cbn [get_cont] in G.
  - destruct (get_doc w d) as [dd|] eqn:E; [|discriminate]. inversion G; subst.
    apply (WCoh_get_doc _ _ _ W E).
  - destruct (get_doc w d) as [dd|] eqn:E; [|discriminate].
    destruct (nth_error (dbundles dd) i) as [[k bb]|] eqn:E2; [|discriminate]. inversion G; subst.
    destruct (WCoh_get_doc _ _ _ W E) as [_ F]. rewrite Forall_forall in F.
    apply (F (k, b)). eapply nth_error_In; eauto.
Qed.

Lemma WCoh_set_doc : forall w d dd, WCoh w -> DCoh dd -> WCoh (set_doc w d dd).
Proof. intros. unfold WCoh, set_doc; cbn. apply Forall_set_nth; assumption. Qed.

Lemma WCoh_set_cont : forall w c b, WCoh w -> Coherent b -> WCoh (set_cont w c b).
Proof.
  intros w c b W C. unfold set_cont. destruct c as [d|d i].
  - destruct (get_doc w d) as [dd|] eqn:E; [|exact W].
    apply WCoh_set_doc; [exact W|]. destruct (WCoh_get_doc _ _ _ W E) as [_ F]. split; assumption.
  - destruct (get_doc w d) as [dd|] eqn:E; [|exact W].
    destruct (nth_error (dbundles dd) i) as [[k bb]|] eqn:E2; [|exact W].
    apply WCoh_set_doc; [exact W|]. destruct (WCoh_get_doc _ _ _ W E) as [M F].
    split; [exact M|]. apply Forall_set_nth; [exact F | exact C].
Qed.

Lemma WCoh_app : forall w nd ft, WCoh w -> DCoh nd -> WCoh (mkW (wdocs w ++ [nd])%list ft).
Proof. intros. unfold WCoh; cbn. apply Forall_app. split; [assumption | constructor; [assumption|constructor]]. Qed.

Lemma doc_new_bundle_coh : forall dd x ft dd' r, DCoh dd -> doc_new_bundle dd x ft = (dd', r) -> DCoh dd'.
Proof.
  intros dd x ft dd' r [M F] H. unfold doc_new_bundle in H.
  destruct x as [n|]; [|inversion H; subst; split; assumption].
  destruct (resolve None (bns (dmain dd)) n) as [[m [q|]]|e|];
    try (inversion H; subst; split; auto using Coherent_with_ns; fail).
  cbn [dmain dbundles] in H.
  destruct (mem (qn_uri q) (dbundles dd)); inversion H; subst; cbn [dmain dbundles];
    split; auto using Coherent_with_ns.
  apply Forall_app. split; [exact F|]. constructor; [apply Coherent_init | constructor].
Qed.

Lemma merge_bundles_coh : forall ft bs dd dd' r, DCoh dd -> merge_bundles ft dd bs = (dd', r) -> DCoh dd'.
Proof.
  induction bs as [|[k sb] bs IH]; intros dd dd' r D H; cbn [merge_bundles] in H.
  - inversion H; subst; exact D.
  - destruct sb as [[sid|] sns srecs smap]; [|inversion H; subst; exact D].
    cbv zeta in H.
    destruct (find _ (combine _ (dbundles dd))) as [[i ?]|].
    + destruct (nth_error (dbundles dd) i) as [[k1 tb]|] eqn:E1; [|inversion H; subst; exact D].
      destruct D as [M F].
      assert (Ctb : Coherent tb).
      { rewrite Forall_forall in F. apply (F (k1, tb)). eapply nth_error_In; eauto. }
      destruct (add_records _ ft tb srecs) as [tb' [y|e|]] eqn:EA.
      * eapply IH; [|exact H]. split; [exact M|]. apply Forall_set_nth; [exact F|].
        eapply add_records_coherent; eauto.
      * inversion H; subst. split; [exact M|]. apply Forall_set_nth; [exact F|].
        eapply add_records_coherent; eauto.
      * inversion H; subst. split; assumption.
    + destruct (doc_new_bundle dd (Some (NQn sid)) ft) as [dd1 [y|e|]] eqn:EN;
        try (inversion H; subst; eapply doc_new_bundle_coh; eauto; fail).
      pose proof (doc_new_bundle_coh _ _ _ _ _ D EN) as D1.
      destruct (nth_error (dbundles dd1) (length (dbundles dd1) - 1)) as [[k1 tb]|] eqn:E1;
        [|inversion H; subst; exact D1].
      destruct D1 as [M F].
      assert (Ctb : Coherent tb).
      { rewrite Forall_forall in F. apply (F (k1, tb)). eapply nth_error_In; eauto. }
      destruct (add_records _ ft tb srecs) as [tb' [y2|e|]] eqn:EA.
      * eapply IH; [|exact H]. split; [exact M|]. apply Forall_set_nth; [exact F|].
        eapply add_records_coherent; eauto.
      * inversion H; subst. split; [exact M|]. apply Forall_set_nth; [exact F|].
        eapply add_records_coherent; eauto.
      * inversion H; subst. split; assumption.
Qed.

Lemma bundle_unified_coh : forall ft b nb, bundle_unified ft b = OK nb -> Coherent nb.
Proof.
  intros ft b nb H. unfold bundle_unified in H.
  destruct (unified_records ft b) as [urecs|e|]; try discriminate.
  destruct (add_records None ft (bundle_init (bid b)) urecs) as [nb' [y|e|]] eqn:E; inversion H; subst.
  eapply add_records_coherent; [apply Coherent_init | exact E].
Qed.

Lemma attach_bundle_coh : forall dd b dd' r, DCoh dd -> Coherent b -> attach_bundle dd b = (dd', r) -> DCoh dd'.
Proof.
  intros dd b dd' r [M F] C H. unfold attach_bundle in H.
  destruct (bid b) as [i|]; [|inversion H; subst; split; assumption].
  destruct (resolve _ (bns b) (NQn i)) as [[m [q|]]|e|]; try (inversion H; subst; split; assumption).
  destruct (mem (qn_uri q) (dbundles dd)); inversion H; subst; [split; assumption|].
  split; [exact M|]. cbn [dbundles]. apply Forall_app. split; [exact F|].
  constructor; [|constructor]. intros k. apply C.
Qed.

Lemma unify_bundles_coh : forall ft bs nd nd', DCoh nd -> unify_bundles ft bs nd = OK nd' -> DCoh nd'.
Proof.
  induction bs as [|[k b] bs IH]; intros nd nd' D H; cbn [unify_bundles] in H.
  - inversion H; subst; exact D.
  - destruct (bundle_unified ft b) as [nb|e|] eqn:EB; try discriminate.
    destruct (attach_bundle nd nb) as [nd1 [y|e|]] eqn:EA; try discriminate.
    eapply IH; [|exact H]. eapply attach_bundle_coh; eauto. eapply bundle_unified_coh; eauto.
Qed.

Lemma DCoh_main : forall b, Coherent b -> DCoh (mkD b []).
Proof. intros b C. split; [exact C | constructor]. Qed.

Lemma add_attributes_done_rid : forall c m r l m' r', add_attributes c m r l = ADone m' r' -> rid r' = rid r.
Proof. intros c m r l m' r' H. pose proof (add_attributes_rid c m r l) as R. rewrite H in R. exact R. Qed.
Lemma add_attributes_fail_rid : forall c m r l m' r' e, add_attributes c m r l = AFail m' r' e -> rid r' = rid r.
Proof. intros c m r l m' r' e H. pose proof (add_attributes_rid c m r l) as R. rewrite H in R. exact R. Qed.

Lemma DCoh_attach : forall dd nb k i m,
  DCoh dd -> Coherent nb ->
  DCoh (mkD (dmain dd) (dbundles dd ++ [(k, mkB i m (brecs nb) (bidmap nb))])%list).
Proof.
  intros dd nb k i m [M F] C. split; [exact M|]. cbn [dbundles]. apply Forall_app. split; [exact F|].
  constructor; [|constructor]. intros x. apply C.
Qed.

Lemma DCoh_with_main : forall dd b, DCoh dd -> Coherent b -> DCoh (mkD b (dbundles dd)).
Proof. intros dd b [M F] C. split; assumption. Qed.

(* ------------------------------------------------------------------ C09: re-creation in the
   target scope keeps kind and identifier URI, appends, and touches nothing else *)
Lemma resolve_o_InvU : forall c m x,
  InvU m ->
  match resolve_o c m x with
  | Done m' _ => InvU m'
  | Fail m' _ => InvU m'
  | OOD => True
  end.
Proof.
  intros c m x I. unfold resolve_o. destruct (resolve (cparent c) m x) as [[m' r]|e|] eqn:E; auto.
  eapply resolve_InvU; eauto.
Qed.

Definition out_InvU {T} (o : outcome T) : Prop :=
  match o with Done m _ => InvU m | Fail m _ => InvU m | OOD => True end.

Lemma via_InvU : forall c m x, InvU m ->
  out_InvU (match resolve_o c m x with
            | Done m' (Some q) => Done m' (Some (VQn q))
            | Done m' None => Done m' None
            | Fail m' e => Fail m' e
            | OOD => OOD
            end).
Proof.
  intros c m x I. pose proof (resolve_o_InvU c m x I) as R.
  destruct (resolve_o c m x) as [m' [q|]|m' e|]; exact R.
Qed.

Lemma qn_value_InvU : forall c m a, InvU m -> out_InvU (qn_value c m a).
Proof.
  intros c m a I. unfold qn_value.
  destruct a as [s|z|r iv g|b|t|u|q|lex dt lang|[q|]|]; try (first [exact I | constructor]); apply via_InvU; exact I.
Qed.

Lemma time_value_InvU : forall m a, InvU m -> out_InvU (time_value m a).
Proof.
  intros m a I. unfold time_value. destruct a; try (first [exact I | constructor]). destruct (parse_datetime s); first [exact I | constructor].
Qed.

Lemma keep_literal_InvU : forall c m lex dt lang, InvU m -> out_InvU (keep_literal c m lex dt lang).
Proof.
  intros c m lex dt lang HI. unfold keep_literal.
  destruct (mk_literal lex dt lang) as [s|z|r iv g|b|t|u|q|l d g]; try exact HI.
  destruct d as [d|]; [|exact HI].
  pose proof (resolve_o_InvU c m (NQn d) HI) as R.
  destruct (resolve_o c m (NQn d)) as [m' [q|]|m' e|]; exact R.
Qed.

Lemma auto_conv_InvU : forall c m a, InvU m -> out_InvU (auto_conv c m a).
Proof.
  intros c m a HI. unfold auto_conv.
  destruct a as [s|z|r iv g|b|t|u|q|lex dt lang|[q|]|]; try exact HI; try (apply via_InvU; exact HI).
  destruct lang; [apply keep_literal_InvU; exact HI|]. destruct dt as [d|]; [|exact HI].
    destruct (parse_xsd (cft c) lex d); first [exact HI | constructor | apply keep_literal_InvU; exact HI].
Qed.

Lemma add_attrs_loop_InvU : forall c ic l m d,
  InvU m -> InvU (fst (fst (add_attrs_loop c ic m d l))).
Proof.
  intros c ic l. induction l as [|[n a] l IH]; intros m d I; [exact I|].
  destruct (valarg_is_none a) as [->|NN]; [rewrite add_attrs_loop_none; apply IH; exact I|].
  rewrite add_attrs_loop_cons by exact NN. unfold loop_body.
  pose proof (resolve_o_InvU c m n I) as R.
  destruct (resolve_o c m n) as [m1 [attr|]|m1 e|]; try exact R; try exact I.
  assert (V : out_InvU (if is_qname_attr attr then qn_value c m1 a
                        else if is_time_attr attr then time_value m1 a else auto_conv c m1 a)).
  { destruct (is_qname_attr attr); [apply qn_value_InvU; exact R|].
    destruct (is_time_attr attr); [apply time_value_InvU; exact R | apply auto_conv_InvU; exact R]. }
  destruct (if is_qname_attr attr then qn_value c m1 a
            else if is_time_attr attr then time_value m1 a else auto_conv c m1 a) as [m2 [v|]|m2 e|];
    try exact V; try exact R.
  destruct (negb (ic && is_prov_name "entity" attr) && is_formal_attr attr)%bool.
  - destruct (attr_get attr d) as [|e0 rest]; [apply IH; exact V|].
    destruct (py_eq v e0); [apply IH; exact V | exact V].
  - apply IH; exact V.
Qed.

Lemma add_attributes_InvU : forall c m r l, InvU m ->
  match add_attributes c m r l with
  | ADone m' _ => InvU m' | AFail m' _ _ => InvU m' | AOOD => True end.
Proof.
  intros c m r l I. unfold add_attributes. destruct l as [|x l]; [exact I|].
  pose proof (add_attrs_loop_InvU c (names_collection (x :: l)) (x :: l) m (rattrs r) I) as L.
  destruct (add_attrs_loop _ _ _ _ _) as [[m' d] [|e|]]; cbn in L; auto.
Qed.

(* ProvBundle.new_record with a QualifiedName identifier: the new record has the
   requested kind and an identifier with the same URI, it is appended, nothing else
   in the record list changes, and the manager stays URI-consistent *)
Theorem new_record_spec : forall par ft b k q attrs b' r,
  InvU (bns b) -> new_record par ft b k (Some (NQn q)) attrs = (b', OK r) ->
  rkind r = k /\ option_map qn_uri (rid r) = Some (qn_uri q) /\
  brecs b' = (brecs b ++ [r])%list /\ bid b' = bid b /\ InvU (bns b').
Proof.
  intros par ft b k q attrs b' r I H. unfold new_record in H. unfold resolve_o in H. cbn [resolve cparent] in H.
  destruct (resolve_qn (bns b) q) as [[m1 q1]|] eqn:EQ; [|inversion H].
  destruct (resolve_qn_uri _ _ _ _ I EQ) as [U I1].
  unfold new_prec in H.
  destruct (is_element k && false)%bool eqn:EB; [rewrite andb_false_r in EB; discriminate|].
  pose proof (add_attributes_InvU (mkCtx par ft) m1 (mkRec k (Some q1) []) attrs I1) as IA.
  pose proof (add_attributes_rid (mkCtx par ft) m1 (mkRec k (Some q1) []) attrs) as RA.
  destruct (add_attributes _ m1 (mkRec k (Some q1) []) attrs) as [m2 r2|m2 r2 e|] eqn:EA; inversion H; subst.
  unfold add_attributes in EA. destruct attrs as [|x l].
  - inversion EA; subst. cbn. rewrite U. auto.
  - destruct (add_attrs_loop _ _ _ _ _) as [[m' d] [|e|]]; inversion EA; subst. cbn. rewrite U. auto.
Qed.

Theorem add_record_spec : forall par ft b r0 q b' r,
  InvU (bns b) -> rid r0 = Some q -> add_record par ft b r0 = (b', OK r) ->
  rkind r = rkind r0 /\ option_map qn_uri (rid r) = Some (qn_uri q) /\
  brecs b' = (brecs b ++ [r])%list /\ InvU (bns b').
Proof.
  intros par ft b r0 q b' r I E H. unfold add_record in H.
  destruct (negb (formal_single r0)); [inversion H|]. rewrite E in H. cbn [option_map] in H.
  destruct (new_record_spec _ _ _ _ _ _ _ _ I H) as [A [B [C [_ D]]]]. auto.
Qed.

Lemma doc_unified_coh : forall ft dd nd, doc_unified ft dd = OK nd -> DCoh nd.
Proof.
  intros ft dd nd H. unfold doc_unified in H.
  destruct (add_namespaces nsm_init _) as [m0|]; [|discriminate].
  destruct (unified_records ft (dmain dd)) as [urecs|e|]; try discriminate.
  destruct (add_records None ft _ urecs) as [nmain [y|e|]] eqn:EA; try discriminate.
  eapply unify_bundles_coh; [|exact H]. apply DCoh_main.
  eapply add_records_coherent; [|exact EA]. apply Coherent_empty.
Qed.

Lemma graph_to_prov_coh : forall ft g nd, graph_to_prov ft g = OK nd -> DCoh nd /\ dbundles nd = [].
Proof.
  intros ft g nd H. unfold graph_to_prov in H.
  destruct (add_records None ft (bundle_init None) _) as [b [y|e|]] eqn:EA; inversion H; subst.
  split; [|reflexivity]. apply DCoh_main. eapply add_records_coherent; [apply Coherent_init | exact EA].
Qed.
