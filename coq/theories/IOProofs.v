(* IOProofs.v — C17 (exact and all-or-nothing file writes) and C16 (dispatch). *)
From Coq Require Import String Ascii List Bool Arith Lia.
From Prov Require Import Str StrProofs Tables NsmProofs IO.
Import ListNotations.
Open Scope string_scope.

(* ------------------------------------------------------------------ C17 *)
(* any name that is not a file: URL and has no network location is used verbatim,
   whatever URL syntax ('#', '?', ';', ':') it contains *)
Theorem dest_path_verbatim : forall name p,
  dest_path name = Some p ->
  String.eqb (lower (fst (split_scheme name))) "file" = false -> p = name.
Proof.
  intros name p H NF. unfold dest_path in H.
  destruct (split_scheme name) as [scheme rest] eqn:ES. cbn [fst] in NF.
  destruct (split_netloc rest) as [netloc after].
  destruct netloc; [|discriminate]. rewrite NF in H. inversion H. reflexivity.
Qed.

Fixpoint cat (cs : list string) : string :=
  match cs with [] => "" | c :: r => c ++ cat r end.

Lemma append_assoc_s : forall a b c : string, (a ++ b) ++ c = a ++ (b ++ c).
Proof. induction a as [|x a IH]; intros; cbn; [reflexivity | rewrite IH; reflexivity]. Qed.

Lemma write_chunks_all : forall cs acc, write_chunks cs acc None = (acc ++ cat cs, true).
Proof.
  induction cs as [|c cs IH]; intros acc; cbn [write_chunks cat].
  - assert (E : acc ++ "" = acc) by (induction acc as [|x a IHa]; cbn; [reflexivity | rewrite IHa; reflexivity]).
    rewrite E. reflexivity.
  - rewrite IH, append_assoc_s. reflexivity.
Qed.

Lemma write_chunks_fault : forall cs acc k, k < length cs -> snd (write_chunks cs acc (Some k)) = false.
Proof.
  induction cs as [|c cs IH]; intros acc k L; cbn in L; [lia|].
  destruct k as [|j]; cbn [write_chunks]; [reflexivity|]. apply IH. lia.
Qed.

Lemma lookup_filter_ne {V} : forall (d : list (string * V)) k t,
  k <> t -> lookup k (filter (fun kv => negb (String.eqb (fst kv) t)) d) = lookup k d.
Proof.
  induction d as [|[k0 v0] d IH]; intros k t N; cbn; [reflexivity|].
  destruct (String.eqb k0 t) eqn:E; cbn.
  - apply String.eqb_eq in E. subst k0.
    destruct (String.eqb k t) eqn:E2; [apply String.eqb_eq in E2; contradiction | apply IH; exact N].
  - destruct (String.eqb k k0); [reflexivity | apply IH; exact N].
Qed.

Lemma lookup_filter_eq {V} : forall (d : list (string * V)) t,
  lookup t (filter (fun kv => negb (String.eqb (fst kv) t)) d) = None.
Proof.
  induction d as [|[k0 v0] d IH]; intros t; cbn; [reflexivity|].
  destruct (String.eqb k0 t) eqn:E; cbn; [apply IH|].
  rewrite String.eqb_sym, E. apply IH.
Qed.

(* success: the named file holds exactly the serialisation, the temp file is gone,
   every other file is untouched *)
Theorem serialize_exact : forall fs name tmp cs path fs' ok,
  dest_path name = Some path -> tmp <> path -> lookup tmp fs = None ->
  serialize_to fs name tmp cs NoFault = (fs', ok) ->
  ok = true /\ lookup path fs' = Some (cat cs) /\
  (forall p, p <> path -> lookup p fs' = lookup p fs).
Proof.
  intros fs name tmp cs path fs' ok D NT FT H. unfold serialize_to in H. rewrite D in H.
  rewrite write_chunks_all in H. cbn [negb append] in H. inversion H; subst; clear H.
  split; [reflexivity|]. split; [apply lookup_dset_same|].
  intros p NP. rewrite lookup_dset_other by congruence.
  destruct (String.eqb p tmp) eqn:E.
  - apply String.eqb_eq in E. subst p. rewrite lookup_filter_eq. symmetry. exact FT.
  - apply String.eqb_neq in E. rewrite lookup_filter_ne by exact E.
    rewrite !lookup_dset_other by congruence. reflexivity.
Qed.

(* a failure at any write call or at the move: the call does not return normally, the
   named file keeps its previous content in full (or stays absent), and nothing but the
   temp file is touched *)
Theorem serialize_atomic : forall fs name tmp cs path f fs' ok,
  dest_path name = Some path -> tmp <> path ->
  (f = FaultAtMove \/ exists k, f = FaultAtWrite k /\ k < length cs) ->
  serialize_to fs name tmp cs f = (fs', ok) ->
  ok = false /\ lookup path fs' = lookup path fs /\
  (forall p, p <> tmp -> lookup p fs' = lookup p fs).
Proof.
  intros fs name tmp cs path f fs' ok D NT F H. unfold serialize_to in H. rewrite D in H.
  assert (KEEP : forall content p, p <> tmp -> lookup p (dset tmp content (dset tmp "" fs)) = lookup p fs).
  { intros content p N. rewrite !lookup_dset_other by congruence. reflexivity. }
  destruct F as [->|[k [-> L]]].
  - rewrite write_chunks_all in H. cbn [negb] in H. inversion H; subst; clear H.
    split; [reflexivity|]. split; [apply KEEP; congruence | intros p N; apply KEEP; exact N].
  - pose proof (write_chunks_fault cs "" k L) as W.
    destruct (write_chunks cs "" (Some k)) as [content b]. cbn [snd] in W. subst b. cbn [negb] in H.
    inversion H; subst; clear H.
    split; [reflexivity|]. split; [apply KEEP; congruence | intros p N; apply KEEP; exact N].
Qed.

(* the refusal of network locations writes nothing *)
Theorem serialize_refused : forall fs name tmp cs f,
  dest_path name = None -> serialize_to fs name tmp cs f = (fs, true).
Proof. intros fs name tmp cs f D. unfold serialize_to. rewrite D. reflexivity. Qed.

(* ------------------------------------------------------------------ C16 *)
Theorem reads_own_writer : forall f d, f <> FProvn -> reads_back f (write_to f d) = true.
Proof. intros [] [] N; try contradiction; reflexivity. Qed.

Theorem rejects_other_writers : forall f g d, f <> g -> reads_back g (write_to f d) = false.
Proof. intros [] [] [] N; try contradiction; reflexivity. Qed.

(* prov.read (as repaired) finds the format for every readable format, destination
   kind and — because every attempt sees the whole content — source kind, with the
   registry order generated from /repo *)
Theorem read_detects_format : forall f d, f <> FProvn -> sniff serializer_order (write_to f d) = Some f.
Proof. intros [] [] N; try contradiction; vm_compute; reflexivity. Qed.

(* the loop as it was before the repair, on a stream holding XML: the JSON attempt
   consumes the stream and the TriG attempt accepts the empty remainder *)
Lemma old_read_on_streams_refuted :
  sniff_consuming serializer_order (write_to FXml DTextStream) false = Some (FRdf, true) /\
  sniff_consuming serializer_order (write_to FRdf DBinaryStream) false = Some (FRdf, true).
Proof. split; vm_compute; reflexivity. Qed.
