(* XmlReadDoc.v — model of the PROV-XML reader above record level: ProvXMLSerializer.deserialize (a fresh ProvDocument,
   deserialize_subtree over the children of the root element) and the container loop of deserialize_subtree — prov:other is
   skipped, a prov:bundleContent child becomes `bundle.bundle(identifier)` (the identifier read in the element's own scope,
   resolved and homed in the DOCUMENT's manager, refused when that URI is in use) whose children are read into the new bundle,
   every other child is a record element (XmlRead.xml_read_record).  Inside a bundle a further bundleContent is outside the
   model (the library fails there with an AttributeError). *)
From Coq Require Import String Ascii List Bool Arith ZArith.
From Prov Require Import Str Sexp Tables Nsm Values Record World Derive XmlSpec XmlLabel XmlRead.
Import ListNotations.
Open Scope string_scope.

Definition elem_is (local : string) (x : xnode) : bool :=
  match x with XE ns l _ _ _ _ => (String.eqb ns prov_uri && String.eqb l local)%bool end.

(* the children of a container element, read into bundle b (records only) *)
Fixpoint xml_read_elems (par : option nsm) (ft : ftable) (prefix_of : string -> option string) (b : bundle) (xs : list xnode)
  : bundle * result unit :=
  match xs with
  | [] => (b, OK tt)
  | x :: r =>
      if elem_is "other" x then xml_read_elems par ft prefix_of b r
      else if elem_is "bundleContent" x then (b, OutOfDomain)
      else match xml_read_record par ft prefix_of b x with
           | (b', OK _) => xml_read_elems par ft prefix_of b' r
           | (b', Raise e) => (b', Raise e)
           | (b', OutOfDomain) => (b', OutOfDomain)
           end
  end.

(* one bundleContent child of the document element: ProvDocument.bundle(identifier) (Derive.doc_new_bundle, written out:
   the new bundle is filled before the next child is looked at), then its children *)
Definition xml_read_bundle (ft : ftable) (prefix_of : string -> option string) (dd : doc) (x : xnode) : doc * result unit :=
  match x with
  | XE _ _ attrs scope _ kids =>
      match xattr prov_uri "id" attrs with
      | None => (dd, Raise EProv)
      | Some s =>
          match xml_qname scope s with
          | None => (dd, Raise EXml)
          | Some q0 =>
              match resolve None (bns (dmain dd)) (NQn q0) with
              | OutOfDomain => (dd, OutOfDomain)
              | Raise e => (dd, Raise e)
              | OK (m, None) => (mkD (with_ns (dmain dd) m) (dbundles dd), Raise EProv)
              | OK (m, Some q) =>
                  let main1 := with_ns (dmain dd) m in
                  if mem (qn_uri q) (dbundles dd) then (mkD main1 (dbundles dd), Raise EProv)
                  else match xml_read_elems (Some m) ft prefix_of (bundle_init (Some q)) kids with
                       | (b', r) => (mkD main1 (dbundles dd ++ [(qn_uri q, b')])%list, r)
                       end
              end
          end
      end
  end.

Fixpoint xml_read_top (ft : ftable) (prefix_of : string -> option string) (dd : doc) (xs : list xnode) : doc * result unit :=
  match xs with
  | [] => (dd, OK tt)
  | x :: r =>
      if elem_is "other" x then xml_read_top ft prefix_of dd r
      else if elem_is "bundleContent" x then
        match xml_read_bundle ft prefix_of dd x with
        | (dd1, OK _) => xml_read_top ft prefix_of dd1 r
        | (dd1, Raise e) => (dd1, Raise e)
        | (dd1, OutOfDomain) => (dd1, OutOfDomain)
        end
      else match xml_read_record None ft prefix_of (dmain dd) x with
           | (b', OK _) => xml_read_top ft prefix_of (mkD b' (dbundles dd)) r
           | (b', Raise e) => (mkD b' (dbundles dd), Raise e)
           | (b', OutOfDomain) => (mkD b' (dbundles dd), OutOfDomain)
           end
  end.

(* ProvXMLSerializer.deserialize on the parsed tree (the root element's own name is not looked at) *)
Definition xml_read_document (ft : ftable) (prefix_of : string -> option string) (root : xnode) : result doc :=
  match root with
  | XE _ _ _ _ _ kids =>
      match xml_read_top ft prefix_of doc_init kids with
      | (dd, OK _) => OK dd
      | (_, Raise e) => Raise e
      | (_, OutOfDomain) => OutOfDomain
      end
  end.
