(* Json.v — model of prov/serializers/provjson.py at tree level (the boundary to the
   json library): encode_json_document / encode_json_container /
   encode_json_representation and decode_json_document / decode_json_container /
   decode_json_representation.  Decoding is a sequence of add_namespace /
   set_default_namespace / new_record / membership calls on a fresh document. *)
From Coq Require Import String Ascii List Bool Arith ZArith.
From Prov Require Import Str Sexp Tables Nsm Values Record World Jtree.
Import ListNotations.
Open Scope string_scope.

(* ------------------------------------------------------------------ encoding *)
Definition opt_qn_str (d : option qname) : string :=
  match d with Some q => qn_str q | None => "None" end.

(* encode_json_representation / literal_json_representation *)
Definition encode_value (v : value) : jv :=
  match v with
  | VLit lex dt (Some (String c l)) => JObj [("$", JStr lex); ("lang", JStr (String c l))]
  | VLit lex dt _ => JObj [("$", JStr lex); ("type", JStr (opt_qn_str dt))]
  | VTime t => JObj [("$", JStr (iso_print t)); ("type", JStr "xsd:dateTime")]
  | VQn q => JObj [("$", JStr (qn_str q)); ("type", JStr "prov:QUALIFIED_NAME")]
  | VId u => JObj [("$", JStr u); ("type", JStr "xsd:anyURI")]
  | VFloat r iv g =>
      match lookup "float" json_literal_xsdtype_map with
      | Some t => JObj [("$", JFloat r iv g); ("type", JStr t)]
      | None => JFloat r iv g
      end
  | VInt z =>
      match lookup "int" json_literal_xsdtype_map with
      | Some t => JObj [("$", JInt z); ("type", JStr t)]
      | None => JInt z
      end
  | VBool b => JBool b
  | VStr s => JStr s
  end.

(* one record's attribute object *)
Definition encode_attr (kv : qname * list value) : list (string * jv) :=
  let '(a, vs) := kv in
  match vs with
  | [] => []
  | v :: rest =>
      let name := qn_str a in
      if is_qname_attr a then
        [(name, JStr (match v with VQn q => qn_str q | VId u => u | VStr s => s | _ => "?" end))]
      else if is_time_attr a then
        [(name, match v with VTime t => JStr (iso_print t) | _ => JStr "?" end)]
      else match rest with
           | [] => [(name, encode_value v)]
           | _ => [(name, JArr (map encode_value vs))]
           end
  end.

(* json object assignment d[k] = v *)
Definition jset (k : string) (v : jv) (d : list (string * jv)) : list (string * jv) := dset k v d.

Definition encode_record_obj (r : prec) : jv :=
  JObj (fold_left (fun acc kv => fold_left (fun a e => jset (fst e) (snd e) a) (encode_attr kv) acc)
                  (rattrs r) []).

(* anonymous identifiers: a cache keyed by record equality *)
Fixpoint anon_lookup (r : prec) (cache : list (prec * string)) : option string :=
  match cache with
  | [] => None
  | (k, v) :: rest => if rec_eqb r k then Some v else anon_lookup r rest
  end.

Definition prov_n_name (k : string) : string :=
  match lookup k prov_n_map with Some n => n | None => "?" end.

(* the record loop of encode_json_container *)
Fixpoint encode_records (rs : list prec) (cache : list (prec * string)) (count : nat)
  (cont : list (string * list (string * jv))) : list (string * list (string * jv)) :=
  match rs with
  | [] => cont
  | r :: rest =>
      let '(ident, cache', count') :=
        match rid r with
        | Some q => (qn_str q, cache, count)
        | None =>
            match anon_lookup r cache with
            | Some s => (s, cache, count)
            | None => let s := "_:id" ++ str_of_nat (S count) in (s, ((r, s) :: cache)%list, S count)
            end
        end in
      let label := prov_n_name (rkind r) in
      let obj := encode_record_obj r in
      let cur := match lookup label cont with Some m => m | None => [] end in
      let cur' :=
        match lookup ident cur with
        | None => jset ident obj cur
        | Some (JArr l) => jset ident (JArr (l ++ [obj])%list) cur
        | Some other => jset ident (JArr [other; obj]) cur
        end in
      encode_records rest cache' count' (dset label cur' cont)
  end.

Definition encode_prefixes (m : nsm) : list (string * jv) :=
  let regs := map (fun kv => (ns_prefix (snd kv), JStr (ns_uri (snd kv)))) (regd m) in
  let regs' := fold_left (fun a e => jset (fst e) (snd e) a) regs [] in
  match dflt m with
  | Some d => jset "default" (JStr (ns_uri d)) regs'
  | None => regs'
  end.

Definition encode_container (b : bundle) : list (string * jv) :=
  let pfx := encode_prefixes (bns b) in
  let head := match pfx with [] => [] | _ => [("prefix", JObj pfx)] end in
  let recs := encode_records (brecs b) [] 0 [] in
  (head ++ map (fun kv => (fst kv, JObj (snd kv))) recs)%list.

Definition encode_doc (d : doc) : jv :=
  let main := encode_container (dmain d) in
  match dbundles d with
  | [] => JObj main
  | bs =>
      let bobj := fold_left (fun a kb =>
                     jset (match bid (snd kb) with Some q => qn_str q | None => "None" end)
                          (JObj (encode_container (snd kb))) a) bs [] in
      JObj (jset "bundle" (JObj bobj) main)
  end.

(* ------------------------------------------------------------------ decoding *)
(* str(x) of a JSON scalar handed to Literal() *)
Definition jscalar_str (v : jv) : option string :=
  match v with
  | JStr s => Some s
  | JInt z => Some (str_of_Z z)
  | JFloat r _ _ => Some r
  | JBool true => Some "True"
  | JBool false => Some "False"
  | JNull => Some "None"
  | _ => None
  end.

(* provjson.valid_qualified_name(bundle, value): None stays None *)
Definition vqn (par : option nsm) (m : nsm) (v : jv) : result (option qname) :=
  match v with
  | JNull => OK None
  | JStr s => match resolve par m (NStr s) with
              | OK (_, r) => OK r
              | Raise e => Raise e
              | OutOfDomain => OutOfDomain
              end
  | _ => OutOfDomain
  end.

(* decode_json_representation: the Python object handed on to new_record *)
Definition decode_value (par : option nsm) (m : nsm) (v : jv) : result valarg :=
  match v with
  | JObj members =>
      match lookup "$" members with
      | None => Raise EKey
      | Some val =>
          let ty := match lookup "type" members with Some t => t | None => JNull end in
          match vqn par m ty with
          | Raise e => Raise e
          | OutOfDomain => OutOfDomain
          | OK dt =>
              let lang := match lookup "lang" members with
                          | Some (JStr l) => Some (Some l)
                          | Some JNull => Some None
                          | None => Some None
                          | _ => None
                          end in
              match lang with
              | None => OutOfDomain
              | Some lg =>
                  let is_any := match dt with Some q => String.eqb (qn_uri q) (xsd_uri ++ "anyURI") | None => false end in
                  let is_qn := match dt with Some q => String.eqb (qn_uri q) (prov_uri ++ "QUALIFIED_NAME") | None => false end in
                  if is_any then
                    match jscalar_str val with Some s => OK (AId s) | None => OutOfDomain end
                  else if is_qn then
                    match vqn par m val with
                    | OK (Some q) => OK (AQn q)
                    | OK None => OK ANone
                    | Raise e => Raise e
                    | OutOfDomain => OutOfDomain
                    end
                  else
                    match jscalar_str val with
                    | Some s => OK (ALit s dt lg)
                    | None => OutOfDomain
                    end
              end
          end
      end
  | JStr s => OK (AStr s)
  | JBool b => OK (ABool b)
  | JInt z => OK (AInt z)
  | JFloat r iv g => OK (AFloat r iv g)
  | JNull => OK ANone
  | JArr _ => OutOfDomain
  end.

(* the attribute loop of one element; returns the formal attribute dict, the other
   attributes, and the extra members of the membership hack *)
Definition attr_key (par : option nsm) (m : nsm) (name : string) : result (option qname) :=
  match lookup name attributes_id_map with
  | Some l => OK (Some (prov_qn l))
  | None => vqn par m (JStr name)
  end.

Fixpoint decode_values (par : option nsm) (m : nsm) (attr : namearg) (vs : list jv)
  : result (list (namearg * valarg)) :=
  match vs with
  | [] => OK []
  | v :: rest =>
      match decode_value par m v, decode_values par m attr rest with
      | OK a, OK l => OK ((attr, a) :: l)
      | Raise e, _ => Raise e
      | _, Raise e => Raise e
      | _, _ => OutOfDomain
      end
  end.

(* formal-attribute dictionary: attributes[attr] = value (later keys overwrite) *)
Fixpoint fset (k : qname) (v : valarg) (d : list (qname * valarg)) : list (qname * valarg) :=
  match d with
  | [] => [(k, v)]
  | (k0, v0) :: r => if qn_eqb k k0 then (k0, v) :: r else (k0, v0) :: fset k v r
  end.

Record elem_acc : Type := mkAcc {
  acc_formal : list (qname * valarg);
  acc_other : list (namearg * valarg);
  acc_members : list jv
}.

Fixpoint decode_element (par : option nsm) (m : nsm) (kind : string)
  (members : list (string * jv)) (acc : elem_acc) : result elem_acc :=
  match members with
  | [] => OK acc
  | (name, values) :: rest =>
      match attr_key par m name with
      | Raise e => Raise e
      | OutOfDomain => OutOfDomain
      | OK attr =>
          let formal := match attr with Some a => is_formal_attr a | None => false end in
          match attr with
          | Some a =>
              if formal then
                let pick : result (jv * list jv) :=
                  match values with
                  | JArr [] => Raise EOther                        (* values[0]: IndexError *)
                  | JArr [v] => OK (v, [])
                  | JArr (v :: more) =>
                      if (String.eqb kind "Membership" && is_prov_name "entity" a)%bool then OK (v, more)
                      else Raise EJson
                  | v => OK (v, [])
                  end in
                match pick with
                | Raise e => Raise e
                | OutOfDomain => OutOfDomain
                | OK (v, more) =>
                    let conv : result valarg :=
                      if is_qname_attr a then
                        match vqn par m v with
                        | OK (Some q) => OK (AQn q)
                        | OK None => OK ANone
                        | Raise e => Raise e
                        | OutOfDomain => OutOfDomain
                        end
                      else
                        match v with
                        | JStr s => match parse_datetime s with
                                    | DtOk t => OK (ATime t)
                                    | DtInvalid => OK ANone
                                    | DtOutOfDomain => OutOfDomain
                                    end
                        | _ => Raise EType
                        end in
                    match conv with
                    | OK va =>
                        decode_element par m kind rest
                          (mkAcc (fset a va (acc_formal acc)) (acc_other acc)
                                 (match more with [] => acc_members acc | _ => more end))
                    | Raise e => Raise e
                    | OutOfDomain => OutOfDomain
                    end
                end
              else
                let vs := match values with JArr l => l | v => [v] end in
                match decode_values par m (NQn a) vs with
                | OK l => decode_element par m kind rest
                            (mkAcc (acc_formal acc) (acc_other acc ++ l)%list (acc_members acc))
                | Raise e => Raise e
                | OutOfDomain => OutOfDomain
                end
          | None =>
              (* an attribute name that does not resolve: carried as None and refused
                 by add_attributes (ProvExceptionInvalidQualifiedName) *)
              let vs := match values with JArr l => l | v => [v] end in
              match decode_values par m (NStr "") vs with
              | OK l => decode_element par m kind rest
                          (mkAcc (acc_formal acc) (acc_other acc ++ l)%list (acc_members acc))
              | Raise e => Raise e
              | OutOfDomain => OutOfDomain
              end
          end
      end
  end.

Definition kind_of_label (lbl : string) : option string := lookup lbl record_ids_map.

(* the extra members of a multi-entity membership: bundle.membership(collection, member) *)
Fixpoint add_members (par : option nsm) (ft : ftable) (b : bundle) (coll : valarg) (ms : list jv)
  : bundle * result unit :=
  match ms with
  | [] => (b, OK tt)
  | mv :: rest =>
      match vqn par (bns b) mv with
      | OK q =>
          let ent := match q with Some x => AQn x | None => ANone end in
          match factory_call par ft b "membership" None [("collection", coll); ("entity", ent)] [] with
          | (b', OK _) => add_members par ft b' coll rest
          | (b', Raise e) => (b', Raise e)
          | (b', OutOfDomain) => (b', OutOfDomain)
          end
      | Raise e => (b, Raise e)
      | OutOfDomain => (b, OutOfDomain)
      end
  end.

Fixpoint decode_elements (par : option nsm) (ft : ftable) (b : bundle) (kind : string) (rec_id : string)
  (els : list jv) : bundle * result unit :=
  match els with
  | [] => (b, OK tt)
  | JObj members :: rest =>
      match decode_element par (bns b) kind members (mkAcc [] [] []) with
      | OK acc =>
          let attrs := (map (fun kv => (NQn (fst kv), snd kv)) (acc_formal acc) ++ acc_other acc)%list in
          match new_record par ft b kind (Some (NStr rec_id)) attrs with
          | (b1, OK _) =>
              let coll := match find (fun kv => is_prov_name "collection" (fst kv)) (acc_formal acc) with
                          | Some (_, v) => Some v
                          | None => None
                          end in
              match acc_members acc with
              | [] => decode_elements par ft b1 kind rec_id rest
              | ms =>
                  match coll with
                  | None => (b1, Raise EKey)
                  | Some cv =>
                      match add_members par ft b1 cv ms with
                      | (b2, OK _) => decode_elements par ft b2 kind rec_id rest
                      | (b2, Raise e) => (b2, Raise e)
                      | (b2, OutOfDomain) => (b2, OutOfDomain)
                      end
                  end
              end
          | (b1, Raise e) => (b1, Raise e)
          | (b1, OutOfDomain) => (b1, OutOfDomain)
          end
      | Raise e => (b, Raise e)
      | OutOfDomain => (b, OutOfDomain)
      end
  | _ :: _ => (b, OutOfDomain)
  end.

Fixpoint decode_records (par : option nsm) (ft : ftable) (b : bundle) (kind : string)
  (entries : list (string * jv)) : bundle * result unit :=
  match entries with
  | [] => (b, OK tt)
  | (rec_id, content) :: rest =>
      let els := match content with JObj _ => Some [content] | JArr l => Some l | _ => None end in
      match els with
      | None => (b, OutOfDomain)
      | Some l =>
          match decode_elements par ft b kind rec_id l with
          | (b1, OK _) => decode_records par ft b1 kind rest
          | other => other
          end
      end
  end.

Fixpoint decode_prefixes (m : nsm) (ps : list (string * jv)) : result nsm :=
  match ps with
  | [] => OK m
  | (p, JStr u) :: rest =>
      if negb (uri_ok u) then Raise EValue else
      if String.eqb p "default" then decode_prefixes (set_default m u) rest
      else match add_namespace m (mkNs p u) with
           | Some (m', _) => decode_prefixes m' rest
           | None => OutOfDomain
           end
  | _ => OutOfDomain
  end.

Fixpoint decode_kinds (par : option nsm) (ft : ftable) (b : bundle) (jc : list (string * jv))
  : bundle * result unit :=
  match jc with
  | [] => (b, OK tt)
  | (lbl, content) :: rest =>
      match kind_of_label lbl with
      | None => (b, Raise EKey)
      | Some kind =>
          if String.eqb kind "Bundle" then (b, OutOfDomain) else
          match content with
          | JObj entries =>
              match decode_records par ft b kind entries with
              | (b1, OK _) => decode_kinds par ft b1 rest
              | other => other
              end
          | _ => (b, OutOfDomain)
          end
      end
  end.

(* decode_json_container *)
Definition decode_container (par : option nsm) (ft : ftable) (b : bundle) (jc : list (string * jv))
  : bundle * result unit :=
  let pfx := lookup "prefix" jc in
  let rest := filter (fun kv => negb (String.eqb (fst kv) "prefix")) jc in
  match pfx with
  | Some (JObj ps) =>
      match decode_prefixes (bns b) ps with
      | OK m => decode_kinds par ft (with_ns b m) rest
      | Raise e => (b, Raise e)
      | OutOfDomain => (b, OutOfDomain)
      end
  | Some _ => (b, OutOfDomain)
  | None => decode_kinds par ft b rest
  end.

(* ProvDocument.add_bundle(bundle, identifier) for a ProvBundle built by the decoder *)
Definition attach_decoded (dd : doc) (b : bundle) (i : option qname) : doc * result unit :=
  match i with
  | None => (dd, Raise EProv)
  | Some q0 =>
      match resolve (Some (bns (dmain dd))) (bns b) (NQn q0) with
      | OK (m, Some q) =>
          if mem (qn_uri q) (dbundles dd) then (dd, Raise EProv)
          else (mkD (dmain dd) (dbundles dd ++ [(qn_uri q, mkB (Some q) m (brecs b) (bidmap b))])%list, OK tt)
      | OK (_, None) => (dd, Raise EProv)
      | Raise e => (dd, Raise e)
      | OutOfDomain => (dd, OutOfDomain)
      end
  end.

Fixpoint decode_bundles (ft : ftable) (dd : doc) (bs : list (string * jv)) : doc * result unit :=
  match bs with
  | [] => (dd, OK tt)
  | (bid_str, JObj content) :: rest =>
      let par := Some (bns (dmain dd)) in
      match decode_container par ft (bundle_init None) content with
      | (b, OK _) =>
          (* bundle.valid_qualified_name(bundle_id), in the bundle's scope *)
          match resolve par (bns b) (NStr bid_str) with
          | OK (m, i) =>
              match attach_decoded dd (with_ns b m) i with
              | (dd', OK _) => decode_bundles ft dd' rest
              | other => other
              end
          | Raise e => (dd, Raise e)
          | OutOfDomain => (dd, OutOfDomain)
          end
      | (_, Raise e) => (dd, Raise e)
      | (_, OutOfDomain) => (dd, OutOfDomain)
      end
  | _ => (dd, OutOfDomain)
  end.

(* decode_json_document into a fresh ProvDocument *)
Definition decode_doc (ft : ftable) (t : jv) : result doc :=
  match t with
  | JObj content =>
      let bundles := match lookup "bundle" content with
                     | Some (JObj bs) => Some bs
                     | None => Some []
                     | _ => None
                     end in
      match bundles with
      | None => OutOfDomain
      | Some bs =>
          let rest := filter (fun kv => negb (String.eqb (fst kv) "bundle")) content in
          match decode_container None ft (bundle_init None) rest with
          | (b, OK _) =>
              match decode_bundles ft (mkD b []) bs with
              | (dd, OK _) => OK dd
              | (_, Raise e) => Raise e
              | (_, OutOfDomain) => OutOfDomain
              end
          | (_, Raise e) => Raise e
          | (_, OutOfDomain) => OutOfDomain
          end
      end
  | _ => OutOfDomain
  end.

