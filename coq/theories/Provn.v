(* Provn.v — model of the PROV-N printer: ProvRecord.get_provn, ProvBundle.get_provn,
   encoding_provn_value, _ensure_multiline_string_triple_quoted (as repaired),
   Literal / Identifier / QualifiedName.provn_representation.  Character level. *)
From Coq Require Import String Ascii List Bool Arith ZArith.
From Prov Require Import Str Sexp Tables Nsm Values Record World.
Import ListNotations.
Open Scope string_scope.

Definition dq : ascii := """"%char.
Definition bsl : ascii := "\"%char.
Definition nl : ascii := "010"%char.

(* s.replace("\\", "\\\\").replace('"', '\\"') *)
Fixpoint escape_provn (s : string) : string :=
  match s with
  | EmptyString => EmptyString
  | String c r =>
      if Ascii.eqb c bsl then String bsl (String bsl (escape_provn r))
      else if Ascii.eqb c dq then String bsl (String dq (escape_provn r))
      else String c (escape_provn r)
  end.

Definition dq1 : string := String dq EmptyString.
Definition dq3 : string := String dq (String dq (String dq EmptyString)).

(* _ensure_multiline_string_triple_quoted *)
Definition quote_str (s : string) : string :=
  let e := escape_provn s in
  if contains_char nl e then dq3 ++ e ++ dq3 else dq1 ++ e ++ dq1.

Definition opt_qn_str (d : option qname) : string :=
  match d with Some q => qn_str q | None => "None" end.

(* value.provn_representation() / encoding_provn_value(value) *)
Definition provn_value (v : value) : string :=
  match v with
  | VStr s => quote_str s
  | VTime t => dq1 ++ iso_print t ++ dq1 ++ " %% xsd:dateTime"
  | VFloat r _ _ => dq1 ++ r ++ dq1 ++ " %% xsd:double"
  | VBool b => dq1 ++ (if b then "1" else "0") ++ dq1 ++ " %% xsd:boolean"
  | VInt z => str_of_Z z
  | VId u => dq1 ++ u ++ dq1 ++ " %% xsd:anyURI"
  | VQn q => "'" ++ qn_str q ++ "'"
  | VLit lex dt (Some (String c l)) => quote_str lex ++ "@" ++ String c l
  | VLit lex dt _ => quote_str lex ++ " %% " ++ opt_qn_str dt
  end.

Definition formal_str (v : value) : string :=
  match v with
  | VTime t => iso_print t
  | VQn q => qn_str q
  | VId u => u
  | VStr s => s
  | VInt z => str_of_Z z
  | other => provn_value other
  end.

(* ProvRecord.get_provn *)
Definition record_provn (r : prec) : string :=
  let formals := formal_attrs (rkind r) in
  let ident := match rid r with Some q => qn_str q | None => "" end in
  let items0 := match rid r with
                | Some _ => if is_element (rkind r) then [ident] else []
                | None => []
                end in
  let relid := match rid r with
               | Some _ => if is_element (rkind r) then "" else ident ++ "; "
               | None => ""
               end in
  let fitems := map (fun l => match attr_get (prov_qn l) (rattrs r) with
                              | v :: _ => formal_str v
                              | [] => "-"
                              end) formals in
  let extra := flat_map (fun kv => if is_formal_of (rkind r) (fst kv) then []
                                   else map (fun v => qn_str (fst kv) ++ "=" ++ provn_value v) (snd kv))
                        (rattrs r) in
  let ex := match extra with [] => [] | _ => ["[" ++ concat_str ", " extra ++ "]"] end in
  let items := (items0 ++ fitems ++ ex)%list in
  (match lookup (rkind r) prov_n_map with Some n => n | None => "?" end)
    ++ "(" ++ relid ++ concat_str ", " items ++ ")".

Fixpoint spaces (n : nat) : string :=
  match n with O => "" | S k => "  " ++ spaces k end.

(* ProvBundle.get_provn(_indent_level) for one container; [subs] are the already
   rendered bundles of a document *)
Definition container_provn (is_doc : bool) (level : nat) (b : bundle) (subs : list string) : string :=
  let head := if is_doc then "document"
              else "bundle " ++ match bid b with Some q => qn_str q | None => "None" end in
  let dl := match dflt (bns b) with Some d => ["default <" ++ ns_uri d ++ ">"] | None => [] end in
  let pl := map (fun kv => "prefix " ++ ns_prefix (snd kv) ++ " <" ++ ns_uri (snd kv) ++ ">") (regd (bns b)) in
  let blank := match dl, pl with [], [] => [] | _, _ => [""] end in
  let lines := (head :: dl ++ pl ++ blank ++ map record_provn (brecs b) ++ subs)%list in
  let newline := String nl (spaces (S level)) in
  concat_str newline lines ++ String nl (spaces level) ++ (if is_doc then "endDocument" else "endBundle").

Definition doc_provn (d : doc) : string :=
  container_provn true 0 (dmain d) (map (fun kb => container_provn false 1 (snd kb) []) (dbundles d)).
