(* Record.v — model of prov.model.ProvRecord: the attribute multimap, add_attributes
   (name resolution, coercion by attribute class, literal auto-conversion, the
   single-value guard), set_time, add_asserted_type, equality, formal/extra
   attribute views.  Name resolution threads the bundle's namespace manager, which
   add_attributes mutates even when it ends by raising. *)
From Coq Require Import String Ascii List Bool Arith ZArith.
From Prov Require Import Str Sexp Tables Nsm Values.
Import ListNotations.
Open Scope string_scope.

Record prec : Type := mkRec {
  rkind : string;                          (* local name of the PROV type: "Entity", ... *)
  rid : option qname;
  rattrs : list (qname * list value)       (* _attributes: insertion-ordered, keyed by URI *)
}.

(* class tables (generated) *)
Definition class_entry (k : string) : option (string * string * list string * bool) :=
  find (fun e => String.eqb (fst (fst (fst e))) k) rec_classes.
Definition formal_attrs (k : string) : list string :=
  match class_entry k with Some (_, _, fa, _) => fa | None => [] end.
Definition is_element (k : string) : bool :=
  match class_entry k with Some (_, _, _, e) => e | None => false end.
Definition known_kind (k : string) : bool :=
  match class_entry k with Some _ => true | None => false end.

Definition is_qname_attr (q : qname) : bool := in_prov_set attribute_qnames q.
Definition is_time_attr (q : qname) : bool := in_prov_set attribute_literals q.
Definition is_formal_attr (q : qname) : bool := is_qname_attr q || is_time_attr q.
Definition is_formal_of (k : string) (q : qname) : bool := in_prov_set (formal_attrs k) q.

(* attribute dictionary *)
Fixpoint attr_get (a : qname) (d : list (qname * list value)) : list value :=
  match d with
  | [] => []
  | (k, vs) :: r => if qn_eqb a k then vs else attr_get a r
  end.
Fixpoint attr_put (a : qname) (vs : list value) (d : list (qname * list value))
  : list (qname * list value) :=
  match d with
  | [] => [(a, vs)]
  | (k, old) :: r => if qn_eqb a k then (k, vs) :: r else (k, old) :: attr_put a vs r
  end.
Definition attr_add (a : qname) (v : value) (d : list (qname * list value)) :=
  attr_put a (set_add v (attr_get a d)) d.

(* ProvRecord.attributes *)
Definition attributes (r : prec) : list (qname * value) :=
  flat_map (fun kv => map (fun v => (fst kv, v)) (snd kv)) (rattrs r).

(* values as supplied by a caller *)
Inductive valarg : Type :=
| AStr (s : string)
| AInt (z : Z)
| AFloat (r : string) (iv : option Z) (g : string)
| ABool (b : bool)
| ATime (t : dtime)
| AId (u : string)
| AQn (q : qname)
| ALit (lex : string) (dt : option qname) (lang : option string)
| ARecId (i : option qname)        (* a ProvRecord object: its identifier *)
| ANone.

Definition value_to_arg (v : value) : valarg :=
  match v with
  | VStr s => AStr s | VInt z => AInt z | VFloat r iv g => AFloat r iv g | VBool b => ABool b
  | VTime t => ATime t | VId u => AId u | VQn q => AQn q | VLit l d g => ALit l d g
  end.

(* state threaded through attribute processing: the bundle's manager (mutated),
   its parent (read only) and the float oracle *)
Record actx : Type := mkCtx { cparent : option nsm; cft : ftable }.

(* outcome that keeps the manager state also on failure *)
Inductive outcome (T : Type) : Type :=
| Done (m : nsm) (x : T)
| Fail (m : nsm) (e : exc)
| OOD.
Arguments Done {T} m x.
Arguments Fail {T} m e.
Arguments OOD {T}.

Definition resolve_o (c : actx) (m : nsm) (x : namearg) : outcome (option qname) :=
  match resolve (cparent c) m x with
  | OK (m', r) => Done m' r
  | Raise e => Fail m e
  | OutOfDomain => OOD
  end.

(* parse_xsd_types / XSD_DATATYPE_PARSERS; None = keep the Literal *)
Inductive convres : Type := CVal (v : value) | CKeep | CErr (e : exc) | COOD.
Definition parse_xsd (ft : ftable) (lex : string) (dt : qname) : convres :=
  match xsd_local dt with
  | None => CKeep
  | Some l =>
      match lookup l xsd_parsers with
      | Some "str" => CVal (VStr lex)
      | Some "float" =>
          match parse_float ft lex with
          | FOk v => CVal v | FInvalid => CErr EValue | FOutOfDomain => COOD
          end
      | Some "int" =>
          match parse_int lex with Some z => CVal (VInt z) | None => CErr EValue end
      | Some "bool" =>
          match parse_boolean lex with Some b => CVal (VBool b) | None => CKeep end
      | Some "datetime" =>
          match parse_datetime lex with
          | DtOk t => CVal (VTime t) | DtInvalid => CKeep | DtOutOfDomain => COOD
          end
      | Some "identifier" => CVal (VId lex)
      | _ => COOD
      end
  end.

(* a Literal that stays a Literal: its datatype is re-homed like any name (as repaired) *)
Definition keep_literal (c : actx) (m : nsm) (lex : string) (dt : option qname) (lang : option string)
  : outcome (option value) :=
  match mk_literal lex dt lang with
  | VLit l (Some d) g =>
      match resolve_o c m (NQn d) with
      | Done m' (Some d') => Done m' (Some (VLit l (Some d') g))
      | Done m' None => Done m' (Some (VLit l None g))
      | Fail m' e => Fail m' e
      | OOD => OOD
      end
  | v => Done m (Some v)
  end.

(* ProvRecord._auto_literal_conversion; Done _ None = "value is None" *)
Definition auto_conv (c : actx) (m : nsm) (a : valarg) : outcome (option value) :=
  match a with
  | ARecId None => Done m None
  | ARecId (Some q) | AQn q =>
      match resolve_o c m (NQn q) with
      | Done m' (Some q') => Done m' (Some (VQn q'))
      | Done m' None => Done m' None
      | Fail m' e => Fail m' e
      | OOD => OOD
      end
  | AStr s => Done m (Some (VStr s))
  | ALit lex dt None =>
      match dt with
      | Some d =>
          match parse_xsd (cft c) lex d with
          | CVal v => Done m (Some v)
          | CKeep => keep_literal c m lex dt None
          | CErr e => Fail m e
          | COOD => OOD
          end
      | None => Done m (Some (VStr lex))
      end
  | ALit lex dt (Some g) => keep_literal c m lex dt (Some g)
  | AInt z => Done m (Some (VInt z))
  | AFloat r iv g => Done m (Some (VFloat r iv g))
  | ABool b => Done m (Some (VBool b))
  | ATime t => Done m (Some (VTime t))
  | AId u => Done m (Some (VId u))
  | ANone => Done m None
  end.

(* "expecting a qualified name": valid_qualified_name of the value *)
Definition qn_value (c : actx) (m : nsm) (a : valarg) : outcome (option value) :=
  let via x := match resolve_o c m x with
               | Done m' (Some q) => Done m' (Some (VQn q))
               | Done m' None => Done m' None
               | Fail m' e => Fail m' e
               | OOD => OOD
               end in
  match a with
  | AQn q => via (NQn q)
  | ARecId (Some q) => via (NQn q)
  | AStr s => via (NStr s)
  | AId u => via (NId u)
  | _ => Done m None                 (* not a str/Identifier: resolves to None *)
  end.

(* time-valued attribute: a datetime, or parse_xsd_datetime of the value *)
Definition time_value (m : nsm) (a : valarg) : outcome (option value) :=
  match a with
  | ATime t => Done m (Some (VTime t))
  | AStr s =>
      match parse_datetime s with
      | DtOk t => Done m (Some (VTime t))
      | DtInvalid => Done m None
      | DtOutOfDomain => OOD
      end
  | _ => Fail m EType               (* dateutil: "Parser must be a string ..." *)
  end.

(* is_collection: PROV_ATTR_COLLECTION among the names *as given* (== on the
   objects: only QualifiedName / Identifier arguments can be equal to it) *)
Definition names_collection (l : list (namearg * valarg)) : bool :=
  existsb (fun nv => match fst nv with
                     | NQn q => is_prov_name "collection" q
                     | NId u => String.eqb u (prov_uri ++ "collection")
                     | NStr _ => false
                     end) l.

(* the loop of add_attributes.  A failure leaves the attributes added so far in
   place (the Python loop mutates the record as it goes). *)
Inductive lres : Type := LDone | LFail (e : exc) | LOOD.

Fixpoint add_attrs_loop (c : actx) (is_coll : bool) (m : nsm) (d : list (qname * list value))
  (l : list (namearg * valarg)) : nsm * list (qname * list value) * lres :=
  match l with
  | [] => (m, d, LDone)
  | (n, ANone) :: rest => add_attrs_loop c is_coll m d rest
  | (n, a) :: rest =>
      match resolve_o c m n with
      | OOD => (m, d, LOOD)
      | Fail m1 e => (m1, d, LFail e)
      | Done m1 None => (m1, d, LFail EInvalidQName)
      | Done m1 (Some attr) =>
          let r :=
            if is_qname_attr attr then qn_value c m1 a
            else if is_time_attr attr then time_value m1 a
            else auto_conv c m1 a in
          match r with
          | OOD => (m1, d, LOOD)
          | Fail m2 e => (m2, d, LFail e)
          | Done m2 None => (m2, d, LFail EProv)     (* "Invalid value for attribute" *)
          | Done m2 (Some v) =>
              let existing := attr_get attr d in
              if (negb (is_coll && is_prov_name "entity" attr) && is_formal_attr attr)%bool then
                match existing with
                | e0 :: _ =>
                    if py_eq v e0 then add_attrs_loop c is_coll m2 d rest
                    else (m2, d, LFail EProv)        (* "Cannot have more than one value" *)
                | [] => add_attrs_loop c is_coll m2 (attr_add attr v d) rest
                end
              else add_attrs_loop c is_coll m2 (attr_add attr v d) rest
          end
      end
  end.

(* ProvRecord.add_attributes: manager and record after the call, and how it ended *)
Inductive aout : Type :=
| ADone (m : nsm) (r : prec)
| AFail (m : nsm) (r : prec) (e : exc)
| AOOD.

Definition add_attributes (c : actx) (m : nsm) (r : prec) (l : list (namearg * valarg)) : aout :=
  match l with
  | [] => ADone m r
  | _ =>
      match add_attrs_loop c (names_collection l) m (rattrs r) l with
      | (m', d, LDone) => ADone m' (mkRec (rkind r) (rid r) d)
      | (m', d, LFail e) => AFail m' (mkRec (rkind r) (rid r) d) e
      | (_, _, LOOD) => AOOD
      end
  end.

(* the record constructors: ProvElement requires an identifier *)
Definition new_prec (c : actx) (m : nsm) (k : string) (i : option qname)
  (l : list (namearg * valarg)) : outcome prec :=
  if (is_element k && match i with None => true | Some _ => false end)%bool
  then Fail m EIdRequired
  else match add_attributes c m (mkRec k i []) l with
       | ADone m' r => Done m' r
       | AFail m' _ e => Fail m' e
       | AOOD => OOD
       end.

(* ProvRecord.formal_attributes / extra_attributes as (name, value) argument lists *)
Definition hd_opt {T} (l : list T) : option T := match l with x :: _ => Some x | [] => None end.
Definition formal_attr_args (r : prec) : list (namearg * valarg) :=
  map (fun l => (NQn (prov_qn l),
                 match hd_opt (attr_get (prov_qn l) (rattrs r)) with
                 | Some v => value_to_arg v
                 | None => ANone
                 end)) (formal_attrs (rkind r)).
Definition extra_attr_args (r : prec) : list (namearg * valarg) :=
  flat_map (fun kv => if is_formal_of (rkind r) (fst kv) then []
                      else map (fun v => (NQn (fst kv), value_to_arg v)) (snd kv)) (rattrs r).
Definition all_attr_args (r : prec) : list (namearg * valarg) :=
  map (fun kv => (NQn (fst kv), value_to_arg (snd kv))) (attributes r).

(* ProvRecord.__eq__ (as repaired) and the set comparison of attribute lists *)
Definition pair_same (a b : qname * value) : bool :=
  qn_eqb (fst a) (fst b) && set_same (snd a) (snd b).
Definition subset_pairs (x y : list (qname * value)) : bool :=
  forallb (fun a => existsb (pair_same a) y) x.
Definition rec_eqb (a b : prec) : bool :=
  String.eqb (rkind a) (rkind b) && opt_eqb qn_eqb (rid a) (rid b) &&
  subset_pairs (attributes a) (attributes b) && subset_pairs (attributes b) (attributes a).

(* ProvActivity.set_time (as repaired: _ensure_datetime); overwrites the set *)
Definition ensure_datetime (m : nsm) (a : valarg) : outcome (option value) :=
  match a with
  | ANone => Done m None
  | AStr s => match parse_datetime s with
              | DtOk t => Done m (Some (VTime t))
              | DtInvalid => Fail m EValue          (* dateutil ParserError *)
              | DtOutOfDomain => OOD
              end
  | ATime t => Done m (Some (VTime t))
  | _ => OOD                                         (* stored verbatim: not modelled *)
  end.

(* ---- wire format ---- *)
Definition sx_attrs (d : list (qname * list value)) : sexp :=
  L (map (fun kv => L [sx_qn (fst kv); L (map sx_value (snd kv))])
         (filter (fun kv => match snd kv with [] => false | _ => true end) d)).
Definition sx_rec (r : prec) : sexp :=
  L [A "rec"; A (rkind r); sx_opt sx_qn (rid r); sx_attrs (rattrs r)].

Definition px_namearg (x : sexp) : option namearg :=
  match x with
  | L [A "Q"; A p; A u; A l] => Some (NQn (mkQn (mkNs p u) l))
  | L [A "S"; A s] => Some (NStr s)
  | L [A "I"; A u] => Some (NId u)
  | _ => None
  end.
Definition px_optqn (x : sexp) : option (option qname) :=
  match x with
  | A "none" => Some None
  | _ => match px_qn x with Some q => Some (Some q) | None => None end
  end.
Definition px_optstr (x : sexp) : option (option string) :=
  match x with
  | A "none" => Some None
  | L [A "some"; A s] => Some (Some s)
  | _ => None
  end.
