(* ShapeProofs.v — the shape of attribute dictionaries: keys with pairwise different URIs (the Python dict is keyed by
   QualifiedName, whose hash and == are the URI's) and value lists that are sets (no member equal-and-hashing-alike to
   an earlier one).  An invariant of add_attributes whichever way it ends, hence of every record new_record creates, hence
   of every container and document the PROV-JSON reader builds — for every input tree.  These are two of the premises
   (rec_ok) of the PROV-JSON round-trip theorems; for documents that were themselves read from a text they are now
   theorems (C11). *)
From Coq Require Import String List Arith ZArith Bool.
From Prov Require Import Str StrProofs Sexp Tables Nsm NsmProofs Values Record RecordProofs World WorldProofs Derive Jtree Json JsonRecProofs.
Import ListNotations.
Open Scope string_scope.

Definition ShapeD (d : list (qname * list value)) : Prop :=
  NoDup (map key_uri d) /\ Forall (fun kv => set_distinct (snd kv)) d.
Definition ShapeR (r : prec) : Prop := ShapeD (rattrs r).
Definition BShape (b : bundle) : Prop := Forall ShapeR (brecs b).
Definition DShape (dd : doc) : Prop := BShape (dmain dd) /\ Forall (fun kb => BShape (snd kb)) (dbundles dd).

Lemma set_distinct_nil : set_distinct [].
Proof. intros pre v post E. destruct pre; discriminate E. Qed.

Lemma app_snoc_split : forall (A : Type) (l pre post : list A) (v x : A),
  (l ++ [v])%list = (pre ++ x :: post)%list ->
  (post = [] /\ pre = l /\ x = v) \/ exists post', post = (post' ++ [v])%list /\ l = (pre ++ x :: post')%list.
Proof.
  intros A l pre post v x E. destruct post as [|p post] using rev_ind.
  - left. assert (E' : (l ++ [v])%list = ((pre ++ []) ++ [x])%list) by (rewrite app_nil_r; exact E).
    apply app_inj_tail in E'. destruct E' as [E1 E2]. rewrite app_nil_r in E1. subst. auto.
  - right. clear IHpost. exists post.
    assert (E' : (l ++ [v])%list = ((pre ++ x :: post) ++ [p])%list) by (rewrite <- app_assoc; exact E).
    apply app_inj_tail in E'. destruct E' as [E1 E2]. subst. auto.
Qed.

Lemma set_add_distinct : forall v l, set_distinct l -> set_distinct (set_add v l).
Proof.
  intros v l D. unfold set_add. destruct (set_mem v l) eqn:M; [exact D|].
  intros pre x post E. destruct (app_snoc_split _ _ _ _ _ _ E) as [[_ [-> ->]]|[post' [_ ->]]].
  - exact M.
  - apply (D pre x post'). reflexivity.
Qed.

Lemma attr_get_distinct : forall a d, Forall (fun kv => set_distinct (snd kv)) d -> set_distinct (attr_get a d).
Proof.
  intros a d. induction d as [|[k vs] d IH]; intros F; cbn [attr_get]; [apply set_distinct_nil|].
  inversion F as [|x l Fk Fd]; subst. destruct (qn_eqb a k); [exact Fk | exact (IH Fd)].
Qed.

Lemma attr_put_keys : forall a vs d,
  map key_uri (attr_put a vs d) = map key_uri d \/
  (map key_uri (attr_put a vs d) = (map key_uri d ++ [qn_uri a])%list /\ ~ In (qn_uri a) (map key_uri d)).
Proof.
  intros a vs d. induction d as [|[k old] d IH]; cbn [attr_put].
  - right. split; [reflexivity | intros []].
  - destruct (qn_eqb a k) eqn:E.
    + left. reflexivity.
    + destruct IH as [IH|[IH N]].
      * left. cbn [map]. rewrite IH. reflexivity.
      * right. split; [cbn [map app]; rewrite IH; reflexivity|].
        intros [H|H]; [|exact (N H)].
        unfold key_uri in H. cbn [fst] in H. symmetry in H. apply qn_eqb_uri in H. rewrite H in E. discriminate.
Qed.

Lemma attr_put_shape : forall a vs d, ShapeD d -> set_distinct vs -> ShapeD (attr_put a vs d).
Proof.
  intros a vs d [N F] S. split.
  - destruct (attr_put_keys a vs d) as [E|[E NI]]; rewrite E; [exact N|].
    apply NoDup_snoc; [exact N | exact NI].
  - clear N. induction d as [|[k old] d IH]; cbn [attr_put].
    + constructor; [exact S | constructor].
    + inversion F as [|x l Fk Fd]; subst. destruct (qn_eqb a k).
      * constructor; [exact S | exact Fd].
      * constructor; [exact Fk | exact (IH Fd)].
Qed.

Lemma attr_add_shape : forall a v d, ShapeD d -> ShapeD (attr_add a v d).
Proof.
  intros a v d S. unfold attr_add. apply attr_put_shape; [exact S|].
  apply set_add_distinct. apply attr_get_distinct. exact (proj2 S).
Qed.

Lemma ShapeD_nil : ShapeD [].
Proof. split; constructor. Qed.

(* ---- add_attributes, whichever way it ends *)
Theorem loop_shape : forall c ic l m d m' d' res,
  ShapeD d -> add_attrs_loop c ic m d l = (m', d', res) -> ShapeD d'.
Proof.
  intros c ic l. induction l as [|[n a] l IH]; intros m d m' d' res G H.
  - cbn in H. inversion H; subst. exact G.
  - destruct (valarg_is_none a) as [->|NN].
    + rewrite add_attrs_loop_none in H. eapply IH; eauto.
    + rewrite add_attrs_loop_cons in H by exact NN. unfold loop_body in H.
      destruct (resolve_o c m n) as [m1 [attr|]|m1 e|]; try (inversion H; subst; exact G).
      destruct (if is_qname_attr attr then qn_value c m1 a
                else if is_time_attr attr then time_value m1 a else auto_conv c m1 a)
        as [m2 [v|]|m2 e2|]; try (inversion H; subst; exact G).
      pose proof (attr_add_shape attr v d G) as GA.
      destruct ((negb (ic && is_prov_name "entity" attr) && is_formal_attr attr)%bool).
      * destruct (attr_get attr d) as [|e0 rest0].
        -- eapply IH; [exact GA | exact H].
        -- destruct (py_eq v e0); [eapply IH; [exact G | exact H] | inversion H; subst; exact G].
      * eapply IH; [exact GA | exact H].
Qed.

Theorem add_attributes_shape : forall c m r l,
  ShapeR r ->
  match add_attributes c m r l with
  | ADone _ r' => ShapeR r'
  | AFail _ r' _ => ShapeR r'
  | AOOD => True
  end.
Proof.
  intros c m r l G. unfold add_attributes. destruct l as [|x l]; [exact G|].
  destruct (add_attrs_loop c (names_collection (x :: l)) m (rattrs r) (x :: l)) as [[m' d'] res] eqn:E.
  pose proof (loop_shape _ _ _ _ _ _ _ _ G E) as G'.
  destruct res; exact G' || exact Logic.I.
Qed.

Lemma add_attributes_shape_done : forall c m r l m' r', ShapeR r -> add_attributes c m r l = ADone m' r' -> ShapeR r'.
Proof. intros c m r l m' r' G H. pose proof (add_attributes_shape c m r l G) as X. rewrite H in X. exact X. Qed.
Lemma add_attributes_shape_fail : forall c m r l m' r' e, ShapeR r -> add_attributes c m r l = AFail m' r' e -> ShapeR r'.
Proof. intros c m r l m' r' e G H. pose proof (add_attributes_shape c m r l G) as X. rewrite H in X. exact X. Qed.

(* ---- containers *)
Lemma BShape_init : forall i, BShape (bundle_init i).
Proof. intros. constructor. Qed.

Lemma new_record_BShape : forall par ft b k i attrs b' x,
  BShape b -> new_record par ft b k i attrs = (b', x) -> BShape b'.
Proof.
  intros par ft b k i attrs b' x G H. unfold new_record in H.
  destruct (match i with None => Done (bns b) None | Some y => resolve_o (mkCtx par ft) (bns b) y end) as [m1 idq|m1 e|];
    try (inversion H; subst; exact G).
  unfold new_prec in H.
  destruct ((is_element k && match idq with None => true | Some _ => false end)%bool).
  - inversion H; subst. exact G.
  - destruct (add_attributes (mkCtx par ft) m1 (mkRec k idq []) attrs) as [m2 r2|m2 r2 e|] eqn:EA; inversion H; subst;
      try exact G.
    unfold BShape, add_rec_to, with_ns. cbn [brecs]. apply Forall_app. split; [exact G|].
    constructor; [|constructor].
    exact (add_attributes_shape_done (mkCtx par ft) m1 (mkRec k idq []) attrs m2 r2 ShapeD_nil EA).
Qed.

Lemma new_record_ok_in' : forall par ft b k i attrs b' r,
  new_record par ft b k i attrs = (b', OK r) -> In r (brecs b').
Proof.
  intros par ft b k i attrs b' r H. unfold new_record in H.
  destruct (match i with None => Done (bns b) None | Some y => resolve_o (mkCtx par ft) (bns b) y end) as [m1 idq|m1 e|];
    try discriminate.
  destruct (new_prec (mkCtx par ft) m1 k idq attrs) as [m2 r2|m2 e|]; inversion H; subst.
  unfold add_rec_to. cbn [brecs]. apply in_or_app. right. left. reflexivity.
Qed.

Lemma factory_call_BShape : forall par ft b f i args other b' x,
  BShape b -> factory_call par ft b f i args other = (b', x) -> BShape b'.
Proof.
  intros par ft b f i args other b' x G H. unfold factory_call in H.
  destruct (factory_entry f) as [[[[f0 k] params] asserted]|]; [|inversion H; subst; exact G].
  destruct (factory_args (bns b) params args) as [m0 fa|m0 e|]; try (inversion H; subst; exact G).
  destruct (new_record par ft b k i (fa ++ other)%list) as [b1 [r|e|]] eqn:EN;
    pose proof (new_record_BShape _ _ _ _ _ _ _ _ G EN) as G1; try (inversion H; subst; exact G1).
  destruct asserted as [ty|]; [|inversion H; subst; exact G1].
  assert (Gr : ShapeR r).
  { unfold BShape in G1. rewrite Forall_forall in G1. apply G1. exact (new_record_ok_in' _ _ _ _ _ _ _ _ EN). }
  destruct (add_attributes (mkCtx par ft) (bns b1) r [(NQn (prov_qn "type"), AQn (prov_qn ty))]) as [m2 r2|m2 r2 e|] eqn:EA;
    inversion H; subst; try exact G1; unfold BShape; cbn [brecs]; apply Forall_set_nth; try exact G1.
  - exact (add_attributes_shape_done (mkCtx par ft) _ _ _ _ _ Gr EA).
  - exact (add_attributes_shape_fail (mkCtx par ft) _ _ _ _ _ _ Gr EA).
Qed.

(* ---- the PROV-JSON reader *)
Lemma add_members_BShape : forall par ft ms b coll b' r,
  BShape b -> add_members par ft b coll ms = (b', r) -> BShape b'.
Proof.
  induction ms as [|mv ms IH]; intros b coll b' r C H; cbn [add_members] in H.
  - inversion H; subst; exact C.
  - destruct (vqn par (bns b) mv) as [q|e|]; try (inversion H; subst; exact C).
    destruct (factory_call par ft b "membership" None _ []) as [b1 [y|e|]] eqn:E;
      pose proof (factory_call_BShape _ _ _ _ _ _ _ _ _ C E) as C1.
    + eapply IH; eauto.
    + inversion H; subst. exact C1.
    + inversion H; subst. exact C1.
Qed.

Lemma decode_elements_BShape : forall par ft kind rec_id els b b' r,
  BShape b -> decode_elements par ft b kind rec_id els = (b', r) -> BShape b'.
Proof.
  induction els as [|e els IH]; intros b b' r C H; cbn [decode_elements] in H.
  - inversion H; subst; exact C.
  - destruct e as [ | | | | | |members]; try (inversion H; subst; exact C).
    destruct (decode_element par (bns b) kind members _) as [acc|e|]; try (inversion H; subst; exact C).
    destruct (new_record par ft b kind _ _) as [b1 [y|e|]] eqn:EN;
      pose proof (new_record_BShape _ _ _ _ _ _ _ _ C EN) as C1;
      try (inversion H; subst; exact C1).
    destruct (acc_members acc) as [|m0 ms]; [eapply IH; eauto|].
    destruct (find _ (acc_formal acc)) as [[k v]|]; [|inversion H; subst; exact C1].
    destruct (add_members par ft b1 v (m0 :: ms)) as [b2 [y2|e|]] eqn:EM;
      pose proof (add_members_BShape _ _ _ _ _ _ _ C1 EM) as C2.
    + eapply IH; eauto.
    + inversion H; subst. exact C2.
    + inversion H; subst. exact C2.
Qed.

Lemma decode_records_BShape : forall par ft kind entries b b' r,
  BShape b -> decode_records par ft b kind entries = (b', r) -> BShape b'.
Proof.
  induction entries as [|[rid content] entries IH]; intros b b' r C H; cbn [decode_records] in H.
  - inversion H; subst; exact C.
  - destruct (match content with JObj _ => Some [content] | JArr l => Some l | _ => None end) as [l|];
      [|inversion H; subst; exact C].
    destruct (decode_elements par ft b kind rid l) as [b1 [y|e|]] eqn:E;
      pose proof (decode_elements_BShape _ _ _ _ _ _ _ _ C E) as C1.
    + eapply IH; eauto.
    + inversion H; subst. exact C1.
    + inversion H; subst. exact C1.
Qed.

Lemma decode_kinds_BShape : forall par ft jc b b' r,
  BShape b -> decode_kinds par ft b jc = (b', r) -> BShape b'.
Proof.
  induction jc as [|[lbl content] jc IH]; intros b b' r C H; cbn [decode_kinds] in H.
  - inversion H; subst; exact C.
  - destruct (kind_of_label lbl) as [kind|]; [|inversion H; subst; exact C].
    destruct (String.eqb kind "Bundle"); [inversion H; subst; exact C|].
    destruct content as [ | | | | | |entries]; try (inversion H; subst; exact C).
    destruct (decode_records par ft b kind entries) as [b1 [y|e|]] eqn:E;
      pose proof (decode_records_BShape _ _ _ _ _ _ _ C E) as C1.
    + eapply IH; eauto.
    + inversion H; subst. exact C1.
    + inversion H; subst. exact C1.
Qed.

Lemma decode_container_BShape : forall par ft b jc b' r,
  BShape b -> decode_container par ft b jc = (b', r) -> BShape b'.
Proof.
  intros par ft b jc b' r C H. unfold decode_container in H.
  destruct (lookup "prefix" jc) as [[ | | | | | |ps]|]; try (inversion H; subst; exact C).
  - destruct (decode_prefixes (bns b) ps) as [m|e|] eqn:EP; try (inversion H; subst; exact C).
    eapply decode_kinds_BShape; [|exact H]. exact C.
  - eapply decode_kinds_BShape; eauto.
Qed.

Lemma attach_decoded_DShape : forall dd b i dd' r,
  DShape dd -> BShape b -> attach_decoded dd b i = (dd', r) -> DShape dd'.
Proof.
  intros dd b i dd' r [M B] C H. unfold attach_decoded in H.
  destruct i as [q0|]; [|inversion H; subst; split; assumption].
  destruct (resolve _ (bns b) (NQn q0)) as [[m [q|]]|e|]; try (inversion H; subst; split; assumption).
  destruct (mem (qn_uri q) (dbundles dd)); inversion H; subst; split; cbn; try assumption.
  apply Forall_app. split; [exact B|]. constructor; [exact C | constructor].
Qed.

Lemma decode_bundles_DShape : forall ft bs dd dd' r,
  DShape dd -> decode_bundles ft dd bs = (dd', r) -> DShape dd'.
Proof.
  induction bs as [|[bid_str content] bs IH]; intros dd dd' r D H; cbn [decode_bundles] in H.
  - inversion H; subst; exact D.
  - destruct content as [ | | | | | |jc]; try (inversion H; subst; exact D).
    cbv zeta in H.
    destruct (decode_container _ ft (bundle_init None) jc) as [b [y|e|]] eqn:EC;
      try (inversion H; subst; exact D).
    pose proof (decode_container_BShape _ _ _ _ _ _ (BShape_init None) EC) as Cb.
    destruct (resolve _ (bns b) (NStr bid_str)) as [[m i]|e|]; try (inversion H; subst; exact D).
    destruct (attach_decoded dd (with_ns b m) i) as [dd1 [y1|e|]] eqn:EA;
      pose proof (attach_decoded_DShape dd (with_ns b m) i dd1 _ D Cb EA) as D1.
    + eapply IH; eauto.
    + inversion H; subst. exact D1.
    + inversion H; subst. exact D1.
Qed.

(* whatever tree the reader accepts: in the document it builds, every record's attribute dictionary has keys of pairwise
   different URIs and value lists that are sets *)
Theorem decode_doc_DShape : forall ft t nd, decode_doc ft t = OK nd -> DShape nd.
Proof.
  intros ft t nd H. unfold decode_doc in H.
  destruct t as [ | | | | | |content]; try discriminate.
  destruct (match lookup "bundle" content with
            | Some (JObj bs) => Some bs | None => Some [] | _ => None end) as [bs|]; [|discriminate].
  destruct (decode_container None ft (bundle_init None) _) as [b [y|e|]] eqn:EC; try discriminate.
  pose proof (decode_container_BShape _ _ _ _ _ _ (BShape_init None) EC) as Cb.
  destruct (decode_bundles ft (mkD b []) bs) as [dd [y2|e|]] eqn:EB; inversion H; subst.
  eapply decode_bundles_DShape; [|exact EB]. split; [exact Cb | constructor].
Qed.

(* ---- with GoodProofs and the value-level round trip: every value of every record of a document the reader built is
   written and read back as itself, as soon as the names it mentions are bound and printable in the container's manager
   and its float, if any, is in the float table (value_ok) *)
From Prov Require Import IdemProofs GoodProofs JsonProofs JsonValueProofs.

Definition doc_containers (dd : doc) : list bundle := dmain dd :: map snd (dbundles dd).

Theorem decoded_values_roundtrip : forall ft t nd, decode_doc ft t = OK nd ->
  forall b r a vs v, In b (doc_containers nd) -> In r (brecs b) -> In (a, vs) (rattrs r) -> In v vs ->
  forall c m, cft c = ft -> Builtins m -> value_ok c m v -> rt c m v.
Proof.
  intros ft t nd H b r a vs v Hb Hr Ha Hv c m <- B O.
  apply rt_of_stored; [exact B| |exact O].
  pose proof (decode_doc_DGood _ _ _ H) as [GM GB].
  assert (Gb : BGood (cft c) b).
  { destruct Hb as [<-|Hb]; [exact GM|]. apply in_map_iff in Hb. destruct Hb as [[k b0] [<- Hk]].
    rewrite Forall_forall in GB. exact (GB _ Hk). }
  unfold BGood in Gb. rewrite Forall_forall in Gb. specialize (Gb r Hr). unfold GoodR, GoodD in Gb.
  rewrite Forall_forall in Gb. specialize (Gb (a, vs) Ha). cbn [fst snd] in Gb. rewrite Forall_forall in Gb.
  exact (proj1 (Gb v Hv)).
Qed.

Theorem decoded_records_shape : forall ft t nd, decode_doc ft t = OK nd ->
  forall b r, In b (doc_containers nd) -> In r (brecs b) ->
  NoDup (map key_uri (rattrs r)) /\ Forall (fun kv => set_distinct (snd kv)) (rattrs r).
Proof.
  intros ft t nd H b r Hb Hr. pose proof (decode_doc_DShape _ _ _ H) as [SM SB].
  assert (Sb : BShape b).
  { destruct Hb as [<-|Hb]; [exact SM|]. apply in_map_iff in Hb. destruct Hb as [[k b0] [<- Hk]].
    rewrite Forall_forall in SB. exact (SB _ Hk). }
  unfold BShape in Sb. rewrite Forall_forall in Sb. exact (Sb r Hr).
Qed.
