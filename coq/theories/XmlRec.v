(* XmlRec.v — model of the PROV-XML writer for one record (ProvXMLSerializer.serialize_bundle, the body of its
   record loop): element name and the pair it stands for (XmlLabel), the order of the children
   (prov.model.sorted_attributes: the formal attributes of the record's class in their order, then prov:label,
   prov:location, prov:role, prov:type, prov:value, then the other attributes by name), and one child element per
   (attribute, value) pair as Xml.xml_emit decides it.  Within one attribute the library orders the children by
   the printed value; the model keeps the given order (the correspondence compares same-name siblings as a
   multiset). *)
From Coq Require Import String Ascii List Bool Arith ZArith.
From Prov Require Import Str Sexp Tables Nsm Values Record Xml XmlLabel XmlSpec.
Import ListNotations.
Open Scope string_scope.

(* bytewise order of strings = code point order of the UTF-8 text = Python's str order *)
Fixpoint str_leb (a b : string) : bool :=
  match a, b with
  | EmptyString, _ => true
  | String _ _, EmptyString => false
  | String x a', String y b' =>
      let nx := nat_of_ascii x in let ny := nat_of_ascii y in
      if Nat.ltb nx ny then true else if Nat.ltb ny nx then false else str_leb a' b'
  end.

Fixpoint insert_by (key : qname * value -> string) (p : qname * value) (l : list (qname * value)) : list (qname * value) :=
  match l with
  | [] => [p]
  | x :: r => if str_leb (key x) (key p) then x :: insert_by key p r else p :: x :: r
  end.
Definition sort_by (key : qname * value -> string) (l : list (qname * value)) : list (qname * value) :=
  fold_left (fun acc p => insert_by key p acc) l [].

Definition order_keys (kind : string) : list string :=
  (formal_attrs kind ++ ["label"; "location"; "role"; "type"; "value"])%list.

Definition in_order (kind : string) (a : qname) : bool := existsb (fun l => is_prov_name l a) (order_keys kind).

Definition sorted_pairs (kind : string) (pairs : list (qname * value)) : list (qname * value) :=
  (flat_map (fun l => filter (fun kv => is_prov_name l (fst kv)) pairs) (order_keys kind)
   ++ sort_by (fun kv => qn_str (fst kv)) (filter (fun kv => negb (in_order kind (fst kv))) pairs))%list.

(* one child element *)
Definition xo_attrs (x : xout) : list (string * string * string) :=
  ((match x_type x with Some t => [(xsi_ns, "type", t)] | None => [] end) ++
   (match x_lang x with Some l => [(xml_ns, "lang", l)] | None => [] end) ++
   (match x_ref x with Some r => [(prov_uri, "ref", r)] | None => [] end))%list.
Definition xo_text (x : xout) : string := match x_text x with Some t => t | None => "" end.

Definition xml_child (ft : bool) (scope : list (string * string)) (kv : qname * value) : xnode :=
  let x := xml_emit ft (fst kv) (snd kv) in
  XE (ns_uri (qn_ns (fst kv))) (qn_local (fst kv)) (xo_attrs x) scope (xo_text x) [].

(* the record element; None when the kind has no element name *)
Definition xml_record (ft : bool) (scope : list (string * string)) (kind : string) (ident : option qname)
  (pairs : list (qname * value)) : option xnode :=
  match record_label kind pairs with
  | None => None
  | Some (label, rest) =>
      let idattr := match ident with Some q => [(prov_uri, "id", qn_str q)] | None => [] end in
      Some (XE prov_uri label idattr scope "" (map (xml_child ft scope) (sorted_pairs kind rest)))
  end.

(* wire format *)
Fixpoint sx_xnode (x : xnode) : sexp :=
  match x with
  | XE ns local attrs scope text kids =>
      L [A "e"; A ns; A local; L (map (fun a => L [A (fst (fst a)); A (snd (fst a)); A (snd a)]) attrs);
         L (map (fun p => L [A (fst p); A (snd p)]) scope); A text; L (map sx_xnode kids)]
  end.
