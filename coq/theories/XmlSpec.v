(* XmlSpec.v — a PROV-XML reader written from the specification (W3C PROV-XML note and
   its schema) over the hand-written tables of Spec.v.  It shares no definition with
   Xml.v (the model of the library's writer/reader at value level): only the generic
   tree, the string helpers and the lexical parsers.  Input: the generic element tree
   that an XML parser delivers — element (namespace, local name), attributes
   (namespace, local name, value), the in-scope prefix bindings of the element, its
   character data, its child elements.  Result: the same strict-content tree as
   JsonSpec.read and ProvnSpec.read produce. *)
From Coq Require Import String Ascii List Bool Arith ZArith.
From Prov Require Import Str Sexp Values Spec.
Import ListNotations.
Open Scope string_scope.


Inductive xnode : Type :=
| XE (ns local : string) (attrs : list (string * string * string))
     (scope : list (string * string)) (text : string) (kids : list xnode).

Definition xsd_ns : string := "http://www.w3.org/2001/XMLSchema".
Definition xsi_ns : string := "http://www.w3.org/2001/XMLSchema-instance".
Definition xml_ns : string := "http://www.w3.org/XML/1998/namespace".

(* ---- the tree from the request *)
Definition px_pair (x : sexp) : option (string * string) :=
  match x with L [A a; A b] => Some (a, b) | _ => None end.
Definition px_triple (x : sexp) : option (string * string * string) :=
  match x with L [A a; A b; A c] => Some (a, b, c) | _ => None end.

Fixpoint px_all {T} (f : sexp -> option T) (l : list sexp) : option (list T) :=
  match l with
  | [] => Some []
  | x :: r => match f x, px_all f r with
              | Some a, Some b => Some (a :: b)
              | _, _ => None
              end
  end.

Fixpoint px_xnode (fuel : nat) (x : sexp) : option xnode :=
  match fuel with
  | O => None
  | S f =>
      match x with
      | L [A "e"; A ns; A local; L attrs; L scope; A text; L kids] =>
          match px_all px_triple attrs, px_all px_pair scope, px_all (px_xnode f) kids with
          | Some a, Some s, Some k => Some (XE ns local a s text k)
          | _, _, _ => None
          end
      | _ => None
      end
  end.

(* ---- names *)
Definition xattr (ns local : string) (attrs : list (string * string * string)) : option string :=
  match find (fun a => (String.eqb (fst (fst a)) ns && String.eqb (snd (fst a)) local)%bool) attrs with
  | Some (_, _, v) => Some v
  | None => None
  end.

(* an xsd:QName lexical form in the scope of an element: (namespace, local) *)
Definition resolve_pair (scope : list (string * string)) (s : string) : option (string * string) :=
  match split_colon s with
  | Some (p, l) => match lookup p scope with Some u => Some (u, l) | None => None end
  | None => match lookup "" scope with Some u => Some (u, s) | None => None end
  end.

(* the URI a (namespace, local) pair denotes: concatenation (PROV-DM), with the XML Schema
   namespace written without its hash in XML *)
Definition pair_uri (p : string * string) : string :=
  if String.eqb (fst p) xsd_ns then xsd_ns ++ "#" ++ snd p else fst p ++ snd p.

Definition resolve_uri (scope : list (string * string)) (s : string) : option string :=
  option_map pair_uri (resolve_pair scope s).

Definition time_content (tm : dtime) : sexp :=
  L [A "time"; A (iso_print (mkDt (dy tm) (dmo tm) (dd tm) (dh tm) (dmi tm) (dsec tm) (dus tm) None));
     sx_opt sx_Z (dtz tm)].

(* ---- one attribute value: character data + xsi:type + xml:lang *)
Definition read_value (ft : ftable) (scope : list (string * string)) (attrs : list (string * string * string))
  (text : string) : option sexp :=
  match xattr xml_ns "lang" attrs with
  | Some lang =>
      (* a language-tagged string.  An xsi:type naming a built-in simple type of XML Schema next to xml:lang is not
         valid against the schema (a simple type carries no attributes): such an element is not read at all; a type of
         another namespace may be an extension that allows the attribute, and the tag decides *)
      let tagged := Some (L [A "lit"; A text; A (spec_prov_uri ++ "InternationalizedString"); L [A "some"; A lang]]) in
      match xattr xsi_ns "type" attrs with
      | None => tagged
      | Some ty =>
          match resolve_pair scope ty with
          | Some (tns, _) => if String.eqb tns xsd_ns then None else tagged
          | None => tagged
          end
      end
  | None =>
      match xattr xsi_ns "type" attrs with
      | None => Some (L [A "str"; A text])
      | Some ty =>
          match resolve_pair scope ty with
          | None => None
          | Some (tns, tl) =>
              if negb (String.eqb tns xsd_ns) then Some (L [A "lit"; A text; A (pair_uri (tns, tl)); A "none"])
              else if String.eqb tl "string" then Some (L [A "str"; A text])
              else if (String.eqb tl "int" || String.eqb tl "long")%bool then
                match parse_int text with Some z => Some (L [A "int"; sx_Z z]) | None => None end
              else if (String.eqb tl "double" || String.eqb tl "float")%bool then
                match parse_float ft text with
                | FOk (VFloat r _ _) => Some (L [A "float"; A r])
                | _ => None
                end
              else if String.eqb tl "boolean" then
                match xsd_boolean text with
                | Some b => Some (L [A "bool"; A (if b then "true" else "false")])
                | None => Some (L [A "lit"; A text; A (pair_uri (tns, tl)); A "none"])   (* ill-formed: still a literal of that type *)
                end
              else if String.eqb tl "dateTime" then
                match iso_parse text with
                | Some tm => Some (time_content tm)
                | None => Some (L [A "lit"; A text; A (pair_uri (tns, tl)); A "none"])
                end
              else if String.eqb tl "anyURI" then Some (L [A "id"; A text])
              else if String.eqb tl "QName" then
                match resolve_uri scope text with Some u => Some (L [A "qn"; A u]) | None => None end
              else Some (L [A "lit"; A text; A (pair_uri (tns, tl)); A "none"])
          end
      end
  end.

(* ---- records *)
Definition kind_by_name (n : string) : option (string * list string * option string) :=
  match find (fun e => String.eqb (snd (fst (fst e))) n) spec_kinds with
  | Some (kind, _, formals, _) => Some (kind, formals, None)
  | None =>
      match find (fun e => String.eqb (fst (fst e)) n) spec_subtypes with
      | Some (_, ty, base) =>
          match find (fun e => String.eqb (fst (fst (fst e))) base) spec_kinds with
          | Some (kind, _, formals, _) => Some (kind, formals, Some ty)
          | None => None
          end
      | None => None
      end
  end.

Fixpoint all_some {T} (l : list (option T)) : option (list T) :=
  match l with
  | [] => Some []
  | Some x :: r => match all_some r with Some r' => Some (x :: r') | None => None end
  | None :: _ => None
  end.

Definition read_child (ft : ftable) (formals : list string) (c : xnode) : option sexp :=
  match c with
  | XE ns local attrs scope text kids =>
      match kids with
      | _ :: _ => None
      | [] =>
          if (String.eqb ns spec_prov_uri && existsb (String.eqb local) formals)%bool then
            if existsb (String.eqb local) spec_time_args then
              match iso_parse text with
              | Some tm => Some (L [A (spec_prov_uri ++ local); time_content tm])
              | None => None
              end
            else
              match xattr spec_prov_uri "ref" attrs with
              | Some r => match resolve_uri scope r with
                          | Some u => Some (L [A (spec_prov_uri ++ local); L [A "qn"; A u]])
                          | None => None
                          end
              | None => None
              end
          else
            match read_value ft scope attrs text with
            | Some v => Some (L [A (ns ++ local); v])
            | None => None
            end
      end
  end.

(* the order of the children of a record element in the PROV-XML schema: the formal arguments in their order,
   then prov:label, prov:location, prov:role, prov:type, prov:value, then elements of other namespaces *)
Fixpoint index_in (s : string) (l : list string) (i : nat) : option nat :=
  match l with
  | [] => None
  | x :: r => if String.eqb x s then Some i else index_in s r (S i)
  end.
Definition child_rank (formals : list string) (c : xnode) : nat :=
  match c with
  | XE ns local _ _ _ _ =>
      let n := length formals in
      if String.eqb ns spec_prov_uri then
        match index_in local formals 0 with
        | Some i => i
        | None =>
            match index_in local ["label"; "location"; "role"; "type"; "value"] 0 with
            | Some j => (n + j)%nat
            | None => (n + 5)%nat
            end
        end
      else (n + 5)%nat
  end.
Fixpoint nondecreasing (l : list nat) : bool :=
  match l with
  | a :: ((b :: _) as r) => (Nat.leb a b && nondecreasing r)%bool
  | _ => true
  end.
Definition schema_order (formals : list string) (kids : list xnode) : bool :=
  nondecreasing (map (child_rank formals) kids).

Definition read_record (ft : ftable) (x : xnode) : option (list sexp) :=
  match x with
  | XE ns local attrs scope _ kids =>
      if negb (String.eqb ns spec_prov_uri) then None else
      match kind_by_name local with
      | None => None
      | Some (kind, formals, sub) =>
          let idc := match xattr spec_prov_uri "id" attrs with
                     | None => Some (A "none")
                     | Some s => option_map A (resolve_uri scope s)
                     end in
          if negb (schema_order formals kids) then None else
          match idc, all_some (map (read_child ft formals) kids) with
          | Some ic, Some cs =>
              let extra := match sub with
                           | Some ty => [L [A (spec_prov_uri ++ "type"); L [A "qn"; A (spec_prov_uri ++ ty)]]]
                           | None => []
                           end in
              (* xsi:type on the record element: the extension type of the record, i.e. a prov:type *)
              let xt := match xattr xsi_ns "type" attrs with
                        | None => Some []
                        | Some ty => match resolve_uri scope ty with
                                     | Some u => Some [L [A (spec_prov_uri ++ "type"); L [A "qn"; A u]]]
                                     | None => None
                                     end
                        end in
              match xt with None => None | Some xtl =>
              let attrs := (cs ++ extra ++ xtl)%list in
              (* the schema lets prov:hadMember list several prov:entity children: one
                 membership per entity (the first keeps the identifier and the other attributes) *)
              let ent := spec_prov_uri ++ "entity" in
              let is_ent (a : sexp) := match a with L [A u; _] => String.eqb u ent | _ => false end in
              if (String.eqb kind "Membership" && Nat.ltb 1 (length (filter is_ent attrs)))%bool then
                let others := filter (fun a => negb (is_ent a)) attrs in
                let coll := filter (fun a => match a with L [A u; _] => String.eqb u (spec_prov_uri ++ "collection") | _ => false end) attrs in
                match filter is_ent attrs with
                | e0 :: more =>
                    Some (L [A "rec"; A (spec_prov_uri ++ kind); ic; L (others ++ [e0])%list]
                          :: map (fun e => L [A "rec"; A (spec_prov_uri ++ kind); A "none"; L (coll ++ [e])%list]) more)
                | [] => None
                end
              else Some [L [A "rec"; A (spec_prov_uri ++ kind); ic; L attrs]]
              end
          | _, _ => None
          end
      end
  end.

(* prov:other holds non-PROV information: not part of the document's PROV content *)
Definition is_other (x : xnode) : bool :=
  match x with XE ns local _ _ _ _ => (String.eqb ns spec_prov_uri && String.eqb local "other")%bool end.

Definition is_bundle_content (x : xnode) : bool :=
  match x with XE ns local _ _ _ _ => (String.eqb ns spec_prov_uri && String.eqb local "bundleContent")%bool end.

Definition read_bundle (ft : ftable) (x : xnode) : option sexp :=
  match x with
  | XE _ _ attrs scope _ kids =>
      match xattr spec_prov_uri "id" attrs with
      | None => None
      | Some s =>
          match resolve_uri scope s, all_some (map (read_record ft) (filter (fun k => negb (is_other k)) kids)) with
          | Some u, Some recs => Some (L (A "bundle" :: A u :: concat recs))
          | _, _ => None
          end
      end
  end.

Definition read (ft : ftable) (root : xnode) : option sexp :=
  match root with
  | XE ns local _ _ _ kids =>
      if negb (String.eqb ns spec_prov_uri && String.eqb local "document")%bool then None else
      let recs := filter (fun k => negb (is_bundle_content k || is_other k)) kids in
      let bundles := filter is_bundle_content kids in
      match all_some (map (read_record ft) recs), all_some (map (read_bundle ft) bundles) with
      | Some rl, Some bl => Some (L (A "content" :: L (A "bundle" :: A "" :: concat rl) :: bl))
      | _, _ => None
      end
  end.
