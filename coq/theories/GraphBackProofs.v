(* GraphBackProofs.v — C14, converting back: the document graph_to_prov builds holds the images of the
   declared nodes' records, in node order, followed by the images of the relations on the edges; every
   relation it holds is on an edge of the graph and — when the ends of every edge are nodes of the
   graph, as in every graph prov_to_graph builds — every edge's relation is in it. *)
From Coq Require Import String Ascii List Bool Arith Lia.
From Prov Require Import Str StrProofs Sexp Tables Nsm NsmProofs Values Record RecordProofs World WorldProofs EqProofs Derive
  Graph GraphProofs WInvUProofs IdemProofs ReaddProofs UpdateProofs.
Import ListNotations.
Open Scope string_scope.

Definition back_records (g : graph) : list prec :=
  (map nrec (filter ndeclared (gnodes g)) ++ map (fun e => snd e) (edges_in_order g))%list.

Theorem graph_to_prov_images : forall ft g nd,
  good_recs ft (back_records g) -> graph_to_prov ft g = OK nd ->
  dbundles nd = [] /\ Forall2 (image_of ft) (back_records g) (brecs (dmain nd)).
Proof.
  intros ft g nd G H. unfold graph_to_prov in H. fold (back_records g) in H.
  destruct (add_records None ft (bundle_init None) (back_records g)) as [b [u|e|]] eqn:A; try discriminate.
  destruct u. inversion H; subst nd. split; [reflexivity|].
  destruct (add_records_images _ _ _ _ _ (BInv_init None) G A) as [rs' [P [F _]]].
  cbn [bundle_init brecs app dmain] in *. rewrite P. exact F.
Qed.

(* the edge list handed back is made of edges of the graph *)
Lemma edges_in_order_sound : forall g e, In e (edges_in_order g) -> In e (gedges g).
Proof.
  intros g e H. unfold edges_in_order in H. apply in_flat_map in H. destruct H as [u [_ H]].
  apply in_flat_map in H. destruct H as [v [_ H]]. apply filter_In in H. destruct H as [H _].
  apply filter_In in H. exact (proj1 H).
Qed.

Lemma node_eqb_refl : forall n, node_eqb n n = true.
Proof.
  intros n. unfold node_eqb. rewrite Bool.eqb_reflx. cbn [andb]. apply rec_eqb_refl.
Qed.

Lemma in_dedup : forall l n, In n l -> exists n', In n' (dedup_nodes l) /\ node_eqb n' n = true.
Proof.
  induction l as [|a l IH]; intros n H; [destruct H|]. cbn [dedup_nodes]. destruct H as [->|H].
  - exists n. split; [left; reflexivity | apply node_eqb_refl].
  - destruct (node_eqb a n) eqn:E.
    + exists a. split; [left; reflexivity | exact E].
    + destruct (IH n H) as [n' [I' E']]. destruct (node_eqb a n') eqn:E2.
      * (* a equals n' which equals n: then a equals n — use a itself *)
        exists a. split; [left; reflexivity|].
        unfold node_eqb in *. apply andb_true_iff in E2. destruct E2 as [D2 R2]. apply andb_true_iff in E'. destruct E' as [D' R'].
        apply Bool.eqb_prop in D2. apply Bool.eqb_prop in D'. rewrite D2, D', Bool.eqb_reflx. cbn [andb].
        exact (rec_eqb_trans _ _ _ R2 R').
      * exists n'. split; [|exact E']. right. apply filter_In. split; [exact I' | rewrite E2; reflexivity].
Qed.

(* every edge whose source is (equal to) a node of the graph is handed back *)
Theorem edges_in_order_complete : forall g e,
  In e (gedges g) -> (exists u, In u (gnodes g) /\ node_eqb u (fst (fst e)) = true) ->
  In e (edges_in_order g).
Proof.
  intros g e He [u [Hu Eu]]. unfold edges_in_order. apply in_flat_map. exists u. split; [exact Hu|].
  set (es := filter (fun e0 => node_eqb u (fst (fst e0))) (gedges g)).
  assert (Ies : In e es) by (apply filter_In; split; assumption).
  destruct (in_dedup (map (fun e0 => snd (fst e0)) es) (snd (fst e))) as [v [Iv Ev]].
  { apply in_map_iff. exists e. split; [reflexivity | exact Ies]. }
  apply in_flat_map. exists v. split; [exact Iv|]. apply filter_In. split; [exact Ies | exact Ev].
Qed.

(* in every graph add_relations builds, the source of every edge is (equal to) a node *)
Definition sourced (g : graph) : Prop :=
  forall e, In e (gedges g) -> exists u, In u (gnodes g) /\ node_eqb u (fst (fst e)) = true.

Lemma add_node_has : forall n l, exists u, In u (add_node n l) /\ node_eqb u n = true.
Proof.
  intros n l. unfold add_node. destruct (existsb (node_eqb n) l) eqn:E.
  - apply existsb_exists in E. destruct E as [u [Hu Eu]]. exists u. split; [exact Hu|].
    unfold node_eqb in *. apply andb_true_iff in Eu. destruct Eu as [D R].
    apply Bool.eqb_prop in D. rewrite D, Bool.eqb_reflx. cbn [andb]. rewrite rec_eqb_sym. exact R.
  - exists n. split; [apply in_or_app; right; left; reflexivity | apply node_eqb_refl].
Qed.

Lemma add_relations_sourced : forall rels nm g, sourced g -> sourced (add_relations rels nm g).
Proof.
  induction rels as [|r rest IH]; intros nm g S; cbn [add_relations]; [exact S|].
  destruct (first_two r) as [[[a1 [[s|z|f iv fg|b|t|u|q1|l d lg]|]] [a2 v2]]|]; try (apply IH; exact S).
  destruct v2 as [[s|z|f iv fg|b|t|u|q2|l d lg]|]; try (apply IH; exact S).
  destruct (endpoint nm a1 q1) as [[nm1 n1]|]; [|apply IH; exact S].
  destruct (endpoint nm1 a2 q2) as [[nm2 n2]|]; [|apply IH; exact S].
  apply IH. intros e He. cbn [gedges gnodes] in *. apply in_app_or in He. destruct He as [He|[<-|[]]].
  - destruct (S e He) as [u [Hu Eu]]. exists u. split; [|exact Eu]. apply add_node_keeps. apply add_node_keeps. exact Hu.
  - cbn [fst]. destruct (add_node_has n1 (gnodes g)) as [u [Hu Eu]]. exists u. split; [apply add_node_keeps; exact Hu | exact Eu].
Qed.

Theorem graph_of_unified_sourced : forall u, sourced (graph_of_unified u).
Proof. intros u. unfold graph_of_unified. apply add_relations_sourced. intros e []. Qed.

(* so converting the graph of a unified document back hands over every relation that became an edge,
   and nothing that is not on an edge *)
Theorem back_relations_exact : forall u e,
  In e (edges_in_order (graph_of_unified u)) <-> In e (gedges (graph_of_unified u)).
Proof.
  intros u e. split; [apply edges_in_order_sound|]. intros H.
  apply edges_in_order_complete; [exact H | exact (graph_of_unified_sourced u e H)].
Qed.

(* ---- the records in the graph of a unified document are records of that document *)
Definition node_from (recs : list prec) (n : gnode) : Prop := ndeclared n = true -> In (nrec n) recs.

Lemma add_node_from : forall recs n l, node_from recs n -> Forall (node_from recs) l -> Forall (node_from recs) (add_node n l).
Proof.
  intros recs n l Hn Hl. unfold add_node. destruct (existsb (node_eqb n) l); [exact Hl|].
  apply Forall_app. split; [exact Hl | constructor; [exact Hn | constructor]].
Qed.

Definition nm_from (recs : list prec) (nm : nmap) : Prop := forall u n, lookup u nm = Some n -> node_from recs n.

Lemma endpoint_from : forall recs nm a q nm' n, nm_from recs nm -> endpoint nm a q = Some (nm', n) ->
  nm_from recs nm' /\ node_from recs n.
Proof.
  intros recs nm a q nm' n F H. unfold endpoint in H. destruct (lookup (qn_uri q) nm) as [n0|] eqn:L.
  - inversion H; subst. split; [exact F | exact (F _ _ L)].
  - unfold infer in H. destruct (lookup a inferred_element_class) as [k|]; [|discriminate]. inversion H; subst.
    assert (NI : node_from recs (mkNode (mkRec k (Some q) []) false)) by (intros D; discriminate D).
    split; [|exact NI]. intros u n0 L0. destruct (string_dec (qn_uri q) u) as [<-|NE].
    + rewrite lookup_dset_same in L0. inversion L0; subst. exact NI.
    + rewrite lookup_dset_other in L0 by exact NE. exact (F _ _ L0).
Qed.

Lemma add_relations_from : forall recs rels nm g, nm_from recs nm -> Forall (node_from recs) (gnodes g) ->
  Forall (node_from recs) (gnodes (add_relations rels nm g)).
Proof.
  intros recs. induction rels as [|r rest IH]; intros nm g F N; cbn [add_relations]; [exact N|].
  destruct (first_two r) as [[[a1 [[s|z|f iv fg|b|t|u|q1|l d lg]|]] [a2 v2]]|]; try (apply IH; assumption).
  destruct v2 as [[s|z|f iv fg|b|t|u|q2|l d lg]|]; try (apply IH; assumption).
  destruct (endpoint nm a1 q1) as [[nm1 n1]|] eqn:E1; [|apply IH; assumption].
  destruct (endpoint_from _ _ _ _ _ _ F E1) as [F1 N1].
  destruct (endpoint nm1 a2 q2) as [[nm2 n2]|] eqn:E2; [|apply IH; assumption].
  destruct (endpoint_from _ _ _ _ _ _ F1 E2) as [F2 N2].
  apply IH; [exact F2|]. cbn [gnodes]. apply add_node_from; [exact N2|]. apply add_node_from; assumption.
Qed.

Lemma add_relations_edge_src : forall rels nm g e,
  In e (gedges (add_relations rels nm g)) -> In e (gedges g) \/ In (snd e) rels.
Proof.
  induction rels as [|r rest IH]; intros nm g e H; cbn [add_relations] in H; [left; exact H|].
  assert (SKIP : forall nm0, In e (gedges (add_relations rest nm0 g)) -> In e (gedges g) \/ In (snd e) (r :: rest)).
  { intros nm0 H0. destruct (IH _ _ _ H0) as [X|X]; [left; exact X | right; right; exact X]. }
  destruct (first_two r) as [[[a1 [[s|z|f iv fg|b|t|u|q1|l d lg]|]] [a2 v2]]|]; try (exact (SKIP _ H)).
  destruct v2 as [[s|z|f iv fg|b|t|u|q2|l d lg]|]; try (exact (SKIP _ H)).
  destruct (endpoint nm a1 q1) as [[nm1 n1]|]; [|exact (SKIP _ H)].
  destruct (endpoint nm1 a2 q2) as [[nm2 n2]|]; [|exact (SKIP _ H)].
  destruct (IH _ _ _ H) as [X|X]; [|right; right; exact X]. cbn [gedges] in X.
  apply in_app_or in X. destruct X as [X|[<-|[]]]; [left; exact X | right; left; reflexivity].
Qed.

Theorem back_records_from_document : forall u r, In r (back_records (graph_of_unified u)) -> In r (brecs (dmain u)).
Proof.
  intros u r H. unfold back_records in H. apply in_app_or in H. destruct H as [H|H].
  - apply in_map_iff in H. destruct H as [n [<- Hn]]. apply filter_In in Hn. destruct Hn as [Hn D].
    set (recs := brecs (dmain u)) in *.
    assert (ALL : Forall (node_from recs) (gnodes (graph_of_unified u))).
    { unfold graph_of_unified. fold recs. apply add_relations_from.
      - (* the node map holds declared element records *)
        assert (GEN : forall els m0, (forall x, In x els -> In x recs) -> nm_from recs m0 ->
                  nm_from recs (fold_left (fun m r0 => match rid r0 with
                                                        | Some q => dset (qn_uri q) (mkNode r0 true) m
                                                        | None => m end) els m0)).
        { induction els as [|x els IHe]; intros m0 Sub F0; cbn [fold_left]; [exact F0|].
          apply IHe; [intros y Hy; apply Sub; right; exact Hy|].
          destruct (rid x) as [q|]; [|exact F0]. intros u0 n0 L0.
          destruct (string_dec (qn_uri q) u0) as [<-|NE].
          - rewrite lookup_dset_same in L0. inversion L0; subst. intros _. cbn [nrec]. apply Sub. left. reflexivity.
          - rewrite lookup_dset_other in L0 by exact NE. exact (F0 _ _ L0). }
        apply GEN; [intros x Hx; apply filter_In in Hx; exact (proj1 Hx) | intros u0 n0 L0; discriminate L0].
      - cbn [gnodes].
        assert (GEN : forall els l0, (forall x, In x els -> In x recs) -> Forall (node_from recs) l0 ->
                  Forall (node_from recs) (fold_left (fun l r0 => add_node (mkNode r0 true) l) els l0)).
        { induction els as [|x els IHe]; intros l0 Sub F0; cbn [fold_left]; [exact F0|].
          apply IHe; [intros y Hy; apply Sub; right; exact Hy|]. apply add_node_from; [|exact F0].
          intros _. cbn [nrec]. apply Sub. left. reflexivity. }
        apply GEN; [intros x Hx; apply filter_In in Hx; exact (proj1 Hx) | constructor]. }
    rewrite Forall_forall in ALL. exact (ALL n Hn D).
  - apply in_map_iff in H. destruct H as [e [<- He]]. apply edges_in_order_sound in He.
    unfold graph_of_unified in He. apply add_relations_edge_src in He. cbn [gedges] in He.
    destruct He as [[]|Hr]. apply filter_In in Hr. exact (proj1 Hr).
Qed.

(* ---- document -> graph -> document, for every document *)
From Prov Require Import GoodProofs.
Theorem graph_roundtrip : forall ft dd g nd,
  prov_to_graph ft dd = OK g -> graph_to_prov ft g = OK nd ->
  exists u, doc_unified ft dd = OK u /\ g = graph_of_unified u /\ dbundles nd = [] /\
    Forall2 (image_of ft) (back_records g) (brecs (dmain nd)) /\
    (forall r, In r (back_records g) -> In r (brecs (dmain u))) /\
    (forall e, In e (edges_in_order g) <-> In e (gedges g)).
Proof.
  intros ft dd g nd P B. unfold prov_to_graph in P.
  destruct (doc_unified ft dd) as [u|e|] eqn:U; try discriminate. inversion P; subst g.
  exists u. split; [reflexivity|]. split; [reflexivity|].
  assert (G : good_recs ft (back_records (graph_of_unified u))).
  { intros r0 Hr. apply GoodR_record_pairs. destruct (doc_unified_DGood _ _ _ U) as [M _].
    unfold BGood in M. rewrite Forall_forall in M. apply M. apply back_records_from_document. exact Hr. }
  destruct (graph_to_prov_images ft _ nd G B) as [E F].
  split; [exact E|]. split; [exact F|]. split; [apply back_records_from_document | apply back_relations_exact].
Qed.
