(* DotLabel.v — the HTML-like labels prov_to_dot builds (dot.py: the annotation table of a record's attributes,
   ANNOTATION_START_ROW / ANNOTATION_ROW_TEMPLATE / ANNOTATION_END_ROW joined by newlines, and the two-line label of an
   element drawn under its prov:label), and an acceptor for Graphviz's HTML-like label language written from its
   grammar (htmlparse.y: a label is text or one table; table > rows > cells; text items are character data, <BR/> and
   <FONT>; lexical level is XML: tags, double-quoted attribute values, entity references, XML characters only).
   The acceptor is a character-level state machine, so that running it over a concatenation is running it over the
   parts in turn (run_app).  It is stricter than Graphviz where that is harmless (only the five entity references
   html.escape produces, no raw '>' in text); what matters for C15 is that whatever it accepts, Graphviz parses —
   measured on every hrun against the real `dot`. *)
From Coq Require Import String Ascii List Bool Arith.
From Prov Require Import Str Dot.
Import ListNotations.
Open Scope string_scope.

Definition nl : string := String (ascii_of_nat 10) "".

(* ------------------------------------------------------------------ what dot.py writes *)
Definition ann_start : string := "<TABLE cellpadding=""0"" border=""0"">".
Definition ann_end : string := "    </TABLE>".

(* one row: attribute URI, attribute name as printed, the URI a value that is an Identifier links to, the value's text *)
Record ann_row_data : Type := mkRow { ar_uri : string; ar_name : string; ar_href : option string; ar_text : string }.

Definition ann_row (r : ann_row_data) : string :=
  "    <TR>" ++ nl ++
  "        <TD align=""left"" href=""" ++ html_escape (ar_uri r) ++ """>" ++ html_escape (ar_name r) ++ "</TD>" ++ nl ++
  "        <TD align=""left""" ++
  (match ar_href r with Some u => " href=""" ++ html_escape u ++ """" | None => "" end) ++
  ">" ++ html_escape (ar_text r) ++ "</TD>" ++ nl ++
  "    </TR>".

Fixpoint ann_rows (rs : list ann_row_data) : string :=
  match rs with
  | [] => ""
  | r :: rest => nl ++ ann_row r ++ ann_rows rest
  end.

(* "\n".join([START] + rows + [END]) without the outer angle brackets of the DOT HTML string *)
Definition ann_body (rs : list ann_row_data) : string := ann_start ++ ann_rows rs ++ nl ++ ann_end.
Definition ann_label (rs : list ann_row_data) : string := "<" ++ ann_body rs ++ ">".

(* the label of an element whose prov:label differs from its identifier (use_labels=True) *)
Definition fancy_body (label ident : string) : string :=
  html_escape label ++ "<br />" ++ "<font color=""#333333"" point-size=""10"">" ++ html_escape ident ++ "</font>".
Definition fancy_label (label ident : string) : string := "<" ++ fancy_body label ident ++ ">".

(* ------------------------------------------------------------------ the acceptor *)
Inductive mode : Type :=
| MText
| MEnt (ret : option string) (acc : string)   (* after '&'; ret = Some tag: inside an attribute value of that start tag *)
| MLt
| MOpenName (name : string)
| MCloseName (name : string)
| MCloseWs (name : string)
| MAttrs (name : string)
| MAttrName (name : string)
| MAttrEq (name : string)
| MAttrVal (name : string)
| MAfterVal (name : string)
| MSlash (name : string)
| MErr.

Record hstate : Type := mkH { h_mode : mode; h_stk : list (string * nat); h_text : bool; h_table : bool }.

Definition code (c : ascii) : nat := nat_of_ascii c.
Definition is_ws (c : ascii) : bool := let n := code c in Nat.eqb n 32 || Nat.eqb n 9 || Nat.eqb n 10 || Nat.eqb n 13.
Definition xml_char (c : ascii) : bool := Nat.leb 32 (code c) || is_ws c.
Definition is_letter (c : ascii) : bool :=
  let n := code c in (Nat.leb 65 n && Nat.leb n 90) || (Nat.leb 97 n && Nat.leb n 122).
Definition is_name_char (c : ascii) : bool :=
  let n := code c in is_letter c || (Nat.leb 48 n && Nat.leb n 57) || Nat.eqb n 45 || Nat.eqb n 95 || Nat.eqb n 58.
Definition xml_safe (s : string) : bool := all_chars xml_char s.

Definition upper_ascii (c : ascii) : ascii :=
  let n := code c in if (Nat.leb 97 n && Nat.leb n 122)%bool then ascii_of_nat (n - 32) else c.
Fixpoint upper (s : string) : string :=
  match s with EmptyString => EmptyString | String c r => String (upper_ascii c) (upper r) end.

Definition snoc (s : string) (c : ascii) : string := s ++ String c "".

Definition top (stk : list (string * nat)) : option string := match stk with [] => None | (n, _) :: _ => Some n end.

(* where an element may occur (htmlparse.y): a table at the top; rows in tables; cells in rows; text items in cells,
   in fonts and at the top *)
Definition text_place (p : option string) : bool :=
  match p with
  | None => true
  | Some n => String.eqb n "TD" || String.eqb n "FONT"
  end.
Definition allowed (p : option string) (n : string) : bool :=
  if String.eqb n "TABLE" then match p with None => true | _ => false end
  else if String.eqb n "TR" then match p with Some q => String.eqb q "TABLE" | None => false end
  else if String.eqb n "TD" then match p with Some q => String.eqb q "TR" | None => false end
  else if String.eqb n "FONT" then text_place p
  else false.

Definition bump (stk : list (string * nat)) : list (string * nat) :=
  match stk with [] => [] | (n, k) :: r => (n, S k) :: r end.

Definition err (st : hstate) : hstate := mkH MErr (h_stk st) (h_text st) (h_table st).
Definition with_mode (st : hstate) (m : mode) : hstate := mkH m (h_stk st) (h_text st) (h_table st).

(* a character of text (not white space) in the current place *)
Definition text_char (st : hstate) : hstate :=
  if text_place (top (h_stk st))
  then mkH MText (h_stk st) (match h_stk st with [] => true | _ => h_text st end) (h_table st)
  else err st.

Definition open_tag (st : hstate) (name : string) : hstate :=
  let n := upper name in
  if allowed (top (h_stk st)) n then
    if (String.eqb n "TABLE" && h_table st)%bool then err st           (* at most one table *)
    else mkH MText ((n, 0) :: bump (h_stk st))
             (match h_stk st with [] => if String.eqb n "FONT" then true else h_text st | _ => h_text st end)
             (if String.eqb n "TABLE" then true else h_table st)
  else err st.

Definition empty_tag (st : hstate) (name : string) : hstate :=
  if (String.eqb (upper name) "BR" && text_place (top (h_stk st)))%bool
  then mkH MText (bump (h_stk st)) (match h_stk st with [] => true | _ => h_text st end) (h_table st)
  else err st.

Definition close_tag (st : hstate) (name : string) : hstate :=
  match h_stk st with
  | (n, k) :: rest =>
      if String.eqb n (upper name) then
        if ((String.eqb n "TABLE" || String.eqb n "TR") && Nat.eqb k 0)%bool then err st   (* at least one row / cell *)
        else mkH MText rest (h_text st) (h_table st)
      else err st
  | [] => err st
  end.

Definition entity_name (acc : string) : bool :=
  String.eqb acc "amp" || String.eqb acc "lt" || String.eqb acc "gt" || String.eqb acc "quot" || String.eqb acc "#x27".

Definition hstep (st : hstate) (c : ascii) : hstate :=
  match h_mode st with
  | MErr => st
  | MText =>
      if Ascii.eqb c "<" then with_mode st MLt
      else if Ascii.eqb c "&" then with_mode st (MEnt None "")
      else if Ascii.eqb c ">" then err st
      else if negb (xml_char c) then err st
      else if is_ws c then st
      else text_char st
  | MEnt ret acc =>
      if Ascii.eqb c ";" then
        if entity_name acc then match ret with None => text_char st | Some n => with_mode st (MAttrVal n) end
        else err st
      else if ((is_name_char c || Ascii.eqb c "#") && Nat.leb (String.length acc) 4)%bool then with_mode st (MEnt ret (snoc acc c))
      else err st
  | MLt =>
      if Ascii.eqb c "/" then with_mode st (MCloseName "")
      else if is_letter c then with_mode st (MOpenName (String c ""))
      else err st
  | MOpenName n =>
      if is_name_char c then with_mode st (MOpenName (snoc n c))
      else if is_ws c then with_mode st (MAttrs n)
      else if Ascii.eqb c ">" then open_tag st n
      else if Ascii.eqb c "/" then with_mode st (MSlash n)
      else err st
  | MAttrs n =>
      if is_ws c then st
      else if is_letter c then with_mode st (MAttrName n)
      else if Ascii.eqb c ">" then open_tag st n
      else if Ascii.eqb c "/" then with_mode st (MSlash n)
      else err st
  | MAttrName n =>
      if is_name_char c then st
      else if Ascii.eqb c "=" then with_mode st (MAttrEq n)
      else err st
  | MAttrEq n => if Ascii.eqb c dq then with_mode st (MAttrVal n) else err st
  | MAttrVal n =>
      if Ascii.eqb c dq then with_mode st (MAfterVal n)
      else if Ascii.eqb c "<" then err st
      else if Ascii.eqb c "&" then with_mode st (MEnt (Some n) "")
      else if negb (xml_char c) then err st
      else st
  | MAfterVal n =>
      if is_ws c then with_mode st (MAttrs n)
      else if Ascii.eqb c ">" then open_tag st n
      else if Ascii.eqb c "/" then with_mode st (MSlash n)
      else err st
  | MSlash n => if Ascii.eqb c ">" then empty_tag st n else err st
  | MCloseName n =>
      if is_name_char c then with_mode st (MCloseName (snoc n c))
      else if is_ws c then with_mode st (MCloseWs n)
      else if Ascii.eqb c ">" then close_tag st n
      else err st
  | MCloseWs n =>
      if is_ws c then st
      else if Ascii.eqb c ">" then close_tag st n
      else err st
  end.

Fixpoint hrun (st : hstate) (s : string) : hstate :=
  match s with
  | EmptyString => st
  | String c r => hrun (hstep st c) r
  end.

Definition h_init : hstate := mkH MText [] false false.

Definition accepting (st : hstate) : bool :=
  match h_mode st, h_stk st with
  | MText, [] => negb (h_text st && h_table st)       (* a label is text or a table, not both *)
  | _, _ => false
  end.

Definition html_body_ok (s : string) : bool := accepting (hrun h_init s).

(* the DOT HTML string "<" body ">" *)
Fixpoint drop_last_gt (s : string) : option string :=
  match s with
  | EmptyString => None
  | String c EmptyString => if Ascii.eqb c ">" then Some EmptyString else None
  | String c r => match drop_last_gt r with Some t => Some (String c t) | None => None end
  end.

Definition html_label_ok (s : string) : bool :=
  match s with
  | String c r => if Ascii.eqb c "<" then match drop_last_gt r with Some b => html_body_ok b | None => false end else false
  | EmptyString => false
  end.
