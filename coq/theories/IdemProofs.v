(* IdemProofs.v — normalisation on insertion is idempotent on stored values: putting a value
   that a record already holds through _auto_literal_conversion again (what add_record,
   update, flattened, unified and copy do) gives the same value — the same Python kind,
   lexical form, language; names and datatypes keep their URI (they may be re-homed under
   another prefix) — and never drops it. *)
From Coq Require Import String List Arith ZArith Bool.
From Prov Require Import Str Sexp Tables Nsm NsmProofs Values Record RecordProofs World WorldProofs.
Import ListNotations.
Open Scope string_scope.

(* what a record can hold after normalisation: a typed literal stays a Literal only when its
   datatype is not one the library converts, and language-tagged literals have the datatype
   the Literal constructor forces on them *)
Definition stored (ft : ftable) (v : value) : Prop :=
  match v with
  | VLit l d g =>
      match g with
      | Some (String _ _) => exists dd, d = Some dd /\ qn_uri dd = qn_uri (prov_qn "InternationalizedString")
      | Some EmptyString => True
      | None => match d with Some dd => parse_xsd ft l dd = CKeep | None => False end
      end
  | _ => True
  end.

(* the same value up to the prefix under which names are homed *)
Definition same_value (v v' : value) : Prop :=
  match v with
  | VQn q => exists q', v' = VQn q' /\ qn_uri q' = qn_uri q
  | VLit l (Some d) g => exists d', v' = VLit l (Some d') g /\ qn_uri d' = qn_uri d
  | _ => v' = v
  end.

Lemma resolve_o_qn : forall c m q,
  InvU m ->
  match resolve_o c m (NQn q) with
  | Done m' (Some q') => qn_uri q' = qn_uri q /\ InvU m'
  | Done _ None => False
  | Fail _ _ => False
  | OOD => True
  end.
Proof.
  intros c m q I. unfold resolve_o, resolve. destruct (resolve_qn m q) as [[m' q']|] eqn:E; [|exact Logic.I].
  exact (resolve_qn_uri _ _ _ _ I E).
Qed.

Theorem auto_conv_stored : forall c m v,
  InvU m -> stored (cft c) v ->
  match auto_conv c m (value_to_arg v) with
  | Done m' (Some v') => same_value v v' /\ InvU m'
  | Done _ None => False            (* never dropped *)
  | Fail _ _ => False               (* never refused *)
  | OOD => True                     (* outside the modelled name space *)
  end.
Proof.
  intros c m v I S. destruct v as [s|z|r iv g|b|t|u|q|l d g]; cbn [value_to_arg auto_conv];
    try (split; [reflexivity | exact I]).
  - (* qualified name *)
    pose proof (resolve_o_qn c m q I) as R. destruct (resolve_o c m (NQn q)) as [m' [q'|]| |]; try exact R.
    destruct R as [U I']. split; [|exact I']. exists q'. split; [reflexivity | exact U].
  - (* literal *)
    cbn [stored] in S.
    destruct g as [[|gc gs]|].
    + (* empty language tag: the datatype is kept *)
      unfold keep_literal. cbn [mk_literal].
      destruct d as [dd|]; [|split; [reflexivity | exact I]].
      pose proof (resolve_o_qn c m dd I) as R. destruct (resolve_o c m (NQn dd)) as [m' [d'|]| |]; try exact R; try (exfalso; exact R).
      destruct R as [U I']. split; [|exact I']. exists d'. split; [reflexivity | exact U].
    + (* language-tagged: the constructor forces prov:InternationalizedString *)
      destruct S as [dd [-> UD]]. unfold keep_literal. cbn [mk_literal].
      pose proof (resolve_o_qn c m (prov_qn "InternationalizedString") I) as R.
      destruct (resolve_o c m (NQn (prov_qn "InternationalizedString"))) as [m' [d'|]| |]; try exact R; try (exfalso; exact R).
      destruct R as [U I']. split; [|exact I']. exists d'. split; [reflexivity | congruence].
    + destruct d as [dd|]; [|contradiction].
      rewrite S. unfold keep_literal. cbn [mk_literal].
      pose proof (resolve_o_qn c m dd I) as R. destruct (resolve_o c m (NQn dd)) as [m' [d'|]| |]; try exact R; try (exfalso; exact R).
      destruct R as [U I']. split; [|exact I']. exists d'. split; [reflexivity | exact U].
Qed.

(* what auto_conv itself produces is stored: normalisation reaches its fixed point in one step
   (for the literal branch: keep_literal is only entered when the datatype is kept) *)
Example stored_examples :
  stored [] (VLit "abc" (Some (xsd_qn "dateTime")) None) /\
  stored [] (VLit "x" (Some (mkQn (mkNs "ex" "http://e/") "T")) None) /\
  stored [] (VLit "hi" (Some (prov_qn "InternationalizedString")) (Some "en")) /\
  ~ stored [] (VLit "5" (Some (xsd_qn "int")) None).
Proof.
  split; [vm_compute; reflexivity|]. split; [vm_compute; reflexivity|].
  split; [exists (prov_qn "InternationalizedString"); split; reflexivity|].
  intros H. vm_compute in H. discriminate.
Qed.

(* the formal-attribute paths: a stored reference is a qualified name, a stored time a datetime *)
Theorem qn_value_stored : forall c m q,
  InvU m ->
  match qn_value c m (value_to_arg (VQn q)) with
  | Done m' (Some v') => same_value (VQn q) v' /\ InvU m'
  | Done _ None => False
  | Fail _ _ => False
  | OOD => True
  end.
Proof.
  intros c m q I. cbn [value_to_arg qn_value].
  pose proof (resolve_o_qn c m q I) as R. destruct (resolve_o c m (NQn q)) as [m' [q'|]| |]; try exact R.
  destruct R as [U I']. split; [|exact I']. exists q'. split; [reflexivity | exact U].
Qed.

Theorem time_value_stored : forall m t, time_value m (value_to_arg (VTime t)) = Done m (Some (VTime t)).
Proof. reflexivity. Qed.
