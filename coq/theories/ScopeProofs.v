(* ScopeProofs.v — C03 over histories: one document manager and its bundles. *)
From Coq Require Import String Ascii List Bool Arith Lia.
From Prov Require Import Str StrProofs Sexp Tables Nsm NsmProofs Scope.
Import ListNotations.
Open Scope string_scope.

Lemma option_nat_dec : forall a b : option nat, {a = b} + {a <> b}.
Proof. decide equality; apply Nat.eq_dec. Qed.

(* ------------------------------------------------------------------ get/set *)
Lemma nth_error_set_nth_same {T} : forall (l : list T) i v x,
  nth_error l i = Some x -> nth_error (set_nth i v l) i = Some v.
Proof.
  induction l as [|a l IH]; intros [|i] v x H; simpl in *; try discriminate; [reflexivity|].
  eapply IH; eauto.
Qed.

Lemma nth_error_set_nth_other {T} : forall (l : list T) i j v,
  i <> j -> nth_error (set_nth i v l) j = nth_error l j.
Proof.
  induction l as [|a l IH]; intros [|i] [|j] v N; simpl; try reflexivity; try congruence.
  apply IH. congruence.
Qed.

Lemma get_set_same : forall s t m m', get_mgr s t = Some m -> get_mgr (set_mgr s t m') t = Some m'.
Proof.
  intros s [i|] m m' H; simpl in *; [|reflexivity].
  eapply nth_error_set_nth_same; eauto.
Qed.

Lemma get_set_other : forall s t t' m', t <> t' -> get_mgr (set_mgr s t m') t' = get_mgr s t'.
Proof.
  intros s [i|] [j|] m' N; simpl; try reflexivity; try congruence.
  apply nth_error_set_nth_other. congruence.
Qed.

Lemma sdoc_set_bundle : forall s i m', sdoc (set_mgr s (Some i) m') = sdoc s.
Proof. reflexivity. Qed.

(* per-manager properties lifted to scopes *)
Definition SAll (P : nsm -> Prop) (s : scope) : Prop :=
  forall t m, get_mgr s t = Some m -> P m.

Lemma SAll_init : forall (P : nsm -> Prop), P nsm_init -> SAll P scope_init.
Proof.
  intros P H [i|] m G; simpl in G.
  - destruct i; discriminate.
  - inversion G; subst; exact H.
Qed.

Lemma SAll_set : forall (P : nsm -> Prop) s t m', SAll P s -> P m' -> SAll P (set_mgr s t m').
Proof.
  intros P s t m' A H t' m G.
  destruct (option_nat_dec t t') as [->|N].
  - destruct (get_mgr s t') as [m0|] eqn:E.
    + rewrite (get_set_same _ _ _ _ E) in G. inversion G; subst; exact H.
    + destruct t' as [i|]; simpl in *; [|discriminate].
      assert (X : nth_error (set_nth i m' (sbuns s)) i = None).
      { clear - E. revert i E. induction (sbuns s) as [|a l IH]; intros [|i] E; simpl in *;
          try reflexivity; try discriminate. apply IH; exact E. }
      congruence.
  - rewrite get_set_other in G by exact N. eapply A; eauto.
Qed.

Lemma SAll_newbundle : forall (P : nsm -> Prop) s, SAll P s -> P nsm_init ->
  SAll P (mkScope (sdoc s) (sbuns s ++ [nsm_init])).
Proof.
  intros P s A H [i|] m G; simpl in G.
  - destruct (Nat.lt_ge_cases i (length (sbuns s))) as [L|L].
    + rewrite nth_error_app1 in G by exact L. apply (A (Some i)). exact G.
    + rewrite nth_error_app2 in G by exact L.
      destruct (i - length (sbuns s)) as [|k]; simpl in G.
      * inversion G; subst; exact H.
      * destruct k; discriminate.
  - apply (A None). exact G.
Qed.

(* ------------------------------------------------------------------ C03a over histories *)
Lemma sstep_SAll_InvU : forall s o, SAll InvU s -> SAll InvU (fst (sstep s o)).
Proof.
  intros s o A. destruct o as [t p u|t u|t x|]; simpl.
  - destruct (get_mgr s t) as [m|] eqn:G; [|exact A].
    destruct (uri_ok u); [|exact A].
    destruct (add_namespace m (mkNs p u)) as [[m' n]|] eqn:E; [|exact A]. simpl.
    apply SAll_set; [exact A|]. eapply add_namespace_uri; eauto.
  - destruct (get_mgr s t) as [m|] eqn:G; [|exact A].
    destruct (uri_ok u); [|exact A]. simpl.
    apply SAll_set; [exact A|]. apply set_default_InvU. eauto.
  - destruct (get_mgr s t) as [m|] eqn:G; [|exact A].
    destruct (resolve (parent_of s t) m x) as [[m' r]|e|] eqn:E; try exact A. simpl.
    apply SAll_set; [exact A|]. eapply resolve_InvU; eauto.
  - apply SAll_newbundle; [exact A | apply InvU_init].
Qed.

Lemma srun_from_SAll_InvU : forall ops s, SAll InvU s ->
  SAll InvU (fold_left (fun s o => fst (sstep s o)) ops s).
Proof.
  induction ops as [|o ops IH]; simpl; intros s A; [exact A|].
  apply IH. apply sstep_SAll_InvU. exact A.
Qed.

Theorem uri_preserved : forall ops t q,
  let s := srun ops in
  forall m, get_mgr s t = Some m ->
  exists q', snd (sstep s (OResolve t (NQn q))) = ObQn (Some q') /\ qn_uri q' = qn_uri q.
Proof.
  intros ops t q s m G.
  assert (A : SAll InvU s).
  { apply srun_from_SAll_InvU. apply SAll_init. apply InvU_init. }
  simpl. rewrite G. simpl.
  destruct (resolve_qn m q) as [[m' q']|] eqn:E.
  - simpl. exists q'. split; [reflexivity|]. eapply resolve_qn_uri; eauto.
  - exfalso. unfold resolve_qn in E.
    assert (AN : forall n, add_namespace m n <> None).
    { intros n. unfold add_namespace.
      destruct (in_values n (tbl m)); [discriminate|].
      destruct (ren_lookup n (renmap m)); [discriminate|].
      destruct (lookup (ns_uri n) (urimap m)); [discriminate|].
      destruct (mem (ns_prefix n) (tbl m)); [|discriminate].
      pose proof (unused_prefix_fuel (ns_prefix n) (tbl m)) as F.
      destruct (get_unused_prefix (ns_prefix n) (tbl m)); [discriminate | contradiction]. }
    destruct (ns_prefix (qn_ns q)) as [|c p].
    + destruct (dflt m) as [d|]; [|discriminate].
      destruct (ns_eqb d (qn_ns q)); [discriminate|].
      destruct (add_namespace m (mkNs "dn" (ns_uri (qn_ns q)))) as [[? ?]|] eqn:EA; [discriminate|].
      eapply AN; eauto.
    + destruct (lookup (String c p) (tbl m)) as [e|].
      * destruct (ns_eqb e (qn_ns q)); [discriminate|].
        destruct (add_namespace m (mkNs (String c p) (ns_uri (qn_ns q)))) as [[? ?]|] eqn:EA; [discriminate|].
        eapply AN; eauto.
      * destruct (add_namespace m (mkNs (String c p) (ns_uri (qn_ns q)))) as [[? ?]|] eqn:EA; [discriminate|].
        eapply AN; eauto.
Qed.

(* ------------------------------------------------------------------ C03b over histories *)
Theorem prefix_stable : forall s o t m p v,
  get_mgr s t = Some m -> p <> "" -> lookup p (tbl m) = Some v ->
  exists m', get_mgr (fst (sstep s o)) t = Some m' /\ lookup p (tbl m') = Some v.
Proof.
  intros s o t m p v G NP L.
  assert (KEEP : exists m', get_mgr s t = Some m' /\ lookup p (tbl m') = Some v) by eauto.
  assert (SET : forall t0 m0 m1, get_mgr s t0 = Some m0 ->
            (forall p v, p <> "" -> lookup p (tbl m0) = Some v -> lookup p (tbl m1) = Some v) ->
            exists m', get_mgr (set_mgr s t0 m1) t = Some m' /\ lookup p (tbl m') = Some v).
  { intros t0 m0 m1 G0 S. destruct (option_nat_dec t0 t) as [->|N].
    - rewrite (get_set_same _ _ _ _ G0). exists m1. split; [reflexivity|].
      rewrite G in G0. inversion G0; subst. apply S; assumption.
    - rewrite get_set_other by exact N. exact KEEP. }
  destruct o as [t0 p0 u|t0 u|t0 x|]; simpl.
  - destruct (get_mgr s t0) as [m0|] eqn:G0; [|exact KEEP].
    destruct (uri_ok u); [|exact KEEP].
    destruct (add_namespace m0 (mkNs p0 u)) as [[m1 n]|] eqn:E; [|exact KEEP]. simpl.
    eapply SET; eauto. intros. eapply add_namespace_tbl_stable; eauto.
  - destruct (get_mgr s t0) as [m0|] eqn:G0; [|exact KEEP].
    destruct (uri_ok u); [|exact KEEP]. simpl.
    eapply SET; eauto. intros p1 v1 N1 L1. rewrite set_default_tbl_stable; assumption.
  - destruct (get_mgr s t0) as [m0|] eqn:G0; [|exact KEEP].
    destruct (resolve (parent_of s t0) m0 x) as [[m1 r]|e|] eqn:E; try exact KEEP. simpl.
    eapply SET; eauto. intros. eapply resolve_tbl_stable; eauto.
  - destruct t as [i|]; simpl in *.
    + exists m. split; [|exact L]. rewrite nth_error_app1; [exact G|].
      apply nth_error_Some. congruence.
    + eauto.
Qed.

(* ------------------------------------------------------------------ C03c over histories *)
(* the usage discipline of the property, plus: namespaces are registered under
   non-empty prefixes (default namespaces go through set_default_namespace) *)
Definition ok_op (s : scope) (o : nsop) : Prop :=
  match o with
  | OAddNs t p u => p <> ""
  | OSetDefault t u =>
      forall m, get_mgr s t = Some m -> dflt m = None \/ dflt m = Some (mkNs "" u)
  | _ => True
  end.

Fixpoint good (s : scope) (ops : list nsop) : Prop :=
  match ops with
  | [] => True
  | o :: r => ok_op s o /\ good (fst (sstep s o)) r
  end.

(* a name the container [t] can have handed out: bound by its own manager, or (for
   a bundle) bound by the document's manager *)
Definition Handed (s : scope) (t : option nat) (q : qname) : Prop :=
  exists m, get_mgr s t = Some m /\ (Bound m q \/ (t <> None /\ Bound (sdoc s) q)).

Definition no_capture (s : scope) (t : option nat) (q : qname) : Prop :=
  forall m, get_mgr s t = Some m ->
    Bound m q \/ resolve_str1 m (qn_str q) false = SParent.

Lemma Bound_stable : forall m m' q,
  (forall p v, p <> "" -> lookup p (tbl m) = Some v -> lookup p (tbl m') = Some v) ->
  (forall d, dflt m = Some d -> dflt m' = Some d) ->
  Bound m q -> Bound m' q.
Proof.
  intros m m' q S D [[E B]|[N L]].
  - left. split; [exact E | apply D; exact B].
  - right. split; [exact N | apply S; assumption].
Qed.

Lemma add_namespace_dflt : forall m n m' r, add_namespace m n = Some (m', r) -> dflt m' = dflt m.
Proof.
  intros m n m' r H. unfold add_namespace in H.
  destruct (in_values n (tbl m)); [inversion H; reflexivity|].
  destruct (ren_lookup n (renmap m)); [inversion H; reflexivity|].
  destruct (lookup (ns_uri n) (urimap m)); [inversion H; reflexivity|].
  destruct (mem (ns_prefix n) (tbl m)).
  - destruct (get_unused_prefix (ns_prefix n) (tbl m)); [|discriminate]. inversion H; reflexivity.
  - inversion H; reflexivity.
Qed.

Lemma resolve_dflt_stable : forall par m x m' r,
  resolve par m x = OK (m', r) -> forall d, dflt m = Some d -> dflt m' = Some d.
Proof.
  intros par m x m' r H d D. destruct x as [q|s|u]; simpl in H.
  - destruct (resolve_qn m q) as [[m2 q2]|] eqn:E; [|discriminate]. inversion H; subst; clear H.
    unfold resolve_qn in E. destruct (ns_prefix (qn_ns q)).
    + rewrite D in E. destruct (ns_eqb d (qn_ns q)); [inversion E; subst; exact D|].
      destruct (add_namespace m _) as [[m3 n3]|] eqn:EA; [|discriminate].
      inversion E; subst. rewrite (add_namespace_dflt _ _ _ _ EA). exact D.
    + destruct (lookup _ (tbl m)) as [e|].
      * destruct (ns_eqb e (qn_ns q)); [inversion E; subst; exact D|].
        destruct (add_namespace m _) as [[m3 n3]|] eqn:EA; [|discriminate].
        inversion E; subst. rewrite (add_namespace_dflt _ _ _ _ EA). exact D.
      * destruct (add_namespace m _) as [[m3 n3]|] eqn:EA; [|discriminate].
        inversion E; subst. rewrite (add_namespace_dflt _ _ _ _ EA). exact D.
  - destruct s; [inversion H; subst; exact D|].
    unfold bind in H. destruct (resolve_str par m _ false); inversion H; subst; exact D.
  - unfold bind in H. destruct (resolve_str par m u true); inversion H; subst; exact D.
Qed.

Lemma resolve_InvB : forall par m x m' r,
  InvB m -> resolve par m x = OK (m', r) -> InvB m'.
Proof.
  intros par m x m' r I H. destruct x as [q|s|u]; simpl in H.
  - destruct (resolve_qn m q) as [[m2 q2]|] eqn:E; [|discriminate].
    inversion H; subst. eapply resolve_qn_InvB; eauto.
  - destruct s; [inversion H; subst; exact I|].
    unfold bind in H. destruct (resolve_str par m _ false); inversion H; subst; exact I.
  - unfold bind in H. destruct (resolve_str par m u true); inversion H; subst; exact I.
Qed.

(* one step: invariant and every handed-out name are kept *)
Lemma sstep_good : forall s o,
  SAll InvB s -> ok_op s o ->
  SAll InvB (fst (sstep s o)) /\
  (forall t m, get_mgr s t = Some m ->
     exists m', get_mgr (fst (sstep s o)) t = Some m' /\
                forall q, Bound m q -> Bound m' q).
Proof.
  intros s o A OKO.
  assert (KEEP : forall t m, get_mgr s t = Some m ->
                   exists m', get_mgr s t = Some m' /\ forall q, Bound m q -> Bound m' q) by eauto.
  assert (SET : forall t0 m0 m1, get_mgr s t0 = Some m0 ->
            (forall q, Bound m0 q -> Bound m1 q) ->
            forall t m, get_mgr s t = Some m ->
            exists m', get_mgr (set_mgr s t0 m1) t = Some m' /\ forall q, Bound m q -> Bound m' q).
  { intros t0 m0 m1 G0 S t m G. destruct (option_nat_dec t0 t) as [->|N].
    - rewrite (get_set_same _ _ _ _ G0). exists m1. split; [reflexivity|].
      rewrite G in G0. inversion G0; subst. exact S.
    - rewrite get_set_other by exact N. eauto. }
  destruct o as [t0 p0 u|t0 u|t0 x|]; simpl.
  - destruct (get_mgr s t0) as [m0|] eqn:G0; [|split; assumption].
    destruct (uri_ok u); [|split; assumption].
    destruct (add_namespace m0 (mkNs p0 u)) as [[m1 n]|] eqn:E; [|split; assumption]. simpl.
    simpl in OKO. split.
    + apply SAll_set; [exact A|].
      destruct (add_namespace_InvB m0 (mkNs p0 u) m1 n (A _ _ G0) OKO E) as [X _]. exact X.
    + eapply SET; eauto. intros q. apply Bound_stable.
      * intros. eapply add_namespace_tbl_stable; eauto.
      * intros d D. rewrite (add_namespace_dflt _ _ _ _ E). exact D.
  - destruct (get_mgr s t0) as [m0|] eqn:G0; [|split; assumption].
    destruct (uri_ok u); [|split; assumption]. simpl. split.
    + apply SAll_set; [exact A|]. apply set_default_InvB. eauto.
    + eapply SET; eauto. intros q. apply Bound_stable.
      * intros p1 v1 N1 L1. rewrite set_default_tbl_stable; assumption.
      * intros d D. simpl in OKO. destruct (OKO _ G0) as [X|X]; simpl; congruence.
  - destruct (get_mgr s t0) as [m0|] eqn:G0; [|split; assumption].
    destruct (resolve (parent_of s t0) m0 x) as [[m1 r]|e|] eqn:E; try (split; assumption). simpl. split.
    + apply SAll_set; [exact A|]. eapply resolve_InvB; eauto.
    + eapply SET; eauto. intros q. apply Bound_stable.
      * intros. eapply resolve_tbl_stable; eauto.
      * eapply resolve_dflt_stable; eauto.
  - split.
    + apply SAll_newbundle; [exact A | apply InvB_init].
    + intros [i|] m G; simpl in *.
      * exists m. split; [|auto]. rewrite nth_error_app1; [exact G|]. apply nth_error_Some. congruence.
      * eauto.
Qed.

Lemma Handed_step : forall s o t q,
  SAll InvB s -> ok_op s o -> Handed s t q -> Handed (fst (sstep s o)) t q.
Proof.
  intros s o t q A OKO [m [G H]].
  destruct (sstep_good s o A OKO) as [_ K].
  destruct (K _ _ G) as [m' [G' B']].
  exists m'. split; [exact G'|].
  destruct H as [H|[NT H]]; [left; auto|].
  right. split; [exact NT|].
  destruct (K None (sdoc s) eq_refl) as [md [Gd Bd]]. simpl in Gd. inversion Gd; subst. auto.
Qed.

Lemma good_fold : forall ops s t q,
  SAll InvB s -> good s ops -> Handed s t q ->
  let s' := fold_left (fun s o => fst (sstep s o)) ops s in
  SAll InvB s' /\ Handed s' t q.
Proof.
  induction ops as [|o ops IH]; simpl; intros s t q A G H; [split; assumption|].
  destruct G as [OKO G]. apply IH.
  - apply sstep_good; assumption.
  - exact G.
  - apply Handed_step; assumption.
Qed.

Lemma good_fold_inv : forall ops s,
  SAll InvB s -> good s ops -> SAll InvB (fold_left (fun s o => fst (sstep s o)) ops s).
Proof.
  induction ops as [|o ops IH]; simpl; intros s A G; [exact A|].
  destruct G as [OKO G]. apply IH; [apply sstep_good; assumption | exact G].
Qed.

Lemma good_app : forall a b s, good s (a ++ b) ->
  good s a /\ good (fold_left (fun s o => fst (sstep s o)) a s) b.
Proof.
  induction a as [|o a IH]; simpl; intros b s G; [split; [exact I | exact G]|].
  destruct G as [OKO G]. apply IH in G. tauto.
Qed.

(* hand-out: what a successful resolution returns is Handed in the new state *)
Lemma resolve_hands_out : forall s t x s' q,
  SAll InvB s -> sstep s (OResolve t x) = (s', ObQn (Some q)) -> Handed s' t q.
Proof.
  intros s t x s' q A H. simpl in H.
  destruct (get_mgr s t) as [m|] eqn:G; [|inversion H].
  pose proof (A _ _ G) as I.
  destruct (resolve (parent_of s t) m x) as [[m' r]|e|] eqn:E; inversion H; subst; clear H.
  exists m'. split; [eapply get_set_same; eauto|].
  destruct x as [qq|str|u]; simpl in E.
  - destruct (resolve_qn m qq) as [[m2 q2]|] eqn:EQ; [|discriminate].
    inversion E; subst. left. eapply resolve_qn_InvB; eauto.
  - destruct str as [|c str]; [inversion E|].
    unfold bind in E.
    destruct (resolve_str (parent_of s t) m (String c str) false) as [r|e|] eqn:ER; inversion E; subst; clear E.
    unfold resolve_str in ER.
    destruct (resolve_str1 m' (String c str) false) eqn:E1; inversion ER; subst.
    + left. eapply resolve_str1_Bound; eauto.
    + destruct t as [i|]; simpl in ER; [|inversion ER].
      destruct (resolve_str1 (sdoc s) (String c str) false) eqn:E2; inversion ER; subst.
      right. split; [discriminate|]. simpl.
      eapply resolve_str1_Bound; [apply (A None); reflexivity | eauto].
  - unfold bind in E.
    destruct (resolve_str (parent_of s t) m u true) as [r|e|] eqn:ER; inversion E; subst; clear E.
    unfold resolve_str in ER.
    destruct (resolve_str1 m' u true) eqn:E1; inversion ER; subst.
    + left. eapply resolve_str1_Bound; eauto.
    + destruct t as [i|]; simpl in ER; [|inversion ER].
      destruct (resolve_str1 (sdoc s) u true) eqn:E2; inversion ER; subst.
      right. split; [discriminate|]. simpl.
      eapply resolve_str1_Bound; [apply (A None); reflexivity | eauto].
Qed.

Lemma Handed_reresolve : forall s t q,
  Handed s t q -> printable q -> no_capture s t q ->
  exists q', snd (sstep s (OResolve t (NStr (qn_str q)))) = ObQn (Some q') /\ qn_uri q' = qn_uri q.
Proof.
  intros s t q [m [G H]] P NC. simpl. rewrite G.
  pose proof (qn_str_nonempty _ P) as NE.
  destruct (qn_str q) as [|c str] eqn:ES; [contradiction|]. simpl.
  unfold resolve_str.
  assert (OWN : Bound m q ->
    exists q', snd (match bind (match resolve_str1 m (String c str) false with
                                 | SFound q0 => OK (Some q0) | SNone => OK None
                                 | STypeError => Raise EType
                                 | SParent => match parent_of s t with
                                              | None => OK None
                                              | Some pm => match resolve_str1 pm (String c str) false with
                                                           | SFound q0 => OK (Some q0) | SNone => OK None
                                                           | STypeError => Raise EType | SParent => OK None end end
                                 end) (fun r => OK (m, r)) with
                     | OK (m', r) => (set_mgr s t m', ObQn r)
                     | Raise e => (s, ObRaise e)
                     | OutOfDomain => (s, ObOutOfDomain) end) = ObQn (Some q') /\ qn_uri q' = qn_uri q).
  { intros B. pose proof (Bound_reresolve _ _ B P) as R. rewrite ES in R. rewrite R. simpl.
    eexists. split; [reflexivity|]. reflexivity. }
  destruct H as [B|[NT B]]; [apply OWN; exact B|].
  destruct (NC _ G) as [B'|SP]; [apply OWN; exact B'|].
  rewrite ES in SP. rewrite SP.
  destruct t as [i|]; [|contradiction]. simpl.
  pose proof (Bound_reresolve _ _ B P) as R. rewrite ES in R. rewrite R. simpl.
  eexists. split; reflexivity.
Qed.

Theorem handed_out_stable : forall ops1 t x q ops2,
  good scope_init (ops1 ++ OResolve t x :: ops2) ->
  snd (sstep (srun ops1) (OResolve t x)) = ObQn (Some q) ->
  printable q ->
  let s := srun (ops1 ++ OResolve t x :: ops2) in
  no_capture s t q ->
  exists q', snd (sstep s (OResolve t (NStr (qn_str q)))) = ObQn (Some q') /\ qn_uri q' = qn_uri q.
Proof.
  intros ops1 t x q ops2 G H P s NC.
  apply good_app in G. destruct G as [G1 G2]. cbn [good] in G2. destruct G2 as [_ G2].
  assert (A0 : SAll InvB scope_init) by (apply SAll_init; apply InvB_init).
  pose proof (good_fold_inv _ _ A0 G1) as A1. fold (srun ops1) in A1, G2.
  destruct (sstep (srun ops1) (OResolve t x)) as [s1 ob] eqn:E1. cbn [fst snd] in H, G2. subst ob.
  pose proof (resolve_hands_out _ _ _ _ _ A1 E1) as H1.
  assert (A2 : SAll InvB s1).
  { replace s1 with (fst (sstep (srun ops1) (OResolve t x))) by (rewrite E1; reflexivity).
    apply sstep_good; [exact A1 | exact I]. }
  destruct (good_fold _ _ _ _ A2 G2 H1) as [A3 H3].
  assert (ES : s = fold_left (fun s o => fst (sstep s o)) ops2 s1).
  { unfold s. unfold srun at 1. rewrite fold_left_app. cbn [fold_left].
    change (fold_left (fun s o => fst (sstep s o)) ops1 scope_init) with (srun ops1).
    rewrite E1. reflexivity. }
  rewrite ES in *. apply Handed_reresolve; assumption.
Qed.

Definition no_captureb (s : scope) (t : option nat) (q : qname) : bool :=
  match get_mgr s t with
  | None => true
  | Some m => match resolve_str1 m (qn_str q) false with SParent => true | _ => false end
  end.

Lemma no_captureb_ok : forall s t q, no_captureb s t q = true -> no_capture s t q.
Proof.
  unfold no_captureb, no_capture. intros s t q H m G. rewrite G in H.
  destruct (resolve_str1 m (qn_str q) false); try discriminate. right; reflexivity.
Qed.

(* a decidable version of the discipline, for examples *)
Definition ok_opb (s : scope) (o : nsop) : bool :=
  match o with
  | OAddNs t p u => negb (String.eqb p "")
  | OSetDefault t u =>
      match get_mgr s t with
      | None => true
      | Some m => match dflt m with None => true | Some d => ns_eqb d (mkNs "" u) end
      end
  | _ => true
  end.

Fixpoint goodb (s : scope) (ops : list nsop) : bool :=
  match ops with
  | [] => true
  | o :: r => ok_opb s o && goodb (fst (sstep s o)) r
  end.

Lemma ok_opb_ok : forall s o, ok_opb s o = true -> ok_op s o.
Proof.
  intros s [t p u|t u|t x|]; cbn [ok_opb ok_op]; intros H; try exact I.
  - apply negb_true_iff in H. apply String.eqb_neq in H. exact H.
  - intros m G. rewrite G in H. destruct (dflt m) as [d|]; [|left; reflexivity].
    apply ns_eqb_eq in H. right. congruence.
Qed.

Lemma goodb_good : forall ops s, goodb s ops = true -> good s ops.
Proof.
  induction ops as [|o ops IH]; cbn [goodb good]; intros s H; [exact I|].
  apply andb_true_iff in H. destruct H as [H1 H2].
  split; [apply ok_opb_ok; exact H1 | apply IH; exact H2].
Qed.
