(* NormalWorld.v — single-valuedness of formal attributes as an invariant of worlds.
   SingleProofs.v shows that add_attributes keeps NormalE (every formal attribute other than prov:entity holds at most
   one value, of the kind it demands; every prov:entity value is a qualified name) whatever the call names and however
   it ends.  Here the invariant is carried through the whole interpreter: every record of every container of every
   document, after any sequence of calls — those C05 quantifies over (new_record, the typed factories and element
   methods, add_attributes, set_time, add_asserted_type) and every other one (namespace calls, bundles, reading and
   exporting calls, add_record, update, flattened, unified, a document from records, add_bundle of a document, the
   graph round trip, PROV-JSON deserialisation): every record any of them builds goes through new_record. *)
From Coq Require Import String List Arith ZArith Bool.
From Prov Require Import Str Sexp Tables Nsm NsmProofs Scope Values Record RecordProofs SingleProofs World WorldProofs Derive Jtree Json Interp InterpProofs.
Import ListNotations.
Open Scope string_scope.

Definition BNormal (b : bundle) : Prop := Forall NormalE (brecs b).
Definition DNormal (dd : doc) : Prop := BNormal (dmain dd) /\ Forall (fun kb => BNormal (snd kb)) (dbundles dd).
Definition WNormal (w : world) : Prop := Forall DNormal (wdocs w).

Lemma NormalE_empty : forall k i, NormalE (mkRec k i []).
Proof. intros. exact NormalE_nil. Qed.

Lemma BNormal_init : forall i, BNormal (bundle_init i).
Proof. intros. constructor. Qed.

Lemma DNormal_init : DNormal doc_init.
Proof. split; constructor. Qed.

(* ---- containers *)
Lemma new_record_BNormal : forall par ft b k i attrs b' x,
  BNormal b -> new_record par ft b k i attrs = (b', x) -> BNormal b'.
Proof.
  intros par ft b k i attrs b' x G H. unfold new_record in H.
  destruct (match i with None => Done (bns b) None | Some y => resolve_o (mkCtx par ft) (bns b) y end) as [m1 idq|m1 e|];
    try (inversion H; subst; exact G).
  destruct (new_prec (mkCtx par ft) m1 k idq attrs) as [m2 r2|m2 e|] eqn:EN; inversion H; subst; try exact G.
  unfold BNormal, add_rec_to, with_ns. cbn [brecs]. apply Forall_app. split; [exact G|].
  constructor; [|constructor]. eapply new_prec_normalE; exact EN.
Qed.

Lemma add_record_BNormal : forall par ft b r b' x, BNormal b -> add_record par ft b r = (b', x) -> BNormal b'.
Proof.
  intros par ft b r b' x G H. unfold add_record in H. destruct (negb (formal_single r)).
  - inversion H; subst. exact G.
  - eapply new_record_BNormal; eauto.
Qed.

Lemma add_records_BNormal : forall par ft rs b b' x, BNormal b -> add_records par ft b rs = (b', x) -> BNormal b'.
Proof.
  induction rs as [|r rs IH]; intros b b' x G H; cbn [add_records] in H.
  - inversion H; subst. exact G.
  - destruct (add_record par ft b r) as [b1 [y|e|]] eqn:E;
      pose proof (add_record_BNormal _ _ _ _ _ _ G E) as G1.
    + eapply IH; eauto.
    + inversion H; subst. exact G1.
    + inversion H; subst. exact G1.
Qed.

Lemma new_record_ok_in' : forall par ft b k i attrs b' r,
  new_record par ft b k i attrs = (b', OK r) -> In r (brecs b').
Proof.
  intros par ft b k i attrs b' r H. unfold new_record in H.
  destruct (match i with None => Done (bns b) None | Some y => resolve_o (mkCtx par ft) (bns b) y end) as [m1 idq|m1 e|];
    try discriminate.
  destruct (new_prec (mkCtx par ft) m1 k idq attrs) as [m2 r2|m2 e|]; inversion H; subst.
  unfold add_rec_to. cbn [brecs]. apply in_or_app. right. left. reflexivity.
Qed.

Lemma factory_call_BNormal : forall par ft b f i args other b' x,
  BNormal b -> factory_call par ft b f i args other = (b', x) -> BNormal b'.
Proof.
  intros par ft b f i args other b' x G H. unfold factory_call in H.
  destruct (factory_entry f) as [[[[f0 k] params] asserted]|]; [|inversion H; subst; exact G].
  destruct (factory_args (bns b) params args) as [m0 fa|m0 e|]; try (inversion H; subst; exact G).
  destruct (new_record par ft b k i (fa ++ other)%list) as [b1 [r|e|]] eqn:EN;
    pose proof (new_record_BNormal _ _ _ _ _ _ _ _ G EN) as G1; try (inversion H; subst; exact G1).
  destruct asserted as [ty|]; [|inversion H; subst; exact G1].
  assert (Gr : NormalE r).
  { unfold BNormal in G1. rewrite Forall_forall in G1. apply G1. exact (new_record_ok_in' _ _ _ _ _ _ _ _ EN). }
  pose proof (add_attributes_normalE (mkCtx par ft) (bns b1) r [(NQn (prov_qn "type"), AQn (prov_qn ty))] Gr) as X.
  destruct (add_attributes (mkCtx par ft) (bns b1) r [(NQn (prov_qn "type"), AQn (prov_qn ty))]) as [m2 r2|m2 r2 e|];
    inversion H; subst; try exact G1; unfold BNormal; cbn [brecs]; apply Forall_set_nth; try exact G1; exact X.
Qed.

Lemma BNormal_upd : forall b i m r, BNormal b -> NormalE r -> BNormal (upd_rec b i m r).
Proof. intros b i m r B G. unfold BNormal, upd_rec. cbn [brecs]. apply Forall_set_nth; assumption. Qed.

Lemma BNormal_with_ns : forall b m, BNormal b -> BNormal (with_ns b m).
Proof. intros b m B. exact B. Qed.

Lemma BNormal_nth : forall b i r, BNormal b -> nth_error (brecs b) i = Some r -> NormalE r.
Proof. intros b i r B H. unfold BNormal in B. rewrite Forall_forall in B. apply B. eapply nth_error_In; eauto. Qed.

(* set_time: one datetime under prov:startTime / prov:endTime *)
Lemma ensure_datetime_time' : forall m a m' v, ensure_datetime m a = Done m' (Some v) -> is_time v.
Proof.
  intros m a m' v H. unfold ensure_datetime in H.
  destruct a; try (inversion H; subst; exact I; fail); try (inversion H; fail).
  destruct (parse_datetime s); inversion H; subst; exact I.
Qed.

Lemma NormalE_put_time : forall d l v, NormalE_D d -> In l ["startTime"; "endTime"] -> is_time v ->
  NormalE_D (attr_put (prov_qn l) [v] d).
Proof.
  intros d l v N Hl Tv a Fa. rewrite attr_get_put.
  destruct (qn_eqb a (prov_qn l)) eqn:EQ; [|apply N; exact Fa].
  assert (E : is_prov_name "entity" a = false).
  { rewrite (is_entity_eqb _ _ EQ). destruct Hl as [<-|[<-|[]]]; reflexivity. }
  rewrite E. eapply typed_transfer; [exact EQ|].
  destruct Hl as [<-|[<-|[]]]; (split; intro X; [vm_compute in X; discriminate | exact Tv]).
Qed.

(* ---- documents and worlds *)
Lemma doc_new_bundle_DNormal : forall dd x ft dd' r, DNormal dd -> doc_new_bundle dd x ft = (dd', r) -> DNormal dd'.
Proof.
  intros dd x ft dd' r [M B] H. unfold doc_new_bundle in H. destruct x as [n|]; [|inversion H; subst; split; assumption].
  destruct (resolve None (bns (dmain dd)) n) as [[m [q|]]|e|]; try (inversion H; subst; split; assumption).
  destruct (mem (qn_uri q) (dbundles dd)); inversion H; subst; split; cbn; try exact M; try exact B.
  apply Forall_app. split; [exact B|]. constructor; [apply BNormal_init | constructor].
Qed.

Lemma WNormal_get_doc : forall w d dd, WNormal w -> get_doc w d = Some dd -> DNormal dd.
Proof. intros w d dd W G. unfold WNormal in W. rewrite Forall_forall in W. apply W. eapply nth_error_In; eauto. Qed.

Lemma WNormal_get_cont : forall w c b, WNormal w -> get_cont w c = Some b -> BNormal b.
Proof.
  intros w c b W G. destruct c as [d|d i]; cbn [get_cont] in G.
  - destruct (get_doc w d) as [dd|] eqn:E; [|discriminate]. inversion G; subst.
    apply (WNormal_get_doc _ _ _ W E).
  - destruct (get_doc w d) as [dd|] eqn:E; [|discriminate].
    destruct (nth_error (dbundles dd) i) as [[k bb]|] eqn:E2; [|discriminate]. inversion G; subst.
    destruct (WNormal_get_doc _ _ _ W E) as [_ F]. rewrite Forall_forall in F.
    apply (F (k, b)). eapply nth_error_In; eauto.
Qed.

Lemma WNormal_get_rec : forall w r p, WNormal w -> get_rec w r = Some p -> NormalE p.
Proof.
  intros w [c i] p W G. unfold get_rec in G. destruct (get_cont w c) as [b|] eqn:E; [|discriminate].
  eapply BNormal_nth; [eapply WNormal_get_cont; eauto | exact G].
Qed.

Lemma WNormal_set_doc : forall w d dd, WNormal w -> DNormal dd -> WNormal (set_doc w d dd).
Proof. intros. unfold WNormal, set_doc; cbn. apply Forall_set_nth; assumption. Qed.

Lemma WNormal_set_cont : forall w c b, WNormal w -> BNormal b -> WNormal (set_cont w c b).
Proof.
  intros w c b W C. unfold set_cont. destruct c as [d|d i].
  - destruct (get_doc w d) as [dd|] eqn:E; [|exact W].
    apply WNormal_set_doc; [exact W|]. destruct (WNormal_get_doc _ _ _ W E) as [_ F]. split; assumption.
  - destruct (get_doc w d) as [dd|] eqn:E; [|exact W].
    destruct (nth_error (dbundles dd) i) as [[k bb]|] eqn:E2; [|exact W].
    apply WNormal_set_doc; [exact W|]. destruct (WNormal_get_doc _ _ _ W E) as [M F].
    split; [exact M|]. apply Forall_set_nth; [exact F | exact C].
Qed.

Lemma WNormal_app : forall w nd ft, WNormal w -> DNormal nd -> WNormal (mkW (wdocs w ++ [nd])%list ft).
Proof. intros. unfold WNormal; cbn. apply Forall_app. split; [assumption | constructor; [assumption|constructor]]. Qed.

Lemma DNormal_main : forall b, BNormal b -> DNormal (mkD b []).
Proof. intros b B. split; [exact B | constructor]. Qed.

Lemma graph_to_prov_DNormal : forall ft g nd, graph_to_prov ft g = OK nd -> DNormal nd.
Proof.
  intros ft g nd H. unfold graph_to_prov in H.
  destruct (add_records None ft (bundle_init None) _) as [b [y|e|]] eqn:EA; try discriminate.
  inversion H; subst. apply DNormal_main. exact (add_records_BNormal _ _ _ _ _ _ (BNormal_init None) EA).
Qed.

Lemma DNormal_attach : forall dd q m b, DNormal dd -> BNormal b ->
  DNormal (mkD (dmain dd) (dbundles dd ++ [(qn_uri q, mkB (Some q) m (brecs b) (bidmap b))])%list).
Proof.
  intros dd q m b [M B] G. split; [exact M|]. cbn. apply Forall_app. split; [exact B|].
  constructor; [exact G | constructor].
Qed.


(* ---- update between documents, unified, deserialisation: every record they build goes through new_record *)
Lemma nth_error_Forall_n : forall (l : list (string * bundle)) i k b,
  Forall (fun kb => BNormal (snd kb)) l -> nth_error l i = Some (k, b) -> BNormal b.
Proof. intros l i k b F H. rewrite Forall_forall in F. exact (F (k, b) (nth_error_In _ _ H)). Qed.

Lemma merge_bundles_DNormal : forall ft bs dd dd' r,
  DNormal dd -> merge_bundles ft dd bs = (dd', r) -> DNormal dd'.
Proof.
  induction bs as [|[k sb] bs IH]; intros dd dd' r D H; cbn [merge_bundles] in H.
  - inversion H; subst. exact D.
  - destruct sb as [[sid|] sm srecs sidmap]; [|inversion H; subst; exact D].
    cbv zeta in H.
    set (step1 := match find (fun ib => String.eqb (fst (snd ib)) (qn_uri sid))
                             (combine (seq 0 (length (dbundles dd))) (dbundles dd)) with
                  | Some (i, _) => (dd, OK i)
                  | None => match doc_new_bundle dd (Some (NQn sid)) ft with
                            | (dd1, OK _) => (dd1, OK (length (dbundles dd1) - 1))
                            | (dd1, Raise e) => (dd1, Raise e)
                            | (dd1, OutOfDomain) => (dd1, OutOfDomain)
                            end
                  end) in *.
    assert (S1 : DNormal (fst step1)).
    { unfold step1. destruct (find _ _) as [[i x]|]; [assumption|].
      destruct (doc_new_bundle dd (Some (NQn sid)) ft) as [dd1 [y|e|]] eqn:EN; cbn [fst];
        exact (doc_new_bundle_DNormal _ _ _ _ _ D EN). }
    destruct step1 as [dd1 [i|e|]]; cbn [fst] in S1; try (inversion H; subst; exact S1).
    destruct (nth_error (dbundles dd1) i) as [[k1 tb]|] eqn:EN; [|inversion H; subst; exact S1].
    destruct S1 as [M1 B1].
    pose proof (nth_error_Forall_n _ _ _ _ B1 EN) as GTB.
    destruct (add_records (Some (bns (dmain dd1))) ft tb srecs) as [tb' [y|e|]] eqn:EA;
      pose proof (add_records_BNormal _ _ _ _ _ _ GTB EA) as GT.
    + eapply IH; [|exact H]. split; cbn; [exact M1 | apply Forall_set_nth; assumption].
    + inversion H; subst. split; cbn; [exact M1 | apply Forall_set_nth; assumption].
    + inversion H; subst. split; assumption.
Qed.

Lemma bundle_unified_BNormal : forall ft b nb, bundle_unified ft b = OK nb -> BNormal nb.
Proof.
  intros ft b nb H. unfold bundle_unified in H. destruct (unified_records ft b) as [u|e|]; try discriminate.
  destruct (add_records None ft (bundle_init (bid b)) u) as [nb' [y|e|]] eqn:EA; try discriminate.
  inversion H; subst. exact (add_records_BNormal _ _ _ _ _ _ (BNormal_init _) EA).
Qed.

Lemma attach_bundle_DNormal : forall dd b dd' r, DNormal dd -> BNormal b -> attach_bundle dd b = (dd', r) -> DNormal dd'.
Proof.
  intros dd b dd' r [M B] Gb H. unfold attach_bundle in H. destruct (bid b) as [i|]; [|inversion H; subst; split; assumption].
  destruct (resolve (Some (bns (dmain dd))) (bns b) (NQn i)) as [[m [q|]]|e|]; try (inversion H; subst; split; assumption).
  destruct (mem (qn_uri q) (dbundles dd)); inversion H; subst; split; cbn; try assumption.
  apply Forall_app. split; [exact B|]. constructor; [exact Gb | constructor].
Qed.

Lemma unify_bundles_DNormal : forall ft bs nd nd', DNormal nd -> unify_bundles ft bs nd = OK nd' -> DNormal nd'.
Proof.
  induction bs as [|[k b] bs IH]; intros nd nd' D H; cbn [unify_bundles] in H.
  - inversion H; subst. exact D.
  - destruct (bundle_unified ft b) as [nb|e|] eqn:EU; try discriminate.
    destruct (attach_bundle nd nb) as [nd1 [y|e|]] eqn:EA; try discriminate.
    eapply IH; [|exact H]. exact (attach_bundle_DNormal _ _ _ _ D (bundle_unified_BNormal _ _ _ EU) EA).
Qed.

Lemma doc_unified_DNormal : forall ft dd nd, doc_unified ft dd = OK nd -> DNormal nd.
Proof.
  intros ft dd nd H. unfold doc_unified in H.
  destruct (add_namespaces nsm_init (map snd (regd (bns (dmain dd))))) as [m0|] eqn:EN; [|discriminate].
  destruct (unified_records ft (dmain dd)) as [u|e|]; try discriminate.
  set (m1 := match dflt (bns (dmain dd)) with Some dn => set_default m0 (ns_uri dn) | None => m0 end) in *.
  destruct (add_records None ft (mkB None m1 [] []) u) as [nmain [y|e|]] eqn:EA; try discriminate.
  eapply unify_bundles_DNormal; [|exact H]. split; [|constructor].
  refine (add_records_BNormal None ft u (mkB None m1 [] []) nmain (OK y) _ EA). constructor.
Qed.

Lemma add_members_BNormal : forall par ft ms b coll b' r,
  BNormal b -> add_members par ft b coll ms = (b', r) -> BNormal b'.
Proof.
  induction ms as [|mv ms IH]; intros b coll b' r C H; cbn [add_members] in H.
  - inversion H; subst; exact C.
  - destruct (vqn par (bns b) mv) as [q|e|]; try (inversion H; subst; exact C).
    destruct (factory_call par ft b "membership" None _ []) as [b1 [y|e|]] eqn:E;
      pose proof (factory_call_BNormal _ _ _ _ _ _ _ _ _ C E) as C1.
    + eapply IH; eauto.
    + inversion H; subst. exact C1.
    + inversion H; subst. exact C1.
Qed.

Lemma decode_elements_BNormal : forall par ft kind rec_id els b b' r,
  BNormal b -> decode_elements par ft b kind rec_id els = (b', r) -> BNormal b'.
Proof.
  induction els as [|e els IH]; intros b b' r C H; cbn [decode_elements] in H.
  - inversion H; subst; exact C.
  - destruct e as [ | | | | | |members]; try (inversion H; subst; exact C).
    destruct (decode_element par (bns b) kind members _) as [acc|e|]; try (inversion H; subst; exact C).
    destruct (new_record par ft b kind _ _) as [b1 [y|e|]] eqn:EN;
      pose proof (new_record_BNormal _ _ _ _ _ _ _ _ C EN) as C1;
      try (inversion H; subst; exact C1).
    destruct (acc_members acc) as [|m0 ms]; [eapply IH; eauto|].
    destruct (find _ (acc_formal acc)) as [[k v]|]; [|inversion H; subst; exact C1].
    destruct (add_members par ft b1 v (m0 :: ms)) as [b2 [y2|e|]] eqn:EM;
      pose proof (add_members_BNormal _ _ _ _ _ _ _ C1 EM) as C2.
    + eapply IH; eauto.
    + inversion H; subst. exact C2.
    + inversion H; subst. exact C2.
Qed.

Lemma decode_records_BNormal : forall par ft kind entries b b' r,
  BNormal b -> decode_records par ft b kind entries = (b', r) -> BNormal b'.
Proof.
  induction entries as [|[rid content] entries IH]; intros b b' r C H; cbn [decode_records] in H.
  - inversion H; subst; exact C.
  - destruct (match content with JObj _ => Some [content] | JArr l => Some l | _ => None end) as [l|];
      [|inversion H; subst; exact C].
    destruct (decode_elements par ft b kind rid l) as [b1 [y|e|]] eqn:E;
      pose proof (decode_elements_BNormal _ _ _ _ _ _ _ _ C E) as C1.
    + eapply IH; eauto.
    + inversion H; subst. exact C1.
    + inversion H; subst. exact C1.
Qed.

Lemma decode_kinds_BNormal : forall par ft jc b b' r,
  BNormal b -> decode_kinds par ft b jc = (b', r) -> BNormal b'.
Proof.
  induction jc as [|[lbl content] jc IH]; intros b b' r C H; cbn [decode_kinds] in H.
  - inversion H; subst; exact C.
  - destruct (kind_of_label lbl) as [kind|]; [|inversion H; subst; exact C].
    destruct (String.eqb kind "Bundle"); [inversion H; subst; exact C|].
    destruct content as [ | | | | | |entries]; try (inversion H; subst; exact C).
    destruct (decode_records par ft b kind entries) as [b1 [y|e|]] eqn:E;
      pose proof (decode_records_BNormal _ _ _ _ _ _ _ C E) as C1.
    + eapply IH; eauto.
    + inversion H; subst. exact C1.
    + inversion H; subst. exact C1.
Qed.

Lemma decode_container_BNormal : forall par ft b jc b' r,
  BNormal b -> decode_container par ft b jc = (b', r) -> BNormal b'.
Proof.
  intros par ft b jc b' r C H. unfold decode_container in H.
  destruct (lookup "prefix" jc) as [[ | | | | | |ps]|]; try (inversion H; subst; exact C).
  - destruct (decode_prefixes (bns b) ps) as [m|e|] eqn:EP; try (inversion H; subst; exact C).
    eapply decode_kinds_BNormal; [|exact H]. exact C.
  - eapply decode_kinds_BNormal; eauto.
Qed.

Lemma attach_decoded_DNormal : forall dd b i dd' r,
  DNormal dd -> BNormal b -> attach_decoded dd b i = (dd', r) -> DNormal dd'.
Proof.
  intros dd b i dd' r [M B] C H. unfold attach_decoded in H.
  destruct i as [q0|]; [|inversion H; subst; split; assumption].
  destruct (resolve _ (bns b) (NQn q0)) as [[m [q|]]|e|]; try (inversion H; subst; split; assumption).
  destruct (mem (qn_uri q) (dbundles dd)); inversion H; subst; split; cbn; try assumption.
  apply Forall_app. split; [exact B|]. constructor; [exact C | constructor].
Qed.

Lemma decode_bundles_DNormal : forall ft bs dd dd' r,
  DNormal dd -> decode_bundles ft dd bs = (dd', r) -> DNormal dd'.
Proof.
  induction bs as [|[bid_str content] bs IH]; intros dd dd' r D H; cbn [decode_bundles] in H.
  - inversion H; subst; exact D.
  - destruct content as [ | | | | | |jc]; try (inversion H; subst; exact D).
    cbv zeta in H.
    destruct (decode_container _ ft (bundle_init None) jc) as [b [y|e|]] eqn:EC;
      try (inversion H; subst; exact D).
    pose proof (decode_container_BNormal _ _ _ _ _ _ (BNormal_init None) EC) as Cb.
    destruct (resolve _ (bns b) (NStr bid_str)) as [[m i]|e|]; try (inversion H; subst; exact D).
    destruct (attach_decoded dd (with_ns b m) i) as [dd1 [y1|e|]] eqn:EA;
      pose proof (attach_decoded_DNormal dd (with_ns b m) i dd1 _ D Cb EA) as D1.
    + eapply IH; eauto.
    + inversion H; subst. exact D1.
    + inversion H; subst. exact D1.
Qed.

Lemma decode_doc_DNormal : forall ft t nd, decode_doc ft t = OK nd -> DNormal nd.
Proof.
  intros ft t nd H. unfold decode_doc in H.
  destruct t as [ | | | | | |content]; try discriminate.
  destruct (match lookup "bundle" content with
            | Some (JObj bs) => Some bs | None => Some [] | _ => None end) as [bs|]; [|discriminate].
  destruct (decode_container None ft (bundle_init None) _) as [b [y|e|]] eqn:EC; try discriminate.
  pose proof (decode_container_BNormal _ _ _ _ _ _ (BNormal_init None) EC) as Cb.
  destruct (decode_bundles ft (mkD b []) bs) as [dd [y2|e|]] eqn:EB; inversion H; subst.
  eapply decode_bundles_DNormal; [|exact EB]. split; [exact Cb | constructor].
Qed.

(* ---- every call of the interpreter *)
Ltac norm_r :=
  first
    [ assumption
    | eapply BNormal_nth; [ | eassumption ]; norm_b
    | eapply WNormal_get_rec; [ | eassumption ]; assumption ]
with norm_b :=
  first
    [ assumption
    | apply BNormal_init
    | apply BNormal_with_ns; norm_b
    | eapply new_record_BNormal; [ | eassumption ]; norm_b
    | eapply factory_call_BNormal; [ | eassumption ]; norm_b
    | eapply add_record_BNormal; [ | eassumption ]; norm_b
    | eapply add_records_BNormal; [ | eassumption ]; norm_b
    | eapply WNormal_get_cont; [ | eassumption ]; assumption
    | (unfold BNormal; cbn [brecs]; constructor) ].

Ltac norm_d :=
  first
    [ assumption
    | apply DNormal_init
    | apply DNormal_main; norm_b
    | eapply doc_new_bundle_DNormal; [ | eassumption ]; norm_d
    | eapply graph_to_prov_DNormal; eassumption
    | eapply merge_bundles_DNormal; [ | eassumption ]; norm_d
    | eapply doc_unified_DNormal; eassumption
    | eapply decode_doc_DNormal; eassumption
    | apply DNormal_attach; [ norm_d | norm_b ]
    | eapply WNormal_get_doc; [ | eassumption ]; assumption ].

Ltac norm_w :=
  match goal with
  | |- WNormal (set_cont _ _ _) => apply WNormal_set_cont; [ norm_w | norm_b ]
  | |- WNormal (set_doc _ _ _) => apply WNormal_set_doc; [ norm_w | norm_d ]
  | |- WNormal (mkW (wdocs ?w ++ [_])%list _) => apply WNormal_app; [ norm_w | norm_d ]
  | |- WNormal _ => assumption
  end.

Ltac norm_step :=
  repeat (match goal with
          | |- context [match ?x with _ => _ end] => destruct x eqn:?
          | |- context [if ?x then _ else _] => destruct x eqn:?
          end; cbn [fst snd]);
  try norm_w.

Ltac norm_aa :=
  match goal with
  | H : add_attributes ?c ?m ?r ?l = ADone _ ?r' |- NormalE ?r' =>
      let X := fresh "X" in pose proof (add_attributes_normalE c m r l) as X; rewrite H in X; apply X; norm_r
  | H : add_attributes ?c ?m ?r ?l = AFail _ ?r' _ |- NormalE ?r' =>
      let X := fresh "X" in pose proof (add_attributes_normalE c m r l) as X; rewrite H in X; apply X; norm_r
  end.

Ltac norm_time :=
  unfold NormalE; cbn [rattrs];
  repeat (apply NormalE_put_time;
          [ | first [ left; reflexivity | right; left; reflexivity ] | eapply ensure_datetime_time'; eassumption ]);
  match goal with |- NormalE_D (rattrs ?r) => change (NormalE r); norm_r end.

Ltac norm_upd :=
  match goal with
  | |- WNormal (set_cont _ _ (upd_rec _ _ _ _)) =>
      apply WNormal_set_cont; [ assumption | apply BNormal_upd; [ norm_b | first [ norm_aa | norm_time ] ] ]
  end.

Theorem step_WNormal : forall w o, WNormal w -> WNormal (fst (step w o)).
Proof.
  intros w o W.
  destruct o as [ |c p u|c u|c x|t x|c k i attrs|c f i args other|[c i] attrs|[c i] s e|[c i] v
                 |c r|c o|t src x order|t|t|c|c x|c cls|a b|a b|t|jt|t|t|t| ];
    idtac.
  all: cbn [step]; unfold with_cont; cbn [fst snd].
  all: norm_step.
  all: try norm_upd.
  assert (GB : BNormal b) by (eapply WNormal_get_cont; eassumption).
  assert (GB1 : BNormal b1) by exact (add_records_BNormal _ _ _ _ _ _ GB Heqp).
  assert (W1 : WNormal (set_cont w (CDoc d) b1)) by (apply WNormal_set_cont; assumption).
  apply WNormal_set_doc; [exact W1|].
  exact (merge_bundles_DNormal _ _ _ _ _ (WNormal_get_doc _ _ _ W1 Heqo2) Heqp0).
Qed.

Lemma fold_WNormal : forall ops w, WNormal w -> WNormal (fold_left (fun w o => fst (step w o)) ops w).
Proof.
  induction ops as [|o ops IH]; intros w W; cbn [fold_left]; [exact W|].
  apply IH, step_WNormal, W.
Qed.

(* every record of every world any history builds *)
Theorem reachable_WNormal : forall ft ops, WNormal (wrun ft ops).
Proof. intros ft ops. unfold wrun. apply fold_WNormal. constructor. Qed.

Theorem reachable_record_single_valued : forall ft ops r p, get_rec (wrun ft ops) r = Some p -> NormalE p.
Proof. intros ft ops r p G. eapply WNormal_get_rec; [apply reachable_WNormal | exact G]. Qed.

(* what NormalE says, spelled out for one record *)
Lemma NormalE_formal_single : forall r a, NormalE r -> is_formal_attr a = true -> is_prov_name "entity" a = false ->
  length (attr_get a (rattrs r)) <= 1.
Proof.
  intros r a N F E. specialize (N a F). rewrite E in N.
  destruct (attr_get a (rattrs r)) as [|v [|v2 l]]; cbn; auto. contradiction.
Qed.

(* ---- back to the strict form: NormalE and at most one member is Normal *)
Lemma attr_get_same_uri : forall a b d, qn_uri a = qn_uri b -> attr_get a d = attr_get b d.
Proof.
  intros a b d E. induction d as [|[k vs] d IH]; cbn [attr_get]; [reflexivity|].
  unfold qn_eqb. rewrite E. destruct (String.eqb (qn_uri b) (qn_uri k)); [reflexivity | exact IH].
Qed.

Lemma NormalE_single_member_Normal : forall r,
  NormalE r -> length (attr_get (prov_qn "entity") (rattrs r)) <= 1 -> Normal r.
Proof.
  intros r N L a Fa. specialize (N a Fa). destruct (is_prov_name "entity" a) eqn:E; [|exact N].
  assert (U : qn_uri a = qn_uri (prov_qn "entity")).
  { unfold is_prov_name in E. apply String.eqb_eq in E. rewrite E. reflexivity. }
  rewrite (attr_get_same_uri a (prov_qn "entity") _ U) in N |- *.
  destruct (attr_get (prov_qn "entity") (rattrs r)) as [|v [|v2 l]]; [exact I | inversion N; assumption | cbn in L; inversion L as [|? L']; inversion L'].
Qed.

(* every record of a document the PROV-JSON reader builds *)
Theorem decoded_records_normalE : forall ft t d b r,
  decode_doc ft t = OK d -> In b (dmain d :: map snd (dbundles d)) -> In r (brecs b) -> NormalE r.
Proof.
  intros ft t d b r H Hb Hr. destruct (decode_doc_DNormal _ _ _ H) as [M B].
  destruct Hb as [<-|Hb].
  - unfold BNormal in M. rewrite Forall_forall in M. exact (M r Hr).
  - apply in_map_iff in Hb. destruct Hb as [[k b0] [E Hk]]. cbn in E. subst b0.
    rewrite Forall_forall in B. specialize (B (k, b) Hk). cbn in B. unfold BNormal in B. rewrite Forall_forall in B. exact (B r Hr).
Qed.
