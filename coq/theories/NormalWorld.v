(* NormalWorld.v — single-valuedness of formal attributes as an invariant of worlds.
   SingleProofs.v shows that add_attributes keeps NormalE (every formal attribute other than prov:entity holds at most
   one value, of the kind it demands; every prov:entity value is a qualified name) whatever the call names and however
   it ends.  Here the invariant is carried through the interpreter: every record of every container of every document,
   after any sequence of the calls C05 quantifies over — new_record, the typed factories and element methods,
   add_attributes, set_time, add_asserted_type, with namespace calls, new bundles and all reading calls in between — and
   of the deriving calls that re-create records one by one (add_record, update of a bundle, flattened, a document from
   records, add_bundle of a document, the graph round trip).  Not carried (left to the per-run oracle): unified(),
   update() of a document with bundles, and deserialisation. *)
From Coq Require Import String List Arith ZArith Bool.
From Prov Require Import Str Sexp Tables Nsm NsmProofs Scope Values Record RecordProofs SingleProofs World WorldProofs Derive Interp InterpProofs.
Import ListNotations.
Open Scope string_scope.

Definition BNormal (b : bundle) : Prop := Forall NormalE (brecs b).
Definition DNormal (dd : doc) : Prop := BNormal (dmain dd) /\ Forall (fun kb => BNormal (snd kb)) (dbundles dd).
Definition WNormal (w : world) : Prop := Forall DNormal (wdocs w).

Lemma NormalE_empty : forall k i, NormalE (mkRec k i []).
Proof. intros. exact NormalE_nil. Qed.

Lemma BNormal_init : forall i, BNormal (bundle_init i).
Proof. intros. constructor. Qed.

Lemma DNormal_init : DNormal doc_init.
Proof. split; constructor. Qed.

(* ---- containers *)
Lemma new_record_BNormal : forall par ft b k i attrs b' x,
  BNormal b -> new_record par ft b k i attrs = (b', x) -> BNormal b'.
Proof.
  intros par ft b k i attrs b' x G H. unfold new_record in H.
  destruct (match i with None => Done (bns b) None | Some y => resolve_o (mkCtx par ft) (bns b) y end) as [m1 idq|m1 e|];
    try (inversion H; subst; exact G).
  destruct (new_prec (mkCtx par ft) m1 k idq attrs) as [m2 r2|m2 e|] eqn:EN; inversion H; subst; try exact G.
  unfold BNormal, add_rec_to, with_ns. cbn [brecs]. apply Forall_app. split; [exact G|].
  constructor; [|constructor]. eapply new_prec_normalE; exact EN.
Qed.

Lemma add_record_BNormal : forall par ft b r b' x, BNormal b -> add_record par ft b r = (b', x) -> BNormal b'.
Proof.
  intros par ft b r b' x G H. unfold add_record in H. destruct (negb (formal_single r)).
  - inversion H; subst. exact G.
  - eapply new_record_BNormal; eauto.
Qed.

Lemma add_records_BNormal : forall par ft rs b b' x, BNormal b -> add_records par ft b rs = (b', x) -> BNormal b'.
Proof.
  induction rs as [|r rs IH]; intros b b' x G H; cbn [add_records] in H.
  - inversion H; subst. exact G.
  - destruct (add_record par ft b r) as [b1 [y|e|]] eqn:E;
      pose proof (add_record_BNormal _ _ _ _ _ _ G E) as G1.
    + eapply IH; eauto.
    + inversion H; subst. exact G1.
    + inversion H; subst. exact G1.
Qed.

Lemma new_record_ok_in' : forall par ft b k i attrs b' r,
  new_record par ft b k i attrs = (b', OK r) -> In r (brecs b').
Proof.
  intros par ft b k i attrs b' r H. unfold new_record in H.
  destruct (match i with None => Done (bns b) None | Some y => resolve_o (mkCtx par ft) (bns b) y end) as [m1 idq|m1 e|];
    try discriminate.
  destruct (new_prec (mkCtx par ft) m1 k idq attrs) as [m2 r2|m2 e|]; inversion H; subst.
  unfold add_rec_to. cbn [brecs]. apply in_or_app. right. left. reflexivity.
Qed.

Lemma factory_call_BNormal : forall par ft b f i args other b' x,
  BNormal b -> factory_call par ft b f i args other = (b', x) -> BNormal b'.
Proof.
  intros par ft b f i args other b' x G H. unfold factory_call in H.
  destruct (factory_entry f) as [[[[f0 k] params] asserted]|]; [|inversion H; subst; exact G].
  destruct (factory_args (bns b) params args) as [m0 fa|m0 e|]; try (inversion H; subst; exact G).
  destruct (new_record par ft b k i (fa ++ other)%list) as [b1 [r|e|]] eqn:EN;
    pose proof (new_record_BNormal _ _ _ _ _ _ _ _ G EN) as G1; try (inversion H; subst; exact G1).
  destruct asserted as [ty|]; [|inversion H; subst; exact G1].
  assert (Gr : NormalE r).
  { unfold BNormal in G1. rewrite Forall_forall in G1. apply G1. exact (new_record_ok_in' _ _ _ _ _ _ _ _ EN). }
  pose proof (add_attributes_normalE (mkCtx par ft) (bns b1) r [(NQn (prov_qn "type"), AQn (prov_qn ty))] Gr) as X.
  destruct (add_attributes (mkCtx par ft) (bns b1) r [(NQn (prov_qn "type"), AQn (prov_qn ty))]) as [m2 r2|m2 r2 e|];
    inversion H; subst; try exact G1; unfold BNormal; cbn [brecs]; apply Forall_set_nth; try exact G1; exact X.
Qed.

Lemma BNormal_upd : forall b i m r, BNormal b -> NormalE r -> BNormal (upd_rec b i m r).
Proof. intros b i m r B G. unfold BNormal, upd_rec. cbn [brecs]. apply Forall_set_nth; assumption. Qed.

Lemma BNormal_with_ns : forall b m, BNormal b -> BNormal (with_ns b m).
Proof. intros b m B. exact B. Qed.

Lemma BNormal_nth : forall b i r, BNormal b -> nth_error (brecs b) i = Some r -> NormalE r.
Proof. intros b i r B H. unfold BNormal in B. rewrite Forall_forall in B. apply B. eapply nth_error_In; eauto. Qed.

(* set_time: one datetime under prov:startTime / prov:endTime *)
Lemma ensure_datetime_time' : forall m a m' v, ensure_datetime m a = Done m' (Some v) -> is_time v.
Proof.
  intros m a m' v H. unfold ensure_datetime in H.
  destruct a; try (inversion H; subst; exact I; fail); try (inversion H; fail).
  destruct (parse_datetime s); inversion H; subst; exact I.
Qed.

Lemma NormalE_put_time : forall d l v, NormalE_D d -> In l ["startTime"; "endTime"] -> is_time v ->
  NormalE_D (attr_put (prov_qn l) [v] d).
Proof.
  intros d l v N Hl Tv a Fa. rewrite attr_get_put.
  destruct (qn_eqb a (prov_qn l)) eqn:EQ; [|apply N; exact Fa].
  assert (E : is_prov_name "entity" a = false).
  { rewrite (is_entity_eqb _ _ EQ). destruct Hl as [<-|[<-|[]]]; reflexivity. }
  rewrite E. eapply typed_transfer; [exact EQ|].
  destruct Hl as [<-|[<-|[]]]; (split; intro X; [vm_compute in X; discriminate | exact Tv]).
Qed.

(* ---- documents and worlds *)
Lemma doc_new_bundle_DNormal : forall dd x ft dd' r, DNormal dd -> doc_new_bundle dd x ft = (dd', r) -> DNormal dd'.
Proof.
  intros dd x ft dd' r [M B] H. unfold doc_new_bundle in H. destruct x as [n|]; [|inversion H; subst; split; assumption].
  destruct (resolve None (bns (dmain dd)) n) as [[m [q|]]|e|]; try (inversion H; subst; split; assumption).
  destruct (mem (qn_uri q) (dbundles dd)); inversion H; subst; split; cbn; try exact M; try exact B.
  apply Forall_app. split; [exact B|]. constructor; [apply BNormal_init | constructor].
Qed.

Lemma WNormal_get_doc : forall w d dd, WNormal w -> get_doc w d = Some dd -> DNormal dd.
Proof. intros w d dd W G. unfold WNormal in W. rewrite Forall_forall in W. apply W. eapply nth_error_In; eauto. Qed.

Lemma WNormal_get_cont : forall w c b, WNormal w -> get_cont w c = Some b -> BNormal b.
Proof.
  intros w c b W G. destruct c as [d|d i]; cbn [get_cont] in G.
  - destruct (get_doc w d) as [dd|] eqn:E; [|discriminate]. inversion G; subst.
    apply (WNormal_get_doc _ _ _ W E).
  - destruct (get_doc w d) as [dd|] eqn:E; [|discriminate].
    destruct (nth_error (dbundles dd) i) as [[k bb]|] eqn:E2; [|discriminate]. inversion G; subst.
    destruct (WNormal_get_doc _ _ _ W E) as [_ F]. rewrite Forall_forall in F.
    apply (F (k, b)). eapply nth_error_In; eauto.
Qed.

Lemma WNormal_get_rec : forall w r p, WNormal w -> get_rec w r = Some p -> NormalE p.
Proof.
  intros w [c i] p W G. unfold get_rec in G. destruct (get_cont w c) as [b|] eqn:E; [|discriminate].
  eapply BNormal_nth; [eapply WNormal_get_cont; eauto | exact G].
Qed.

Lemma WNormal_set_doc : forall w d dd, WNormal w -> DNormal dd -> WNormal (set_doc w d dd).
Proof. intros. unfold WNormal, set_doc; cbn. apply Forall_set_nth; assumption. Qed.

Lemma WNormal_set_cont : forall w c b, WNormal w -> BNormal b -> WNormal (set_cont w c b).
Proof.
  intros w c b W C. unfold set_cont. destruct c as [d|d i].
  - destruct (get_doc w d) as [dd|] eqn:E; [|exact W].
    apply WNormal_set_doc; [exact W|]. destruct (WNormal_get_doc _ _ _ W E) as [_ F]. split; assumption.
  - destruct (get_doc w d) as [dd|] eqn:E; [|exact W].
    destruct (nth_error (dbundles dd) i) as [[k bb]|] eqn:E2; [|exact W].
    apply WNormal_set_doc; [exact W|]. destruct (WNormal_get_doc _ _ _ W E) as [M F].
    split; [exact M|]. apply Forall_set_nth; [exact F | exact C].
Qed.

Lemma WNormal_app : forall w nd ft, WNormal w -> DNormal nd -> WNormal (mkW (wdocs w ++ [nd])%list ft).
Proof. intros. unfold WNormal; cbn. apply Forall_app. split; [assumption | constructor; [assumption|constructor]]. Qed.

Lemma DNormal_main : forall b, BNormal b -> DNormal (mkD b []).
Proof. intros b B. split; [exact B | constructor]. Qed.

Lemma graph_to_prov_DNormal : forall ft g nd, graph_to_prov ft g = OK nd -> DNormal nd.
Proof.
  intros ft g nd H. unfold graph_to_prov in H.
  destruct (add_records None ft (bundle_init None) _) as [b [y|e|]] eqn:EA; try discriminate.
  inversion H; subst. apply DNormal_main. exact (add_records_BNormal _ _ _ _ _ _ (BNormal_init None) EA).
Qed.

Lemma DNormal_attach : forall dd q m b, DNormal dd -> BNormal b ->
  DNormal (mkD (dmain dd) (dbundles dd ++ [(qn_uri q, mkB (Some q) m (brecs b) (bidmap b))])%list).
Proof.
  intros dd q m b [M B] G. split; [exact M|]. cbn. apply Forall_app. split; [exact B|].
  constructor; [exact G | constructor].
Qed.

(* ---- the calls carried *)
Definition carried (o : op) : bool :=
  match o with
  | OUnified _ | OLoadJson _ => false
  | OUpdate (CDoc _) (CDoc _) => false
  | _ => true
  end.

Ltac norm_r :=
  first
    [ assumption
    | eapply BNormal_nth; [ | eassumption ]; norm_b
    | eapply WNormal_get_rec; [ | eassumption ]; assumption ]
with norm_b :=
  first
    [ assumption
    | apply BNormal_init
    | apply BNormal_with_ns; norm_b
    | eapply new_record_BNormal; [ | eassumption ]; norm_b
    | eapply factory_call_BNormal; [ | eassumption ]; norm_b
    | eapply add_record_BNormal; [ | eassumption ]; norm_b
    | eapply add_records_BNormal; [ | eassumption ]; norm_b
    | eapply WNormal_get_cont; [ | eassumption ]; assumption
    | (unfold BNormal; cbn [brecs]; constructor) ].

Ltac norm_d :=
  first
    [ assumption
    | apply DNormal_init
    | apply DNormal_main; norm_b
    | eapply doc_new_bundle_DNormal; [ | eassumption ]; norm_d
    | eapply graph_to_prov_DNormal; eassumption
    | apply DNormal_attach; [ norm_d | norm_b ]
    | eapply WNormal_get_doc; [ | eassumption ]; assumption ].

Ltac norm_w :=
  match goal with
  | |- WNormal (set_cont _ _ _) => apply WNormal_set_cont; [ norm_w | norm_b ]
  | |- WNormal (set_doc _ _ _) => apply WNormal_set_doc; [ norm_w | norm_d ]
  | |- WNormal (mkW (wdocs ?w ++ [_])%list _) => apply WNormal_app; [ norm_w | norm_d ]
  | |- WNormal _ => assumption
  end.

Ltac norm_step :=
  repeat (match goal with
          | |- context [match ?x with _ => _ end] => destruct x eqn:?
          | |- context [if ?x then _ else _] => destruct x eqn:?
          end; cbn [fst snd]);
  try norm_w.

Ltac norm_aa :=
  match goal with
  | H : add_attributes ?c ?m ?r ?l = ADone _ ?r' |- NormalE ?r' =>
      let X := fresh "X" in pose proof (add_attributes_normalE c m r l) as X; rewrite H in X; apply X; norm_r
  | H : add_attributes ?c ?m ?r ?l = AFail _ ?r' _ |- NormalE ?r' =>
      let X := fresh "X" in pose proof (add_attributes_normalE c m r l) as X; rewrite H in X; apply X; norm_r
  end.

Ltac norm_time :=
  unfold NormalE; cbn [rattrs];
  repeat (apply NormalE_put_time;
          [ | first [ left; reflexivity | right; left; reflexivity ] | eapply ensure_datetime_time'; eassumption ]);
  match goal with |- NormalE_D (rattrs ?r) => change (NormalE r); norm_r end.

Ltac norm_upd :=
  match goal with
  | |- WNormal (set_cont _ _ (upd_rec _ _ _ _)) =>
      apply WNormal_set_cont; [ assumption | apply BNormal_upd; [ norm_b | first [ norm_aa | norm_time ] ] ]
  end.

Theorem step_WNormal : forall w o, carried o = true -> WNormal w -> WNormal (fst (step w o)).
Proof.
  intros w o C W.
  destruct o as [ |c p u|c u|c x|t x|c k i attrs|c f i args other|[c i] attrs|[c i] s e|[c i] v
                 |c r|c o|t src x order|t|t|c|c x|c cls|a b|a b|t|jt|t|t|t| ];
    try discriminate C.
  12: destruct c, o; try discriminate C.
  all: cbn [step]; unfold with_cont; cbn [fst snd].
  all: norm_step.
  all: try norm_upd.
Qed.

Lemma fold_WNormal : forall ops w, forallb carried ops = true -> WNormal w ->
  WNormal (fold_left (fun w o => fst (step w o)) ops w).
Proof.
  induction ops as [|o ops IH]; intros w C W; cbn [fold_left]; [exact W|].
  cbn [forallb] in C. apply andb_true_iff in C. destruct C as [C1 C2].
  apply IH; [exact C2 | apply step_WNormal; assumption].
Qed.

(* every record of every world such a history builds *)
Theorem reachable_WNormal : forall ft ops, forallb carried ops = true -> WNormal (wrun ft ops).
Proof. intros ft ops C. unfold wrun. apply fold_WNormal; [exact C | constructor]. Qed.

Theorem reachable_record_single_valued : forall ft ops r p,
  forallb carried ops = true -> get_rec (wrun ft ops) r = Some p -> NormalE p.
Proof. intros ft ops r p C G. eapply WNormal_get_rec; [apply reachable_WNormal; exact C | exact G]. Qed.

(* what NormalE says, spelled out for one record *)
Lemma NormalE_formal_single : forall r a, NormalE r -> is_formal_attr a = true -> is_prov_name "entity" a = false ->
  length (attr_get a (rattrs r)) <= 1.
Proof.
  intros r a N F E. specialize (N a F). rewrite E in N.
  destruct (attr_get a (rattrs r)) as [|v [|v2 l]]; cbn; auto. contradiction.
Qed.
