(* SpecDocProofs.v — C10 at document level, PROV-JSON: the specification reader applied to the whole tree the
   library writes for a document — the main container's members, then the "bundle" map with one member per bundle —
   recovers the document's records (grouped order) and, for every bundle, its records under the URI the bundle's
   key denotes in the bundle's scope (the bundle's prefix block on top of the document's). *)
From Coq Require Import String Ascii List Bool Arith ZArith Lia Permutation.
From Prov Require Import Str StrProofs Sexp Tables Nsm NsmProofs Values Record RecordProofs World Jtree Json JsonProofs
  Spec JsonSpec IsoDigits IsoProofs TimeProofs SpecProofs JsonRecProofs SpecRecProofs JsonContProofs SpecContProofs JsonBundleProofs.
Import ListNotations.
Open Scope string_scope.

Definition pblock (b : bundle) : option jv :=
  match encode_prefixes (bns b) with [] => None | ps => Some (JObj ps) end.

(* the "bundle" member does not change what read_container sees *)
Lemma lookup_dset_ne : forall (d : list (string * jv)) k k' v, k <> k' -> lookup k' (dset k v d) = lookup k' d.
Proof. intros. apply lookup_dset_other. assumption. Qed.

Lemma filter_dset_bundle : forall (ms : list (string * jv)) v,
  filter (fun kv : string * jv => negb (String.eqb (fst kv) "prefix" || String.eqb (fst kv) "bundle")%bool) (dset "bundle" v ms)
  = filter (fun kv : string * jv => negb (String.eqb (fst kv) "prefix" || String.eqb (fst kv) "bundle")%bool) ms.
Proof.
  induction ms as [|[k x] ms IH]; intros v; [reflexivity|].
  cbn [dset]. destruct (String.eqb "bundle" k) eqn:E.
  - apply String.eqb_eq in E. subst k. cbn [filter fst]. rewrite String.eqb_refl, orb_true_r. reflexivity.
  - cbn [filter fst]. rewrite IH. reflexivity.
Qed.

Lemma read_container_dset_bundle : forall ft base ms v,
  read_container ft base (dset "bundle" v ms) = read_container ft base ms.
Proof.
  intros ft base ms v. unfold read_container.
  rewrite (lookup_dset_ne ms "bundle" "prefix" v ltac:(discriminate)), filter_dset_bundle. reflexivity.
Qed.

(* a container whose records meet the specification premises has no member called "bundle" *)
Lemma spec_no_bundle_member : forall ft t b, Forall (spec_ok ft t) (brecs b) -> lookup "bundle" (encode_container b) = None.
Proof.
  intros ft t b F.
  assert (OK0 : lg_ok []) by (intros k g []).
  destruct (encode_records_agroup (brecs b) [] 0 [] OK0) as [E OKG].
  change (jlg []) with (@nil (string * list (string * jv))) in E.
  set (G := agroup (brecs b) [] 0 []) in *.
  assert (PL : placed place_ok G) by (apply agroup_placed; [intros r s [] | intros l g i l0 r []]).
  assert (PM : Permutation (recs_lg G) (brecs b)) by (apply (agroup_perm (brecs b) [] 0 [])).
  assert (NEG : forall label g, In (label, g) G -> g <> [])
    by (apply (agroup_nonempty (brecs b) [] 0 []); intros l0 g0 []).
  assert (LAB : forall label g, In (label, g) G -> String.eqb label "bundle" = false).
  { intros label g Hg. pose proof (NEG label g Hg) as N. destruct g as [|[ident l] g']; [contradiction|].
    pose proof (OKG label _ Hg ident l (or_introl eq_refl)) as NL. destruct l as [|r l]; [contradiction|].
    assert (SO : spec_ok ft t r).
    { apply (proj1 (Forall_forall _ _) F). apply (Permutation_in _ PM). unfold recs_lg. apply in_flat_map.
      exists (label, (ident, r :: l) :: g'). split; [exact Hg|]. unfold recs_ig. apply in_flat_map.
      exists (ident, r :: l). split; [left; reflexivity | left; reflexivity]. }
    destruct (place_spec ft t label ident r SO (PL label _ ident (r :: l) r Hg (or_introl eq_refl) (or_introl eq_refl))) as [_ [_ [_ X]]].
    exact X. }
  destruct (lookup_key_none "bundle" G LAB) as [LN _].
  unfold encode_container. rewrite E.
  destruct (encode_prefixes (bns b)); cbn [app lookup String.eqb Ascii.eqb Bool.eqb]; exact LN.
Qed.

(* ---- one bundle member *)
Definition bundle_spec (ft : ftable) (t : ptable) (b : bundle) (x : ptable * string) : Prop :=
  read_prefixes t (pblock b) = Some (fst x) /\ Forall (spec_ok ft (fst x)) (brecs b) /\
  spec_resolve (fst x) (bkey b) = Some (snd x).

Definition bundle_content (b : bundle) (x : ptable * string) : sexp :=
  L (A "bundle" :: A (snd x) :: map content_rec (grouped (brecs b))).

Definition read_member (ft : ftable) (t : ptable) (kb : string * jv) : option sexp :=
  match snd kb with
  | JObj bms =>
      match read_container ft t bms with
      | Some (bt, brecs) =>
          match spec_resolve bt (fst kb) with
          | Some u => Some (L (A "bundle" :: A u :: brecs))
          | None => None
          end
      | None => None
      end
  | _ => None
  end.

Lemma members_read : forall ft t (bs : list (string * bundle)) xs,
  Forall2 (fun kb x => bundle_spec ft t (snd kb) x) bs xs ->
  JsonSpec.all_some (map (read_member ft t) (map (fun kb => (bkey (snd kb), JObj (encode_container (snd kb)))) bs))
  = Some (map (fun kbx => bundle_content (snd (fst kbx)) (snd kbx)) (combine bs xs)).
Proof.
  intros ft t bs xs F. induction F as [|kb x bs xs [PF [SO SR]] F IH]; [reflexivity|].
  cbn [map combine JsonSpec.all_some fst snd]. unfold read_member at 1. cbn [fst snd].
  rewrite (spec_json_container ft t (snd kb) (fst x) PF SO), SR. rewrite IH. reflexivity.
Qed.

(* ---- the document *)
Theorem spec_json_document : forall ft d t xs,
  read_prefixes builtin_ptable (pblock (dmain d)) = Some t ->
  Forall (spec_ok ft t) (brecs (dmain d)) ->
  NoDup (map (fun kb => bkey (snd kb)) (dbundles d)) ->
  Forall2 (fun kb x => bundle_spec ft t (snd kb) x) (dbundles d) xs ->
  JsonSpec.read ft (encode_doc d)
  = Some (L (A "content" :: L (A "bundle" :: A "" :: map content_rec (grouped (brecs (dmain d))))
              :: map (fun kbx => bundle_content (snd (fst kbx)) (snd kbx)) (combine (dbundles d) xs))).
Proof.
  intros ft d t xs PF F UK FB.
  pose proof (spec_json_container ft builtin_ptable (dmain d) t PF F) as RC.
  pose proof (spec_no_bundle_member ft t (dmain d) F) as NB.
  unfold encode_doc. destruct (dbundles d) as [|kb0 bs0] eqn:EB.
  - inversion FB; subst. unfold JsonSpec.read. rewrite RC, NB. reflexivity.
  - rewrite <- EB in *. rewrite (bundle_obj_flat (dbundles d) []) by (cbn [map app]; exact UK). cbn [app].
    unfold JsonSpec.read, jset. rewrite read_container_dset_bundle, RC. rewrite lookup_dset_same.
    fold (read_member ft t). rewrite (members_read ft t (dbundles d) xs FB). reflexivity.
Qed.

(* ---- the premises are satisfiable: the document of JsonBundleProofs (the container of JsonContProofs at the top and a
   bundle ex:b1, which repeats the declaration of ex, holding an entity) *)
Example spec_json_document_applies :
  JsonSpec.read [] (encode_doc z_doc)
  = Some (L (A "content" :: L (A "bundle" :: A "" :: map content_rec (grouped (brecs y_b)))
             :: [L [A "bundle"; A "http://e/b1"; L [A "rec"; A (spec_prov_uri ++ "Entity"); A "http://e/e"; L []]]])).
Proof.
  refine (eq_trans (spec_json_document [] z_doc x_t [(x_t, "http://e/b1")] _ _ _ _) _).
  - vm_compute. reflexivity.
  - exact y_spec_ok.
  - cbn. constructor; [intros [] | constructor].
  - cbn [dbundles z_doc]. constructor; [|constructor]. unfold bundle_spec. cbn [fst snd].
    split; [vm_compute; reflexivity|]. split; [|vm_compute; reflexivity].
    cbn [brecs z_bundle]. apply Forall_cons; [|apply Forall_nil].
    unfold spec_ok. cbn [rkind rid rattrs y_e2].
    split; [vm_compute; discriminate|]. split; [vm_compute; discriminate|].
    split; [constructor|]. split; [constructor|].
    split; [split; vm_compute; reflexivity | split; vm_compute; reflexivity].
  - vm_compute. reflexivity.
Qed.
