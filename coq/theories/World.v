(* World.v — bundles, documents and the interpreter of API programs.
   A world is a list of documents (handles are indices); a bundle keeps its record
   list and its identifier map as two separate fields, updated only where the
   Python code updates them (_add_record).  Every deriving operation allocates a new
   document value, as the (repaired) Python code does. *)
From Coq Require Import String Ascii List Bool Arith ZArith.
From Prov Require Import Str Sexp Tables Nsm Values Record.
Import ListNotations.
Open Scope string_scope.

Record bundle : Type := mkB {
  bid : option qname;
  bns : nsm;
  brecs : list prec;
  bidmap : list (string * list nat)      (* _id_map: identifier URI -> positions in brecs *)
}.
Record doc : Type := mkD {
  dmain : bundle;
  dbundles : list (string * bundle)      (* _bundles: identifier URI -> bundle *)
}.
Record world : Type := mkW { wdocs : list doc; wft : ftable }.

Definition bundle_init (i : option qname) : bundle := mkB i nsm_init [] [].
Definition doc_init : doc := mkD (bundle_init None) [].

Inductive cref : Type := CDoc (d : nat) | CBun (d : nat) (i : nat).
Inductive rref : Type := RRef (c : cref) (i : nat).

(* ---- access ---- *)
Definition get_doc (w : world) (d : nat) : option doc := nth_error (wdocs w) d.
Definition get_cont (w : world) (c : cref) : option bundle :=
  match c with
  | CDoc d => option_map dmain (get_doc w d)
  | CBun d i => match get_doc w d with
                | Some dd => option_map snd (nth_error (dbundles dd) i)
                | None => None
                end
  end.
Definition parent_ns (w : world) (c : cref) : option nsm :=
  match c with
  | CDoc _ => None
  | CBun d _ => option_map (fun dd => bns (dmain dd)) (get_doc w d)
  end.
Fixpoint set_nth {T} (i : nat) (v : T) (l : list T) : list T :=
  match l with
  | [] => []
  | x :: r => match i with O => v :: r | S k => x :: set_nth k v r end
  end.
Definition set_doc (w : world) (d : nat) (dd : doc) : world :=
  mkW (set_nth d dd (wdocs w)) (wft w).
Definition set_cont (w : world) (c : cref) (b : bundle) : world :=
  match c with
  | CDoc d => match get_doc w d with
              | Some dd => set_doc w d (mkD b (dbundles dd))
              | None => w
              end
  | CBun d i => match get_doc w d with
                | Some dd =>
                    match nth_error (dbundles dd) i with
                    | Some (k, _) => set_doc w d (mkD (dmain dd) (set_nth i (k, b) (dbundles dd)))
                    | None => w
                    end
                | None => w
                end
  end.
Definition get_rec (w : world) (r : rref) : option prec :=
  match r with RRef c i => match get_cont w c with
                           | Some b => nth_error (brecs b) i
                           | None => None
                           end end.
Definition ctx_of (w : world) (c : cref) : actx := mkCtx (parent_ns w c) (wft w).

(* ---- ProvBundle._add_record ---- *)
Definition idmap_append (k : string) (i : nat) (d : list (string * list nat)) :=
  dset k (match lookup k d with Some l => (l ++ [i])%list | None => [i] end) d.
Definition add_rec_to (b : bundle) (r : prec) : bundle :=
  mkB (bid b) (bns b) (brecs b ++ [r])%list
      (match rid r with
       | Some q => idmap_append (qn_uri q) (length (brecs b)) (bidmap b)
       | None => bidmap b
       end).
Definition with_ns (b : bundle) (m : nsm) : bundle := mkB (bid b) m (brecs b) (bidmap b).

(* ---- ProvBundle.new_record: resolve the identifier, build the record (which may
   register namespaces even when it fails), insert ---- *)
Definition new_record (par : option nsm) (ft : ftable) (b : bundle) (k : string)
  (i : option namearg) (attrs : list (namearg * valarg)) : bundle * result prec :=
  let c := mkCtx par ft in
  let idres := match i with
               | None => Done (bns b) None
               | Some x => resolve_o c (bns b) x
               end in
  match idres with
  | OOD => (b, OutOfDomain)
  | Fail m e => (with_ns b m, Raise e)
  | Done m1 idq =>
      match new_prec c m1 k idq attrs with
      | OOD => (b, OutOfDomain)
      | Fail m2 e => (with_ns b m2, Raise e)
      | Done m2 r => (add_rec_to (with_ns b m2) r, OK r)
      end
  end.

(* ProvBundle.add_record *)
(* first(set) of a multi-valued formal attribute depends on Python's set order *)
Definition formal_single (r : prec) : bool :=
  forallb (fun l => match attr_get (prov_qn l) (rattrs r) with _ :: _ :: _ => false | _ => true end)
          (formal_attrs (rkind r)).

Definition add_record (par : option nsm) (ft : ftable) (b : bundle) (r : prec)
  : bundle * result prec :=
  if negb (formal_single r) then (b, OutOfDomain) else
  new_record par ft b (rkind r) (option_map NQn (rid r)) (formal_attr_args r ++ extra_attr_args r)%list.

(* add a list of records, stopping at the first failure (state so far is kept) *)
Fixpoint add_records (par : option nsm) (ft : ftable) (b : bundle) (rs : list prec)
  : bundle * result unit :=
  match rs with
  | [] => (b, OK tt)
  | r :: rest =>
      match add_record par ft b r with
      | (b', OK _) => add_records par ft b' rest
      | (b', Raise e) => (b', Raise e)
      | (b', OutOfDomain) => (b', OutOfDomain)
      end
  end.

(* ---- factories: table generated from the source ---- *)
Definition factory_entry (f : string) :=
  let f' := match lookup f factory_aliases with Some t => t | None => f end in
  find (fun e => String.eqb (fst (fst (fst e))) f') factories.

Fixpoint factory_args (m : nsm) (params : list (string * string * bool))
  (args : list (string * valarg)) : outcome (list (namearg * valarg)) :=
  match params with
  | [] => Done m []
  | (p, attr, is_time) :: rest =>
      let a := match lookup p args with Some x => x | None => ANone end in
      let a' := if is_time then
                  match ensure_datetime m a with
                  | Done _ (Some (VTime t)) => Done m (ATime t)
                  | Done _ _ => Done m ANone
                  | Fail m' e => Fail m' e
                  | OOD => OOD
                  end
                else Done m a in
      match a' with
      | Done _ v =>
          match factory_args m rest args with
          | Done _ l => Done m ((NQn (prov_qn attr), v) :: l)
          | Fail m' e => Fail m' e
          | OOD => OOD
          end
      | Fail m' e => Fail m' e
      | OOD => OOD
      end
  end.

Definition factory_call (par : option nsm) (ft : ftable) (b : bundle) (f : string)
  (i : option namearg) (args : list (string * valarg)) (other : list (namearg * valarg))
  : bundle * result prec :=
  match factory_entry f with
  | None => (b, OutOfDomain)
  | Some (_, k, params, asserted) =>
      match factory_args (bns b) params args with
      | OOD => (b, OutOfDomain)
      | Fail _ e => (b, Raise e)              (* _ensure_datetime fails before any effect *)
      | Done _ fa =>
          match new_record par ft b k i (fa ++ other)%list with
          | (b1, OK r) =>
              match asserted with
              | None => (b1, OK r)
              | Some ty =>
                  (* record.add_asserted_type(PROV[ty]) on the record just inserted *)
                  match add_attributes (mkCtx par ft) (bns b1) r
                          [(NQn (prov_qn "type"), AQn (prov_qn ty))] with
                  | ADone m2 r2 =>
                      (mkB (bid b1) m2 (set_nth (length (brecs b1) - 1) r2 (brecs b1)) (bidmap b1), OK r2)
                  | AFail m2 r2 e =>
                      (mkB (bid b1) m2 (set_nth (length (brecs b1) - 1) r2 (brecs b1)) (bidmap b1), Raise e)
                  | AOOD => (b1, OutOfDomain)
                  end
              end
          | other_res => other_res
          end
      end
  end.

(* ---- record-level mutators on a record that lives in a container ---- *)
Definition upd_rec (b : bundle) (i : nat) (m : nsm) (r : prec) : bundle :=
  mkB (bid b) m (set_nth i r (brecs b)) (bidmap b).

(* ---- ProvBundle._unified_records (as repaired: grouped by type and identifier,
   merged in a scratch bundle) ---- *)
Definition same_group (a b : prec) : bool :=
  String.eqb (rkind a) (rkind b) &&
  match rid a, rid b with Some x, Some y => qn_eqb x y | _, _ => false end.

Fixpoint merge_group (c : actx) (m : nsm) (acc : prec) (rs : list prec) : outcome prec :=
  match rs with
  | [] => Done m acc
  | r :: rest =>
      match add_attributes c m acc (all_attr_args r) with
      | ADone m' acc' => merge_group c m' acc' rest
      | AFail m' _ e => Fail m' e
      | AOOD => OOD
      end
  end.

(* walk the records; [seen] holds the representatives of groups already emitted *)
Fixpoint unify_walk (fuel : nat) (c : actx) (m : nsm) (all : list prec) (todo : list prec)
  (seen : list prec) : outcome (list prec) :=
  match fuel with
  | O => OOD
  | S f =>
    match todo with
    | [] => Done m []
    | r :: rest =>
        match rid r with
        | None =>
            match unify_walk f c m all rest seen with
            | Done m' l => Done m' (r :: l)
            | x => x
            end
        | Some _ =>
            if existsb (same_group r) seen then unify_walk f c m all rest seen
            else
              let grp := filter (same_group r) all in
              match grp with
              | _ :: _ :: _ =>
                  (* merged = records[0].copy(); then add the others' attributes *)
                  match add_attributes c m (mkRec (rkind r) (rid r) []) (all_attr_args r) with
                  | ADone m1 cp =>
                      match merge_group c m1 cp (tl grp) with
                      | Done m2 merged =>
                          match unify_walk f c m2 all rest (r :: seen) with
                          | Done m3 l => Done m3 (merged :: l)
                          | x => x
                          end
                      | Fail m2 e => Fail m2 e
                      | OOD => OOD
                      end
                  | AFail m1 _ e => Fail m1 e
                  | AOOD => OOD
                  end
              | _ =>
                  match unify_walk f c m all rest seen with
                  | Done m' l => Done m' (r :: l)
                  | x => x
                  end
              end
        end
    end
  end.

(* merged records are validated in a scratch manager whose parent is the bundle's
   own manager; the bundle itself is not touched *)
Definition unified_records (ft : ftable) (b : bundle) : result (list prec) :=
  match unify_walk (S (length (brecs b))) (mkCtx (Some (bns b)) ft) nsm_init (brecs b) (brecs b) [] with
  | Done _ l => OK l
  | Fail _ e => Raise e
  | OOD => OutOfDomain
  end.

(* register a list of namespaces in a fresh manager (add_namespaces) *)
Fixpoint add_namespaces (m : nsm) (l : list ns) : option nsm :=
  match l with
  | [] => Some m
  | n :: r => match add_namespace m n with
              | Some (m', _) => add_namespaces m' r
              | None => None
              end
  end.

(* ---- equality ---- *)
Fixpoint dedup (l : list prec) : list prec :=
  match l with
  | [] => []
  | r :: rest => if existsb (rec_eqb r) rest then dedup rest else r :: dedup rest
  end.
Fixpoint remove_first (f : prec -> bool) (l : list prec) : option (list prec) :=
  match l with
  | [] => None
  | x :: r => if f x then Some r
              else match remove_first f r with Some r' => Some (x :: r') | None => None end
  end.
Fixpoint greedy_match (a b : list prec) : bool :=
  match a with
  | [] => true
  | x :: r => match remove_first (rec_eqb x) b with
              | Some b' => greedy_match r b'
              | None => false
              end
  end.
(* ProvBundle.__eq__ *)
Definition bundle_eqb (a b : bundle) : bool :=
  let ra := dedup (brecs a) in
  let rb := dedup (brecs b) in
  Nat.eqb (length ra) (length rb) && greedy_match ra rb.
(* ProvDocument.__eq__ (as repaired) *)
Definition doc_eqb (a b : doc) : bool :=
  bundle_eqb (dmain a) (dmain b) &&
  Nat.eqb (length (dbundles a)) (length (dbundles b)) &&
  forallb (fun kb => match lookup (fst kb) (dbundles b) with
                     | Some ob => bundle_eqb (snd kb) ob
                     | None => false
                     end) (dbundles a).

(* ---- class filter of get_records ---- *)
Definition instance_of (cls : string) (r : prec) : bool :=
  match find (fun e => String.eqb (fst (fst e)) (rkind r)) rec_class_names with
  | Some (_, cn, bases) => String.eqb cls cn || existsb (String.eqb cls) bases
  | None => false
  end.
