(* DotProofs.v — C15: no text, whatever characters it contains, can break the DOT
   syntax or inject markup. *)
From Coq Require Import String Ascii List Bool Arith Lia.
From Prov Require Import Str Dot.
Import ListNotations.
Open Scope string_scope.

Lemma append_cons : forall c a b, String c a ++ b = String c (a ++ b).
Proof. reflexivity. Qed.

(* a quoted text is read back, by the Graphviz lexer rule, as exactly that text and
   ends exactly at its closing quote *)
Theorem scan_dot_escape : forall s rest,
  scan_quoted (dot_escape s ++ String dq rest) = Some (s, rest).
Proof.
  induction s as [|c s IH]; intros rest.
  - cbn [dot_escape append scan_quoted]. rewrite Ascii.eqb_refl. reflexivity.
  - cbn [dot_escape].
    destruct (Ascii.eqb c bsl) eqn:EB.
    + apply Ascii.eqb_eq in EB. subst c. rewrite !append_cons. cbn [scan_quoted].
      replace (Ascii.eqb bsl dq) with false by reflexivity. rewrite Ascii.eqb_refl, IH. reflexivity.
    + destruct (Ascii.eqb c dq) eqn:ED.
      * apply Ascii.eqb_eq in ED. subst c. rewrite !append_cons. cbn [scan_quoted].
        replace (Ascii.eqb bsl dq) with false by reflexivity. rewrite Ascii.eqb_refl, IH. reflexivity.
      * rewrite append_cons. cbn [scan_quoted]. rewrite ED, EB, IH. reflexivity.
Qed.

Theorem quoted_id_roundtrip : forall s rest,
  read_quoted_id (dot_quote s ++ rest) = Some (s, rest).
Proof.
  intros s rest. unfold dot_quote, read_quoted_id. rewrite append_cons, Ascii.eqb_refl.
  assert (E : (dot_escape s ++ String dq "") ++ rest = dot_escape s ++ String dq rest).
  { induction (dot_escape s) as [|c e IHe]; cbn; [reflexivity | rewrite IHe; reflexivity]. }
  rewrite E. apply scan_dot_escape.
Qed.

(* HTML-like text *)
Lemma html_escape_length : forall s, String.length (html_escape s) <= 6 * String.length s.
Proof.
  induction s as [|c s IH]; cbn [html_escape String.length]; [lia|].
  destruct (Ascii.eqb c "&"); [cbn; lia|]. destruct (Ascii.eqb c "<"); [cbn; lia|].
  destruct (Ascii.eqb c ">"); [cbn; lia|]. destruct (Ascii.eqb c dq); [cbn; lia|].
  destruct (Ascii.eqb c "'"); cbn; lia.
Qed.

Theorem html_text_escape : forall s f, String.length s <= f -> html_text f (html_escape s) = Some s.
Proof.
  induction s as [|c s IH]; intros f L.
  - destruct f; reflexivity.
  - destruct f as [|f]; [cbn in L; lia|].
    assert (L' : String.length s <= f) by (cbn in L; lia).
    cbn [html_escape].
    destruct (Ascii.eqb c "&") eqn:E1.
    { apply Ascii.eqb_eq in E1. subst c. cbn [append html_text]. cbn. rewrite (IH f L'). reflexivity. }
    destruct (Ascii.eqb c "<") eqn:E2.
    { apply Ascii.eqb_eq in E2. subst c. cbn [append html_text]. cbn. rewrite (IH f L'). reflexivity. }
    destruct (Ascii.eqb c ">") eqn:E3.
    { apply Ascii.eqb_eq in E3. subst c. cbn [append html_text]. cbn. rewrite (IH f L'). reflexivity. }
    destruct (Ascii.eqb c dq) eqn:E4.
    { apply Ascii.eqb_eq in E4. subst c. cbn [append html_text]. cbn. rewrite (IH f L'). reflexivity. }
    destruct (Ascii.eqb c "'") eqn:E5.
    { apply Ascii.eqb_eq in E5. subst c. cbn [append html_text]. cbn. rewrite (IH f L'). reflexivity. }
    cbn [append html_text]. rewrite E2, E3, E4, E1. cbn [orb]. rewrite (IH f L'). reflexivity.
Qed.
