(* XmlRead.v — model of the PROV-XML reader for one record element (ProvXMLSerializer.deserialize_subtree, the
   body of its loop, with _extract_attributes and xml_qname_to_QualifiedName): names are resolved against the
   in-scope prefix bindings of the element that carries them (element.nsmap), the children become (name, value)
   arguments in document order, the element name gives the class and — for a subtype element — an asserted
   type added after the record is made; a prov:hadMember with several prov:entity children becomes one
   membership per entity. *)
From Coq Require Import String Ascii List Bool Arith ZArith.
From Prov Require Import Str Sexp Tables Nsm Values Record World XmlSpec XmlLabel.
Import ListNotations.
Open Scope string_scope.

(* xml_qname_to_QualifiedName(element, s); None = ProvXMLException *)
Definition xml_qname (scope : list (string * string)) (s : string) : option qname :=
  let dflt := match lookup "" scope with
              | Some u => Some (mkQn (mkNs "" u) s)
              | None => None
              end in
  match split_colon s with
  | Some (p, l) =>
      match lookup p scope with
      | Some u =>
          if String.eqb u XmlSpec.xsd_ns then Some (xsd_qn l)
          else if String.eqb u prov_uri then Some (prov_qn l)
          else Some (mkQn (mkNs p u) l)
      | None => dflt
      end
  | None => dflt
  end.

(* the prefix lxml reports for an element or attribute name: a prefix of the scope bound to that namespace
   (the harness supplies the one lxml chose) *)
Definition tag_name (prefix : option string) (local : string) : string :=
  match prefix with Some p => p ++ ":" ++ local | None => local end.

(* one child: attributes are visited in document order; a later one overrides *)
Definition extract_value (scope : list (string * string)) (attrs : list (string * string * string)) (text : string)
  : option valarg :=
  let step (acc : option (option valarg)) (a : string * string * string) : option (option valarg) :=
    match acc with
    | None => None
    | Some cur =>
        let '(ans, al, v) := a in
        if (String.eqb ans XmlSpec.xsi_ns && String.eqb al "type")%bool then
          match xml_qname scope v with
          | None => None
          | Some dt =>
              if String.eqb (qn_uri dt) (xsd_uri ++ "QName") then
                match xml_qname scope text with Some q => Some (Some (AQn q)) | None => None end
              else Some (Some (ALit text (Some dt) None))
          end
        else if (String.eqb ans prov_uri && String.eqb al "ref")%bool then
          match xml_qname scope v with Some q => Some (Some (AQn q)) | None => None end
        else if (String.eqb ans XmlSpec.xml_ns && String.eqb al "lang")%bool then
          Some (Some (ALit text None (Some v)))
        else Some cur                                        (* ignored with a warning *)
    end in
  match fold_left step attrs (Some None) with
  | None => None
  | Some (Some v) => Some v
  | Some None =>
      match attrs with
      | [] => Some (AStr text)
      | _ => None                                            (* only unknown attributes: _v unbound — out of the model *)
      end
  end.

(* the prefixes of the children as lxml reports them *)
Definition child_arg (prefix_of : string -> option string) (c : xnode) : option (namearg * valarg) :=
  match c with
  | XE ns local attrs scope text _ =>
      match xml_qname scope (tag_name (prefix_of ns) local), extract_value scope attrs text with
      | Some t, Some v => Some (NQn t, v)
      | _, _ => None
      end
  end.

Fixpoint all_args (prefix_of : string -> option string) (kids : list xnode) : option (list (namearg * valarg)) :=
  match kids with
  | [] => Some []
  | c :: r => match child_arg prefix_of c, all_args prefix_of r with
              | Some a, Some l => Some (a :: l)
              | _, _ => None
              end
  end.

Definition is_entity_arg (na : namearg * valarg) : bool :=
  match fst na with NQn q => is_prov_name "entity" q | _ => false end.

(* a child with attributes none of which is xsi:type, prov:ref or xml:lang leaves _v unbound (or stale) in
   _extract_attributes: outside the model *)
Definition known_attr (a : string * string * string) : bool :=
  let '(ans, al, _) := a in
  ((String.eqb ans XmlSpec.xsi_ns && String.eqb al "type") || (String.eqb ans prov_uri && String.eqb al "ref")
   || (String.eqb ans XmlSpec.xml_ns && String.eqb al "lang"))%bool.
Definition stale_child (c : xnode) : bool :=
  match c with XE _ _ attrs _ _ _ => (negb (existsb known_attr attrs) && match attrs with [] => false | _ => true end)%bool end.

(* deserialize_subtree for one record element into bundle b *)
Definition xml_read_record (par : option nsm) (ft : ftable) (prefix_of : string -> option string) (b : bundle) (x : xnode)
  : bundle * result unit :=
  match x with
  | XE ns local attrs scope _ kids =>
      if negb (String.eqb ns prov_uri) then (b, Raise EXml) else
      if existsb stale_child kids then (b, OutOfDomain) else
      match read_label local with
      | None => (b, Raise EKey)
      | Some (kind, sub) =>
          let idres : option (option qname) :=
            match xattr prov_uri "id" attrs with
            | None => Some None
            | Some s => match xml_qname scope s with Some q => Some (Some q) | None => None end
            end in
          match idres, all_args prefix_of kids with
          | Some rec_id, Some args0 =>
              let xt : option (list (namearg * valarg)) :=
                match xattr XmlSpec.xsi_ns "type" attrs with
                | None => Some []
                | Some v => match xml_qname scope v with
                            | Some q => Some [(NQn (prov_qn "type"), AQn q)]
                            | None => None
                            end
                end in
              match xt with
              | None => (b, Raise EXml)
              | Some xtl =>
                  let args1 := (args0 ++ xtl)%list in
                  let members := filter is_entity_arg args1 in
                  let '(args, extra) :=
                    if (String.eqb kind "Membership" && Nat.ltb 1 (length members))%bool then
                      ((filter (fun na => negb (is_entity_arg na)) args1 ++ firstn 1 members)%list, skipn 1 members)
                    else (args1, []) in
                  match new_record par ft b kind (option_map NQn rec_id) args with
                  | (b1, OK r) =>
                      let after_type : bundle * result prec :=
                        match sub with
                        | None => (b1, OK r)
                        | Some ty =>
                            match add_attributes (mkCtx par ft) (bns b1) r [(NQn (prov_qn "type"), AQn (prov_qn ty))] with
                            | ADone m2 r2 => (mkB (bid b1) m2 (set_nth (length (brecs b1) - 1) r2 (brecs b1)) (bidmap b1), OK r2)
                            | AFail m2 r2 e => (mkB (bid b1) m2 (set_nth (length (brecs b1) - 1) r2 (brecs b1)) (bidmap b1), Raise e)
                            | AOOD => (b1, OutOfDomain)
                            end
                        end in
                      match after_type, extra with
                      | (b2, OK _), [] => (b2, OK tt)
                      | (b2, OK _), _ => (b2, OutOfDomain)      (* extra memberships: bundle.membership(...) — not modelled here *)
                      | (b2, Raise e), _ => (b2, Raise e)
                      | (b2, OutOfDomain), _ => (b2, OutOfDomain)
                      end
                  | (b1, Raise e) => (b1, Raise e)
                  | (b1, OutOfDomain) => (b1, OutOfDomain)
                  end
              end
          | _, _ => (b, Raise EXml)
          end
      end
  end.

(* the loop of deserialize_subtree over the record children of a container element: stops at the first failure *)
Fixpoint xml_read_records (par : option nsm) (ft : ftable) (prefix_of : string -> option string) (b : bundle) (xs : list xnode)
  : bundle * result unit :=
  match xs with
  | [] => (b, OK tt)
  | x :: r =>
      match xml_read_record par ft prefix_of b x with
      | (b', OK _) => xml_read_records par ft prefix_of b' r
      | (b', Raise e) => (b', Raise e)
      | (b', OutOfDomain) => (b', OutOfDomain)
      end
  end.
