(* XmlLabel.v — model of the element-name choice of the PROV-XML writer
   (ProvXMLSerializer._derive_record_label: a prov:type naming a subtype of the record's
   class becomes the element name and is taken out of the attributes) and of the reader's
   inverse (the element name gives the base class and, for a subtype element, one asserted
   prov:type).  The tables are the generated ones (PROV_N_MAP, ADDITIONAL_N_MAP,
   PROV_BASE_CLS). *)
From Coq Require Import String Ascii List Bool Arith ZArith.
From Prov Require Import Str Sexp Tables Nsm Values.
Import ListNotations.
Open Scope string_scope.

(* FULL_NAMES_MAP = dict(PROV_N_MAP); FULL_NAMES_MAP.update(ADDITIONAL_N_MAP) *)
Definition full_name (l : string) : option string :=
  match lookup l additional_n_map with Some n => Some n | None => lookup l prov_n_map end.

(* value in PROV_BASE_CLS and PROV_BASE_CLS[value] != value and PROV_BASE_CLS[value] == rec_type.
   Only a QualifiedName can be a key of that dictionary (an Identifier of the same URI hashes
   differently; the lexical form of a Literal is a str). *)
Definition subtype_local (kind : string) (v : value) : option string :=
  match v with
  | VQn q =>
      match find (fun l => is_prov_name l q) (map fst prov_base_cls) with
      | Some l =>
          match lookup l prov_base_cls with
          | Some b => if (negb (String.eqb b l) && String.eqb b kind)%bool then Some l else None
          | None => None
          end
      | None => None
      end
  | _ => None
  end.

(* the loop: the first prov:type pair whose value names a subtype is taken out — that pair,
   at that position *)
Fixpoint derive_label (kind : string) (attrs : list (qname * value)) : option (string * list (qname * value)) :=
  match attrs with
  | [] => None
  | (k, v) :: rest =>
      match (if is_prov_name "type" k then subtype_local kind v else None) with
      | Some l => Some (l, rest)
      | None =>
          match derive_label kind rest with
          | Some (l, r) => Some (l, (k, v) :: r)
          | None => None
          end
      end
  end.

Definition record_label (kind : string) (attrs : list (qname * value)) : option (string * list (qname * value)) :=
  match derive_label kind attrs with
  | Some (l, r) => option_map (fun n => (n, r)) (full_name l)
  | None => option_map (fun n => (n, attrs)) (full_name kind)
  end.

(* FULL_PROV_RECORD_IDS_MAP[localname], PROV_BASE_CLS[...], and the asserted type a subtype
   element stands for *)
Definition label_ids : list (string * string) :=
  map (fun p => (snd p, fst p)) (prov_n_map ++ additional_n_map)%list.

Definition read_label (lab : string) : option (string * option string) :=
  match lookup lab label_ids with
  | Some l =>
      match lookup l prov_base_cls with
      | Some b => Some (b, if String.eqb b l then None else Some l)
      | None => None
      end
  | None => None
  end.

(* wire format *)
Definition sx_pair (p : qname * value) : sexp := L [sx_qn (fst p); sx_value (snd p)].
Definition sx_label (r : option (string * list (qname * value))) : sexp :=
  match r with
  | Some (n, l) => L [A "some"; A n; L (map sx_pair l)]
  | None => L [A "none"]
  end.
Definition sx_read_label (r : option (string * option string)) : sexp :=
  match r with
  | Some (b, Some l) => L [A "some"; A b; L [A "some"; A l]]
  | Some (b, None) => L [A "some"; A b; L [A "none"]]
  | None => L [A "none"]
  end.
