(* Values.v — attribute values as the library stores them, Python ==/hash as seen
   through sets, the XSD lexical parsers (prov.model: parse_xsd_types,
   parse_boolean, parse_xsd_datetime, int, float, Identifier) and the wire format. *)
From Coq Require Import String Ascii List Bool Arith ZArith DecimalString DecimalZ Decimal.
From Prov Require Import Str Sexp Tables Nsm.
Import ListNotations.
Open Scope string_scope.

(* datetime.datetime: fields and an optional UTC offset in minutes *)
Record dtime : Type := mkDt {
  dy : Z; dmo : Z; dd : Z; dh : Z; dmi : Z; dsec : Z; dus : Z; dtz : option Z
}.

Inductive value : Type :=
| VStr (s : string)
| VInt (z : Z)
| VFloat (r : string) (iv : option Z) (g : string)
    (* repr(x); Some n iff x is the integer n; '%g' % x.  Floats are opaque to the
       model apart from equality: the three components come from CPython *)
| VBool (b : bool)
| VTime (t : dtime)
| VId (u : string)                   (* Identifier that is not a QualifiedName *)
| VQn (q : qname)
| VLit (lex : string) (dt : option qname) (lang : option string).

(* ---- Python equality ---- *)
Definition opt_eqb {T} (f : T -> T -> bool) (a b : option T) : bool :=
  match a, b with
  | None, None => true
  | Some x, Some y => f x y
  | _, _ => false
  end.

(* days from civil (proleptic Gregorian), then microseconds since the epoch *)
Definition days_from_civil (y m d : Z) : Z :=
  (let y' := if Z.leb m 2 then y - 1 else y in
   let era := Z.div y' 400 in
   let yoe := y' - era * 400 in
   let mp := Z.modulo (m + 9) 12 in
   let doy := Z.div (153 * mp + 2) 5 + d - 1 in
   let doe := yoe * 365 + Z.div yoe 4 - Z.div yoe 100 + doy in
   era * 146097 + doe - 719468)%Z.

Definition naive_us (t : dtime) : Z :=
  ((((days_from_civil (dy t) (dmo t) (dd t) * 24 + dh t) * 60 + dmi t) * 60 + dsec t) * 1000000 + dus t)%Z.

Definition time_eqb (a b : dtime) : bool :=
  match dtz a, dtz b with
  | None, None => Z.eqb (naive_us a) (naive_us b)
  | Some oa, Some ob => Z.eqb (naive_us a - oa * 60000000)%Z (naive_us b - ob * 60000000)%Z
  | _, _ => false
  end.

(* numbers: integral value, or the repr of a non-integral float *)
Definition num_of (v : value) : option (option Z * string) :=
  match v with
  | VInt z => Some (Some z, "")
  | VBool b => Some (Some (if b then 1%Z else 0%Z), "")
  | VFloat r iv _ => Some (iv, r)
  | _ => None
  end.

(* a == b *)
Definition py_eq (a b : value) : bool :=
  match num_of a, num_of b with
  | Some (Some x, _), Some (Some y, _) => Z.eqb x y
  | Some (None, r1), Some (None, r2) => String.eqb r1 r2
  | Some _, Some _ => false
  | None, None =>
      match a, b with
      | VStr s, VStr t => String.eqb s t
      | VTime t1, VTime t2 => time_eqb t1 t2
      | VId u, VId w => String.eqb u w
      | VQn q, VQn r => qn_eqb q r
      | VId u, VQn q => String.eqb u (qn_uri q)
      | VQn q, VId u => String.eqb u (qn_uri q)
      | VLit l d g, VLit l' d' g' =>
          String.eqb l l' && opt_eqb qn_eqb d d' && opt_eqb String.eqb g g'
      | _, _ => false
      end
  | _, _ => false
  end.

(* same element of a set: equal and hashing alike (Identifier hashes with its
   class, QualifiedName by URI only, so an equal pair of the two stays apart) *)
Definition set_same (a b : value) : bool :=
  match a, b with
  | VId _, VQn _ => false
  | VQn _, VId _ => false
  | _, _ => py_eq a b
  end.

Definition set_mem (v : value) (l : list value) : bool := existsb (set_same v) l.
Definition set_add (v : value) (l : list value) : list value :=
  if set_mem v l then l else (l ++ [v])%list.

(* ---- lexical forms ---- *)
Definition digit_val (c : ascii) : option Z :=
  let n := nat_of_ascii c in
  if (Nat.leb 48 n && Nat.leb n 57)%bool then Some (Z.of_nat (n - 48)) else None.

Fixpoint digits_val (acc : Z) (s : string) : option Z :=
  match s with
  | EmptyString => Some acc
  | String c r => match digit_val c with
                  | Some d => digits_val (acc * 10 + d)%Z r
                  | None => None
                  end
  end.

Fixpoint lstrip (s : string) : string :=
  match s with
  | String c r => if is_space_ascii c then lstrip r else s
  | EmptyString => EmptyString
  end.
Fixpoint rstrip (s : string) : string :=
  match s with
  | EmptyString => EmptyString
  | String c r =>
      match rstrip r with
      | EmptyString => if is_space_ascii c then EmptyString else String c EmptyString
      | r' => String c r'
      end
  end.
Definition strip (s : string) : string := rstrip (lstrip s).

Definition is_digit (c : ascii) : bool :=
  match digit_val c with Some _ => true | None => false end.

(* int(s) for the plain decimal forms (optional sign, surrounding ASCII white
   space); None = ValueError.  Digit strings go through the standard library's
   DecimalString so that the round trip with str() is a library lemma. *)
Definition parse_int (s : string) : option Z :=
  match strip s with
  | String "+" (String c r) =>
      if is_digit c then option_map Z.of_int (NilZero.int_of_string (String c r)) else None
  | String "+" EmptyString => None
  | t => option_map Z.of_int (NilZero.int_of_string t)
  end.

Definition lower_ascii (c : ascii) : ascii :=
  let n := nat_of_ascii c in
  if (Nat.leb 65 n && Nat.leb n 90)%bool then ascii_of_nat (n + 32) else c.
Fixpoint lower (s : string) : string :=
  match s with EmptyString => EmptyString | String c r => String (lower_ascii c) (lower r) end.

(* prov.model.parse_boolean *)
Definition parse_boolean (s : string) : option bool :=
  let l := lower s in
  if (String.eqb l "false" || String.eqb l "0")%bool then Some false
  else if (String.eqb l "true" || String.eqb l "1")%bool then Some true
  else None.

(* the lexical space of xsd:boolean (XML Schema Part 2, 3.2.2.1): exactly true, false, 1, 0 — an independent reader (the
   specification readers XmlSpec, JsonSpec, ProvnSpec) does not share prov.model.parse_boolean's case-insensitivity ("True" is not an xsd:boolean) *)
Definition xsd_boolean (s : string) : option bool :=
  if (String.eqb s "false" || String.eqb s "0")%bool then Some false
  else if (String.eqb s "true" || String.eqb s "1")%bool then Some true
  else None.

(* ---- ISO-8601 date-times: datetime.isoformat() and the ISO subset of
   dateutil.parser.parse ---- *)
Definition pad (w : nat) (z : Z) : string :=
  let s := str_of_Z z in
  let fix zeros n := match n with O => "" | S k => "0" ++ zeros k end in
  zeros (w - String.length s) ++ s.

Definition print_offset (o : Z) : string :=
  let a := Z.abs o in
  (if Z.ltb o 0 then "-" else "+") ++ pad 2 (Z.div a 60) ++ ":" ++ pad 2 (Z.modulo a 60).

Definition iso_print (t : dtime) : string :=
  pad 4 (dy t) ++ "-" ++ pad 2 (dmo t) ++ "-" ++ pad 2 (dd t) ++ "T" ++
  pad 2 (dh t) ++ ":" ++ pad 2 (dmi t) ++ ":" ++ pad 2 (dsec t) ++
  (if Z.eqb (dus t) 0 then "" else "." ++ pad 6 (dus t)) ++
  match dtz t with None => "" | Some o => print_offset o end.

(* take exactly n digits *)
Fixpoint take_digits (n : nat) (acc : Z) (s : string) : option (Z * string) :=
  match n with
  | O => Some (acc, s)
  | S k => match s with
           | String c r => match digit_val c with
                           | Some d => take_digits k (acc * 10 + d)%Z r
                           | None => None
                           end
           | EmptyString => None
           end
  end.
Definition expect (c : ascii) (s : string) : option string :=
  match s with String d r => if Ascii.eqb c d then Some r else None | EmptyString => None end.

(* fraction: 1..6 digits, scaled to microseconds *)
Fixpoint take_frac (fuel : nat) (acc : Z) (n : nat) (s : string) : Z * nat * string :=
  match fuel with
  | O => (acc, n, s)
  | S f => match s with
           | String c r => match digit_val c with
                           | Some d => take_frac f (acc * 10 + d)%Z (S n) r
                           | None => (acc, n, s)
                           end
           | EmptyString => (acc, n, s)
           end
  end.

Definition parse_tz (s : string) : option (option Z) :=
  match s with
  | EmptyString => Some None
  | String "Z" EmptyString => Some (Some 0%Z)
  | String sg r =>
      if (Ascii.eqb sg "+" || Ascii.eqb sg "-")%bool then
        match take_digits 2 0%Z r with
        | Some (hh, r1) =>
            match expect ":" r1 with
            | Some r2 =>
                match take_digits 2 0%Z r2 with
                | Some (mm, EmptyString) =>
                    if (Z.ltb hh 24 && Z.ltb mm 60)%bool then
                      let o := (hh * 60 + mm)%Z in
                      Some (Some (if Ascii.eqb sg "-" then (- o)%Z else o))
                    else None
                | _ => None
                end
            | None => None
            end
        | None => None
        end
      else None
  end.

Definition days_in_month (y m : Z) : Z :=
  if Z.eqb m 2 then
    (if (Z.eqb (Z.modulo y 4) 0 && (negb (Z.eqb (Z.modulo y 100) 0) || Z.eqb (Z.modulo y 400) 0))%bool
     then 29 else 28)%Z
  else if (Z.eqb m 4 || Z.eqb m 6 || Z.eqb m 9 || Z.eqb m 11)%bool then 30%Z else 31%Z.

Definition valid_dt (t : dtime) : bool :=
  (Z.leb 1 (dy t) && Z.leb (dy t) 9999 && Z.leb 1 (dmo t) && Z.leb (dmo t) 12 &&
   Z.leb 1 (dd t) && Z.leb (dd t) (days_in_month (dy t) (dmo t)) &&
   Z.leb 0 (dh t) && Z.ltb (dh t) 24 && Z.leb 0 (dmi t) && Z.ltb (dmi t) 60 &&
   Z.leb 0 (dsec t) && Z.ltb (dsec t) 60 && Z.leb 0 (dus t) && Z.ltb (dus t) 1000000 &&
   match dtz t with None => true | Some o => Z.ltb (-1440) o && Z.ltb o 1440 end)%bool.

Definition pow10 (n : nat) : Z := Z.pow 10 (Z.of_nat n).

(* YYYY-MM-DDTHH:MM:SS[.f{1,6}][Z|+HH:MM|-HH:MM] *)
Definition iso_parse (s : string) : option dtime :=
  match take_digits 4 0%Z s with
  | Some (y, s1) =>
    match expect "-" s1 with Some s2 =>
    match take_digits 2 0%Z s2 with Some (mo, s3) =>
    match expect "-" s3 with Some s4 =>
    match take_digits 2 0%Z s4 with Some (d, s5) =>
    match expect "T" s5 with Some s6 =>
    match take_digits 2 0%Z s6 with Some (h, s7) =>
    match expect ":" s7 with Some s8 =>
    match take_digits 2 0%Z s8 with Some (mi, s9) =>
    match expect ":" s9 with Some s10 =>
    match take_digits 2 0%Z s10 with Some (sec, s11) =>
      let '(us, rest) :=
        match expect "." s11 with
        | Some s12 =>
            let '(f, n, r) := take_frac 6 0%Z 0 s12 in
            (match n with O => (-1)%Z | _ => (f * pow10 (6 - n))%Z end, r)
        | None => (0%Z, s11)
        end in
      match parse_tz rest with
      | Some tz =>
          let t := mkDt y mo d h mi sec us tz in
          if valid_dt t then Some t else None
      | None => None
      end
    | None => None end | None => None end | None => None end | None => None end
    | None => None end | None => None end | None => None end | None => None end
    | None => None end | None => None end
  | None => None
  end.

Fixpoint has_digit (s : string) : bool :=
  match s with
  | EmptyString => false
  | String c r => match digit_val c with Some _ => true | None => has_digit r end
  end.

(* dateutil.parser.parse as used by the library: ISO form -> datetime; a string
   without any digit -> ParserError (a ValueError); anything else is outside the
   modelled subset *)
Inductive dtres : Type := DtOk (t : dtime) | DtInvalid | DtOutOfDomain.
Definition parse_datetime (s : string) : dtres :=
  match iso_parse s with
  | Some t => DtOk t
  | None => if has_digit s then DtOutOfDomain else DtInvalid
  end.

(* ---- float oracle: lexical form -> (repr, integral value, %g); supplied by the
   harness from CPython's float() for every lexical form a program contains ---- *)
Definition ftable : Type := list (string * option (string * option Z * string)).
Inductive fres : Type := FOk (v : value) | FInvalid | FOutOfDomain.
Definition parse_float (ft : ftable) (s : string) : fres :=
  match lookup s ft with
  | Some (Some (r, iv, g)) => FOk (VFloat r iv g)
  | Some None => FInvalid
  | None => FOutOfDomain
  end.

(* ---- well-known names ---- *)
Definition prov_ns : ns := mkNs "prov" prov_uri.
Definition xsd_ns : ns := mkNs "xsd" xsd_uri.
Definition prov_qn (l : string) : qname := mkQn prov_ns l.
Definition xsd_qn (l : string) : qname := mkQn xsd_ns l.
Definition is_prov_name (l : string) (q : qname) : bool := String.eqb (qn_uri q) (prov_uri ++ l).
Definition in_prov_set (tblnames : list string) (q : qname) : bool :=
  existsb (fun l => is_prov_name l q) tblnames.
Definition xsd_local (q : qname) : option string :=
  find (fun l => String.eqb (qn_uri q) (xsd_uri ++ l)) (map fst xsd_parsers).

(* Literal.__init__ : a language tag forces prov:InternationalizedString *)
Definition mk_literal (lex : string) (dt : option qname) (lang : option string) : value :=
  match lang with
  | Some EmptyString => VLit lex dt (Some "")
  | Some l => VLit lex (Some (prov_qn "InternationalizedString")) (Some l)
  | None => VLit lex dt None
  end.

(* ---- wire format ---- *)
Definition sx_Z (z : Z) : sexp := A (str_of_Z z).
Definition sx_opt {T} (f : T -> sexp) (o : option T) : sexp :=
  match o with Some x => f x | None => A "none" end.
Definition sx_time (t : dtime) : sexp :=
  L [A "time"; sx_Z (dy t); sx_Z (dmo t); sx_Z (dd t); sx_Z (dh t); sx_Z (dmi t); sx_Z (dsec t);
     sx_Z (dus t); sx_opt sx_Z (dtz t)].
Definition sx_value (v : value) : sexp :=
  match v with
  | VStr s => L [A "str"; A s]
  | VInt z => L [A "int"; sx_Z z]
  | VFloat r iv g => L [A "float"; A r; sx_opt sx_Z iv; A g]
  | VBool b => L [A "bool"; A (if b then "true" else "false")]
  | VTime t => sx_time t
  | VId u => L [A "id"; A u]
  | VQn q => sx_qn q
  | VLit l d g => L [A "lit"; A l; sx_opt sx_qn d; sx_opt (fun x => L [A "some"; A x]) g]
  end.

Definition parse_Z (s : string) : option Z :=
  match s with
  | String "-" r => match digits_val 0%Z r with Some z => Some (- z)%Z | None => None end
  | EmptyString => None
  | _ => digits_val 0%Z s
  end.
Definition px_Z (x : sexp) : option Z := match x with A s => parse_Z s | _ => None end.
Definition px_optZ (x : sexp) : option (option Z) :=
  match x with
  | A "none" => Some None
  | A s => match parse_Z s with Some z => Some (Some z) | None => None end
  | _ => None
  end.
Definition px_qn (x : sexp) : option qname :=
  match x with
  | L [A "qn"; A p; A u; A l] => Some (mkQn (mkNs p u) l)
  | _ => None
  end.
Definition px_time (x : sexp) : option dtime :=
  match x with
  | L [A "time"; y; mo; d; h; mi; s; us; tz] =>
      match px_Z y, px_Z mo, px_Z d, px_Z h, px_Z mi, px_Z s, px_Z us, px_optZ tz with
      | Some y', Some mo', Some d', Some h', Some mi', Some s', Some us', Some tz' =>
          Some (mkDt y' mo' d' h' mi' s' us' tz')
      | _, _, _, _, _, _, _, _ => None
      end
  | _ => None
  end.
