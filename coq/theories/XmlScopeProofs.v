(* XmlScopeProofs.v — C02: every name a container's manager binds is read back, in the scope the writer attaches to
   that container's element, as exactly that name.  With this the hypothesis `scoped scope q` of the record-level
   theorem (XmlReadProofs.xml_record_roundtrip) becomes a fact about managers of reachable scopes. *)
From Coq Require Import String Ascii List Bool Arith Lia.
From Prov Require Import Str StrProofs Sexp Tables Nsm NsmProofs Scope ScopeProofs Values Record World XmlSpec XmlRead XmlScope
  JsonProofs XmlReadProofs.
Import ListNotations.
Open Scope string_scope.

(* ---- registered namespaces and the prefix table *)
Record InvR (m : nsm) : Prop := {
  ir_in : forall p n, p <> "" -> lookup p (regd m) = Some n -> lookup p (tbl m) = Some n;
  ir_out : forall p n, p <> "" -> lookup p (tbl m) = Some n -> lookup p builtin_tbl = Some n \/ lookup p (regd m) = Some n;
  ir_builtin : forall p n, lookup p builtin_tbl = Some n -> lookup p (tbl m) = Some n /\ lookup p (regd m) = None;
  ir_uniq : uniq (regd m);
  ir_key : forall k n, In (k, n) (regd m) -> ns_prefix n = k
}.

Lemma InvR_init : InvR nsm_init.
Proof.
  split; unfold nsm_init; cbn [tbl regd].
  - intros p n _ H. discriminate.
  - intros p n _ H. left. exact H.
  - intros p n H. split; [exact H | reflexivity].
  - constructor.
  - intros k n [].
Qed.

Lemma In_dset {V} : forall (d : list (string * V)) k v k' v', In (k', v') (dset k v d) -> (k' = k /\ v' = v) \/ In (k', v') d.
Proof.
  induction d as [|[k0 v0] d IH]; cbn [dset]; intros k v k' v' H.
  - destruct H as [H|[]]. inversion H; subst. left; split; reflexivity.
  - destruct (String.eqb k k0) eqn:E.
    + apply String.eqb_eq in E. subst k0. destruct H as [H|H].
      * inversion H; subst. left; split; reflexivity.
      * right; right; exact H.
    + destruct H as [H|H]; [right; left; exact H|].
      destruct (IH _ _ _ _ H) as [X|X]; [left; exact X | right; right; exact X].
Qed.

Lemma lookup_dset_eq {V} : forall (d : list (string * V)) k k' v,
  lookup k' (dset k v d) = if String.eqb k' k then Some v else lookup k' d.
Proof.
  intros d k k' v. destruct (String.eqb k' k) eqn:E.
  - apply String.eqb_eq in E. subst. apply lookup_dset_same.
  - apply lookup_dset_other. intro X. subst. rewrite String.eqb_refl in E. discriminate.
Qed.

Lemma add_fresh_InvR : forall m p n, InvR m -> ns_prefix n = p -> mem p (tbl m) = false ->
  InvR (mkNsm (dset p n (tbl m)) (dset p n (regd m)) (dflt m) (dset (ns_uri n) n (urimap m)) (renmap m) (prenmap m)) /\
  forall rm pm, InvR (mkNsm (dset p n (tbl m)) (dset p n (regd m)) (dflt m) (dset (ns_uri n) n (urimap m)) rm pm).
Proof.
  intros m p n I EP NM.
  assert (G : forall rm pm, InvR (mkNsm (dset p n (tbl m)) (dset p n (regd m)) (dflt m) (dset (ns_uri n) n (urimap m)) rm pm)).
  { intros rm pm. pose proof (mem_false_lookup _ _ NM) as NL. split; cbn [tbl regd].
    - intros q x NE H. rewrite lookup_dset_eq in *. destruct (String.eqb q p); [exact H | apply (ir_in _ I); assumption].
    - intros q x NE H. rewrite lookup_dset_eq in *. destruct (String.eqb q p); [right; exact H | apply (ir_out _ I); assumption].
    - intros q x H. destruct (ir_builtin _ I q x H) as [T R]. rewrite !lookup_dset_eq.
      destruct (String.eqb q p) eqn:E; [|split; assumption].
      apply String.eqb_eq in E. subst q. rewrite NL in T. discriminate.
    - apply uniq_dset. apply (ir_uniq _ I).
    - intros k x H. destruct (In_dset _ _ _ _ _ H) as [[-> ->]|H2]; [exact EP | apply (ir_key _ I); exact H2]. }
  split; [apply G | exact G].
Qed.

Lemma add_namespace_InvR : forall m n m' r, InvR m -> add_namespace m n = Some (m', r) -> InvR m'.
Proof.
  intros m n m' r I H. unfold add_namespace in H.
  destruct (in_values n (tbl m)); [inversion H; subst; exact I|].
  destruct (ren_lookup n (renmap m)); [inversion H; subst; exact I|].
  destruct (lookup (ns_uri n) (urimap m)) as [e|].
  - inversion H; subst. split; cbn [tbl regd]; [apply (ir_in _ I) | apply (ir_out _ I) | apply (ir_builtin _ I) | apply (ir_uniq _ I) | apply (ir_key _ I)].
  - destruct (mem (ns_prefix n) (tbl m)) eqn:M.
    + destruct (get_unused_prefix (ns_prefix n) (tbl m)) as [np|] eqn:GU; [|discriminate].
      assert (NM : mem np (tbl m) = false) by (eapply get_unused_prefix_spec; eauto).
      injection H as E1 _. rewrite <- E1.
      apply (proj2 (add_fresh_InvR m np (mkNs np (ns_uri n)) I eq_refl NM)).
    + injection H as E1 _. rewrite <- E1. apply (proj1 (add_fresh_InvR m (ns_prefix n) n I eq_refl M)).
Qed.

Lemma empty_not_builtin : forall n, lookup "" builtin_tbl = Some n -> False.
Proof. intros n H. vm_compute in H. discriminate. Qed.

Lemma set_empty_InvR : forall m n d um, InvR m ->
  InvR (mkNsm (dset "" n (tbl m)) (regd m) d um (renmap m) (prenmap m)).
Proof.
  intros m n d um I. split; cbn [tbl regd].
  - intros p x NE H. rewrite lookup_dset_eq. destruct (String.eqb p "") eqn:E; [apply String.eqb_eq in E; contradiction|].
    apply (ir_in _ I); assumption.
  - intros p x NE H. rewrite lookup_dset_eq in H. destruct (String.eqb p "") eqn:E; [apply String.eqb_eq in E; contradiction|].
    apply (ir_out _ I); assumption.
  - intros p x H. destruct (ir_builtin _ I p x H) as [T R]. split; [|exact R].
    rewrite lookup_dset_eq. destruct (String.eqb p "") eqn:E; [|exact T].
    apply String.eqb_eq in E. subst p. exfalso. exact (empty_not_builtin x H).
  - apply (ir_uniq _ I).
  - apply (ir_key _ I).
Qed.

Lemma set_default_InvR : forall m u, InvR m -> InvR (set_default m u).
Proof. intros m u I. unfold set_default. apply (set_empty_InvR m (mkNs "" u) (Some (mkNs "" u)) (urimap m) I). Qed.

Lemma resolve_qn_InvR : forall m q m' q', InvR m -> resolve_qn m q = Some (m', q') -> InvR m'.
Proof.
  intros m [n l] m' q' I H. unfold resolve_qn in H; cbn [qn_ns qn_local] in H.
  destruct (ns_prefix n) as [|c p] eqn:EP.
  - destruct (dflt m) as [d|] eqn:ED.
    + destruct (ns_eqb d n); [inversion H; subst; exact I|].
      destruct (add_namespace m (mkNs "dn" (ns_uri n))) as [[m2 n2]|] eqn:EA; [|discriminate].
      inversion H; subst. eapply add_namespace_InvR; eauto.
    + inversion H; subst. apply (set_empty_InvR m n (Some n) (urimap m) I).
  - destruct (lookup (String c p) (tbl m)) as [e|].
    + destruct (ns_eqb e n); [inversion H; subst; exact I|].
      destruct (add_namespace m (mkNs (String c p) (ns_uri n))) as [[m2 n2]|] eqn:EA; [|discriminate].
      inversion H; subst. eapply add_namespace_InvR; eauto.
    + destruct (add_namespace m (mkNs (String c p) (ns_uri n))) as [[m2 n2]|] eqn:EA; [|discriminate].
      inversion H; subst. eapply add_namespace_InvR; eauto.
Qed.

Lemma resolve_InvR : forall par m x m' r, InvR m -> resolve par m x = OK (m', r) -> InvR m'.
Proof.
  intros par m x m' r I H. destruct x as [q|s|u]; simpl in H.
  - destruct (resolve_qn m q) as [[m2 q2]|] eqn:E; [|discriminate].
    inversion H; subst. eapply resolve_qn_InvR; eauto.
  - destruct s; [inversion H; subst; exact I|].
    unfold bind in H. destruct (resolve_str par m _ false); inversion H; subst; exact I.
  - unfold bind in H. destruct (resolve_str par m u true); inversion H; subst; exact I.
Qed.

(* every manager of every scope history keeps it *)
Lemma sstep_SAll_InvR : forall s o, SAll InvR s -> SAll InvR (fst (sstep s o)).
Proof.
  intros s o A. destruct o as [t p u|t u|t x|]; simpl.
  - destruct (get_mgr s t) as [m|] eqn:G; [|exact A].
    destruct (uri_ok u); [|exact A].
    destruct (add_namespace m (mkNs p u)) as [[m' n]|] eqn:E; [|exact A]. simpl.
    apply SAll_set; [exact A|]. eapply add_namespace_InvR; eauto.
  - destruct (get_mgr s t) as [m|] eqn:G; [|exact A].
    destruct (uri_ok u); [|exact A]. simpl.
    apply SAll_set; [exact A|]. apply set_default_InvR. eauto.
  - destruct (get_mgr s t) as [m|] eqn:G; [|exact A].
    destruct (resolve (parent_of s t) m x) as [[m' r]|e|] eqn:E; try exact A. simpl.
    apply SAll_set; [exact A|]. eapply resolve_InvR; eauto.
  - apply SAll_newbundle; [exact A | apply InvR_init].
Qed.

Theorem srun_SAll_InvR : forall ops, SAll InvR (srun ops).
Proof.
  intros ops. unfold srun.
  assert (G : forall ops s, SAll InvR s -> SAll InvR (fold_left (fun s o => fst (sstep s o)) ops s)).
  { induction ops0 as [|o ops0 IH]; simpl; intros s A; [exact A|]. apply IH. apply sstep_SAll_InvR. exact A. }
  apply G. apply SAll_init. exact InvR_init.
Qed.

(* ---- what the prefix map holds *)
Lemma fold_put_ns_lookup : forall l acc p,
  (forall k n, In (k, n) l -> ns_prefix n = k) -> uniq l ->
  lookup p (fold_left put_ns l acc) = match lookup p l with Some n => Some (ns_uri n) | None => lookup p acc end.
Proof.
  induction l as [|[k n] l IH]; intros acc p K U; [reflexivity|].
  cbn [fold_left]. unfold uniq in U. cbn [map fst] in U. inversion U as [|x y NI U']; subst.
  rewrite (IH _ p (fun k0 n0 H => K k0 n0 (or_intror H)) U').
  unfold put_ns at 1. cbn [snd]. rewrite (K k n (or_introl eq_refl)). cbn [lookup].
  destruct (String.eqb p k) eqn:E.
  - apply String.eqb_eq in E. subst p.
    destruct (lookup k l) as [n'|] eqn:EL; [exfalso; apply NI; eapply lookup_key_in; eauto|].
    apply lookup_dset_same.
  - destruct (lookup p l); [reflexivity|]. apply lookup_dset_other. intro X. subst. rewrite String.eqb_refl in E. discriminate.
Qed.

Lemma put_default_lookup : forall m acc p,
  lookup p (put_default m acc) = if String.eqb p "" then match dflt m with Some d => Some (ns_uri d) | None => lookup "" acc end
                                 else lookup p acc.
Proof.
  intros m acc p. unfold put_default. destruct (dflt m) as [d|].
  - rewrite lookup_dset_eq. destruct (String.eqb p ""); reflexivity.
  - destruct (String.eqb p "") eqn:E; [apply String.eqb_eq in E; subst; reflexivity | reflexivity].
Qed.

Lemma builtins_lookup : forall acc p,
  lookup p (fold_left put_builtin default_namespaces acc)
  = match lookup p default_namespaces with Some u => Some (xml_builtin_uri (p, u)) | None => lookup p acc end.
Proof.
  intros acc p. unfold default_namespaces. cbn [fold_left]. unfold put_builtin. cbn [fst snd].
  rewrite !lookup_dset_eq. cbn [lookup].
  destruct (String.eqb p "xsi") eqn:E1; [apply String.eqb_eq in E1; subst; reflexivity|].
  destruct (String.eqb p "xsd") eqn:E2; [apply String.eqb_eq in E2; subst; reflexivity|].
  destruct (String.eqb p "prov") eqn:E3; [apply String.eqb_eq in E3; subst; reflexivity|].
  reflexivity.
Qed.

Lemma builtin_tbl_lookup : forall p, lookup p builtin_tbl = option_map (fun u => mkNs p u) (lookup p default_namespaces).
Proof.
  intros p. unfold builtin_tbl. induction default_namespaces as [|[k u] l IH]; [reflexivity|].
  cbn [map lookup fst snd]. destruct (String.eqb p k) eqn:E; [apply String.eqb_eq in E; subst; reflexivity | exact IH].
Qed.

(* the scope of a container's element, at a prefix other than "" *)
Lemma nsmap_lookup : forall dm bm p, InvR dm -> InvR bm -> p <> "" ->
  lookup p (nsmap_of dm bm)
  = match lookup p default_namespaces with
    | Some u => Some (xml_builtin_uri (p, u))
    | None => match lookup p (regd bm) with
              | Some n => Some (ns_uri n)
              | None => option_map ns_uri (lookup p (regd dm))
              end
    end.
Proof.
  intros dm bm p ID IB NE. unfold nsmap_of. rewrite builtins_lookup.
  destruct (lookup p default_namespaces); [reflexivity|].
  assert (E : String.eqb p "" = false) by (apply String.eqb_neq; exact NE).
  rewrite put_default_lookup, E. rewrite (fold_put_ns_lookup _ _ p (ir_key _ IB) (ir_uniq _ IB)).
  destruct (lookup p (regd bm)); [reflexivity|].
  rewrite put_default_lookup, E. rewrite (fold_put_ns_lookup _ _ p (ir_key _ ID) (ir_uniq _ ID)).
  destruct (lookup p (regd dm)); reflexivity.
Qed.

(* ---- names read back in the scope of their container *)
Definition plain_uri (u : string) : Prop := u <> XmlSpec.xsd_ns /\ u <> prov_uri.

Lemma ns_eta : forall n, mkNs (ns_prefix n) (ns_uri n) = n.
Proof. intros [p u]. reflexivity. Qed.

Lemma scoped_prefixed : forall scope n l, ns_prefix n <> "" -> contains_char colon (ns_prefix n) = false ->
  lookup (ns_prefix n) scope = Some (ns_uri n) -> plain_uri (ns_uri n) -> scoped scope (mkQn n l).
Proof.
  intros scope n l NE NC L [NX NP]. unfold scoped, xml_qname, qn_str. cbn [qn_ns qn_local].
  destruct (ns_prefix n) as [|c p] eqn:EP; [contradiction|].
  change (String c p ++ ":" ++ l) with (String c p ++ String colon l).
  rewrite (split_colon_app (String c p) l NC), L.
  destruct (String.eqb (ns_uri n) XmlSpec.xsd_ns) eqn:E1; [apply String.eqb_eq in E1; contradiction|].
  destruct (String.eqb (ns_uri n) prov_uri) eqn:E2; [apply String.eqb_eq in E2; contradiction|].
  rewrite <- EP, ns_eta. reflexivity.
Qed.

(* a name whose namespace the container itself registered *)
Theorem scope_own : forall dm bm n l, InvR dm -> InvR bm ->
  tbound bm n -> lookup (ns_prefix n) default_namespaces = None ->
  contains_char colon (ns_prefix n) = false -> plain_uri (ns_uri n) ->
  scoped (nsmap_of dm bm) (mkQn n l).
Proof.
  intros dm bm n l ID IB [NE L] NB NC PU.
  destruct (ir_out _ IB _ _ NE L) as [B|R].
  - rewrite builtin_tbl_lookup, NB in B. discriminate.
  - apply scoped_prefixed; [exact NE | exact NC | | exact PU].
    rewrite (nsmap_lookup dm bm _ ID IB NE), NB, R. reflexivity.
Qed.

(* a name of the enclosing document used inside a bundle that does not register that prefix itself *)
Theorem scope_inherited : forall dm bm n l, InvR dm -> InvR bm ->
  tbound dm n -> lookup (ns_prefix n) default_namespaces = None -> lookup (ns_prefix n) (regd bm) = None ->
  contains_char colon (ns_prefix n) = false -> plain_uri (ns_uri n) ->
  scoped (nsmap_of dm bm) (mkQn n l).
Proof.
  intros dm bm n l ID IB [NE L] NB NR NC PU.
  destruct (ir_out _ ID _ _ NE L) as [B|R].
  - rewrite builtin_tbl_lookup, NB in B. discriminate.
  - apply scoped_prefixed; [exact NE | exact NC | | exact PU].
    rewrite (nsmap_lookup dm bm _ ID IB NE), NB, NR, R. reflexivity.
Qed.

(* prov: and xsd: names, whatever the managers hold *)
Theorem scope_prov : forall dm bm l, InvR dm -> InvR bm -> scoped (nsmap_of dm bm) (prov_qn l).
Proof.
  intros dm bm l ID IB. unfold scoped, xml_qname, qn_str, prov_qn, prov_ns. cbn [qn_ns qn_local ns_prefix].
  change ("prov" ++ ":" ++ l) with ("prov" ++ String colon l). rewrite (split_colon_app "prov" l eq_refl).
  rewrite (nsmap_lookup dm bm "prov" ID IB ltac:(discriminate)). reflexivity.
Qed.

Theorem scope_xsd : forall dm bm l, InvR dm -> InvR bm -> scoped (nsmap_of dm bm) (xsd_qn l).
Proof.
  intros dm bm l ID IB. unfold scoped, xml_qname, qn_str, xsd_qn, Values.xsd_ns. cbn [qn_ns qn_local ns_prefix].
  change ("xsd" ++ ":" ++ l) with ("xsd" ++ String colon l). rewrite (split_colon_app "xsd" l eq_refl).
  rewrite (nsmap_lookup dm bm "xsd" ID IB ltac:(discriminate)). reflexivity.
Qed.

(* a name in the default namespace of its container, or — for a bundle without one — of the document *)
Lemma scoped_default : forall scope n l, ns_prefix n = "" -> contains_char colon l = false ->
  lookup "" scope = Some (ns_uri n) -> scoped scope (mkQn n l).
Proof.
  intros scope n l EP NC L. unfold scoped, xml_qname, qn_str. cbn [qn_ns qn_local]. rewrite EP.
  rewrite (split_colon_none l NC), L. rewrite <- EP, ns_eta. reflexivity.
Qed.

Theorem scope_default_own : forall dm bm n l, dflt bm = Some n -> ns_prefix n = "" -> contains_char colon l = false ->
  scoped (nsmap_of dm bm) (mkQn n l).
Proof.
  intros dm bm n l D EP NC. apply scoped_default; [exact EP | exact NC|].
  unfold nsmap_of. rewrite builtins_lookup. cbn [lookup default_namespaces String.eqb].
  rewrite put_default_lookup. cbn [String.eqb]. rewrite D. reflexivity.
Qed.

Theorem scope_default_inherited : forall dm bm n l, InvR bm ->
  dflt bm = None -> lookup "" (regd bm) = None -> dflt dm = Some n -> ns_prefix n = "" -> contains_char colon l = false ->
  scoped (nsmap_of dm bm) (mkQn n l).
Proof.
  intros dm bm n l IB DB RB D EP NC. apply scoped_default; [exact EP | exact NC|].
  unfold nsmap_of. rewrite builtins_lookup. cbn [lookup default_namespaces String.eqb].
  rewrite put_default_lookup. cbn [String.eqb]. rewrite DB.
  rewrite (fold_put_ns_lookup _ _ "" (ir_key _ IB) (ir_uniq _ IB)), RB.
  rewrite put_default_lookup. cbn [String.eqb]. rewrite D. reflexivity.
Qed.

(* ---- every manager of every namespace history: what the container binds is read back in its element's scope *)
Theorem reachable_scope_own : forall ops t m dm n l,
  get_mgr (srun ops) t = Some m -> get_mgr (srun ops) None = Some dm ->
  tbound m n -> lookup (ns_prefix n) default_namespaces = None ->
  contains_char colon (ns_prefix n) = false -> plain_uri (ns_uri n) ->
  scoped (nsmap_of dm m) (mkQn n l).
Proof.
  intros ops t m dm n l G GD T NB NC PU.
  apply scope_own; [apply (srun_SAll_InvR ops None dm GD) | apply (srun_SAll_InvR ops t m G) | exact T | exact NB | exact NC | exact PU].
Qed.

(* the premises are satisfiable: a document that declares ex and a bundle that declares ex2 *)
Example scope_applies :
  let s := srun [OAddNs None "ex" "http://e/"; ONewBundle; OAddNs (Some 0) "ex2" "http://e2/"] in
  exists dm bm, get_mgr s None = Some dm /\ get_mgr s (Some 0) = Some bm /\
    scoped (nsmap_of dm bm) (mkQn (mkNs "ex2" "http://e2/") "x") /\
    scoped (nsmap_of dm bm) (mkQn (mkNs "ex" "http://e/") "y") /\
    scoped (nsmap_of dm dm) (mkQn (mkNs "ex" "http://e/") "y").
Proof.
  set (ops := [OAddNs None "ex" "http://e/"; ONewBundle; OAddNs (Some 0) "ex2" "http://e2/"]). cbv zeta.
  destruct (get_mgr (srun ops) None) as [dm|] eqn:GD; [|vm_compute in GD; discriminate].
  destruct (get_mgr (srun ops) (Some 0)) as [bm|] eqn:GB; [|vm_compute in GB; discriminate].
  exists dm, bm. split; [reflexivity|]. split; [reflexivity|].
  pose proof (srun_SAll_InvR ops None dm GD) as ID. pose proof (srun_SAll_InvR ops (Some 0) bm GB) as IB.
  assert (ED : dm = match get_mgr (srun ops) None with Some x => x | None => nsm_init end) by (rewrite GD; reflexivity).
  assert (EB : bm = match get_mgr (srun ops) (Some 0) with Some x => x | None => nsm_init end) by (rewrite GB; reflexivity).
  split; [|split].
  - apply scope_own; [exact ID | exact IB | | reflexivity | reflexivity | split; discriminate].
    split; [discriminate|]. rewrite EB. vm_compute. reflexivity.
  - apply scope_inherited; [exact ID | exact IB | | reflexivity | | reflexivity | split; discriminate].
    + split; [discriminate|]. rewrite ED. vm_compute. reflexivity.
    + rewrite EB. vm_compute. reflexivity.
  - apply scope_own; [exact ID | exact ID | | reflexivity | reflexivity | split; discriminate].
    split; [discriminate|]. rewrite ED. vm_compute. reflexivity.
Qed.

(* the scope of every container binds xsd to the XML Schema namespace as PROV-XML writes it (the premise XScope of the
   value-level theorems xrt_ of XmlReadProofs) *)
Theorem nsmap_XScope : forall dm bm, InvR dm -> InvR bm -> XScope (nsmap_of dm bm).
Proof. intros dm bm ID IB. unfold XScope. rewrite (nsmap_lookup dm bm "xsd" ID IB ltac:(discriminate)). reflexivity. Qed.
