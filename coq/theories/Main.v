(* Main.v — single entry point of the extracted model: one request tree in, one
   response tree out.  The OCaml driver only parses and prints trees. *)
From Coq Require Import String List.
From Prov Require Import Str Sexp Tables Nsm Scope Values Record World Jtree Json JsonSpec Provn ProvnSpec XmlSpec IO Dot Xml Rdf Interp.
Import ListNotations.
Open Scope string_scope.

Definition valarg_value (a : valarg) : option value :=
  match a with
  | AStr s => Some (VStr s) | AInt z => Some (VInt z) | AFloat r iv g => Some (VFloat r iv g)
  | ABool b => Some (VBool b) | ATime t => Some (VTime t) | AId u => Some (VId u) | AQn q => Some (VQn q)
  | ALit l d g => Some (VLit l d g) | _ => None
  end.

Definition run (req : sexp) : sexp :=
  match req with
  | L (A "nsprog" :: ops) => L (run_nsprog scope_init ops)
  | L (A "prog" :: L ft :: ops) => run_prog ft ops
  | L [A "xmlvalue"; A ft; a; v] =>
      match px_qn a, px_valarg v with
      | Some aq, Some va =>
          match valarg_value va with
          | Some vv => sx_xout (xml_emit (String.eqb ft "true") aq vv)
          | None => A "bad-value"
          end
      | _, _ => A "bad-request"
      end
  | L [A "rdfpred"; A k; A attr] => L [A (enc_pred k attr); A (dec_pred k (enc_pred k attr))]
  | L [A "dotquote"; A s] => L [A (dot_quote s); A (html_escape s)]
  | L [A "destpath"; A name] =>
      match dest_path name with Some p => L [A "some"; A p] | None => L [A "none"] end
  | L [A "provnspec"; A text] =>
      match ProvnSpec.read text with Some c => c | None => L [A "none"] end
  | L [A "jsonspec"; L ft; t] =>
      match px_list px_fentry ft, px_jv 64 t with
      | Some tab, Some tree => match JsonSpec.read tab tree with Some c => c | None => L [A "none"] end
      | _, _ => A "bad-request"
      end
  | L [A "xmlspec"; L ft; t] =>
      match px_list px_fentry ft, px_xnode 64 t with
      | Some tab, Some tree => match XmlSpec.read tab tree with Some c => c | None => L [A "none"] end
      | _, _ => A "bad-request"
      end
  | _ => A "unknown-request"
  end.
