(* Main.v — single entry point of the extracted model: one request tree in, one
   response tree out.  The OCaml driver only parses and prints trees. *)
From Coq Require Import String List.
From Prov Require Import Str Sexp Tables Nsm Scope Values Record World Jtree Json JsonSpec Provn ProvnSpec XmlSpec IO IODispatch Dot Xml XmlLabel XmlRec XmlRead XmlReadDoc XmlScope Rdf Rdfq RdfVal Dotg DotLabel Interp Alias IOLinks.
Import ListNotations.
Open Scope string_scope.

Definition valarg_value (a : valarg) : option value :=
  match a with
  | AStr s => Some (VStr s) | AInt z => Some (VInt z) | AFloat r iv g => Some (VFloat r iv g)
  | ABool b => Some (VBool b) | ATime t => Some (VTime t) | AId u => Some (VId u) | AQn q => Some (VQn q)
  | ALit l d g => Some (VLit l d g) | _ => None
  end.

(* ---- wire format of the quad-level RDF model *)
Definition px_obj (x : sexp) : option obj :=
  match x with
  | L [A "u"; A u] => Some (ON (NU u))
  | L [A "l"; A t] => Some (OL t)
  | _ => None
  end.
Definition px_oobj (x : sexp) : option (option obj) :=
  match x with A "none" => Some None | y => option_map Some (px_obj y) end.
Definition px_rattr (x : sexp) : option (string * obj) :=
  match x with L [A a; v] => option_map (fun o => (a, o)) (px_obj v) | _ => None end.
Definition px_rrec (x : sexp) : option rrec :=
  match x with
  | L [A "rel"; A k; i; L fs; L xs] =>
      match px_list px_oobj fs, px_list px_rattr xs with
      | Some f, Some e => Some (mkR k (match i with A "none" => None | A u => Some u | _ => None end) f e)
      | _, _ => None
      end
  | _ => None
  end.
Definition sx_node (n : node) : sexp :=
  match n with NU u => L [A "u"; A u] | NB k => L [A "b"; A (nat_to_str k)] end.
Definition sx_obj (o : obj) : sexp := match o with ON n => sx_node n | OL t => L [A "l"; A t] end.
Definition sx_rrec (r : rrec) : sexp :=
  L [A "rel"; A (rk r); match rid r with Some u => A u | None => A "none" end;
     L (map (fun v => match v with Some o => sx_obj o | None => A "none" end) (rf r));
     L (map (fun a => L [A (fst a); sx_obj (snd a)]) (rx r))].

(* the world a program ends in (outputs dropped) *)
Fixpoint final_world (w : world) (ops : list sexp) : option world :=
  match ops with
  | [] => Some w
  | o :: r => match px_op o with
              | None => None
              | Some p => final_world (fst (step w p)) r
              end
  end.
Definition sx_scope (l : list (string * string)) : sexp := L (map (fun pu => L [A (fst pu); A (snd pu)]) l).

Definition run (req : sexp) : sexp :=
  match req with
  | L (A "nsprog" :: ops) => L (run_nsprog scope_init ops)
  | L (A "prog" :: L ft :: ops) => run_prog ft ops
  | L [A "xmlvalue"; A ft; a; v] =>
      match px_qn a, px_valarg v with
      | Some aq, Some va =>
          match valarg_value va with
          | Some vv => sx_xout (xml_emit (String.eqb ft "true") aq vv)
          | None => A "bad-value"
          end
      | _, _ => A "bad-request"
      end
  | L [A "xmllabel"; A kind; L pairs] =>
      let px_pair (x : sexp) : option (qname * value) :=
        match x with
        | L [a; v] => match px_qn a, px_valarg v with
                      | Some aq, Some va => option_map (fun vv => (aq, vv)) (valarg_value va)
                      | _, _ => None
                      end
        | _ => None
        end in
      match px_list px_pair pairs with
      | Some l => sx_label (record_label kind l)
      | None => A "bad-request"
      end
  | L [A "xmlreadlabel"; A lab] => sx_read_label (read_label lab)
  | L [A "xmlrecord"; A ft; A kind; ident; L pairs] =>
      let px_pair (x : sexp) : option (qname * value) :=
        match x with
        | L [a; v] => match px_qn a, px_valarg v with
                      | Some aq, Some va => option_map (fun vv => (aq, vv)) (valarg_value va)
                      | _, _ => None
                      end
        | _ => None
        end in
      match px_optqn ident, px_list px_pair pairs with
      | Some i, Some l =>
          match xml_record (String.eqb ft "true") [] kind i l with
          | Some x => sx_xnode x
          | None => L [A "none"]
          end
      | _, _ => A "bad-request"
      end
  | L [A "xmlreadrecord"; L ft; L pmap; t] =>
      let px_pm (x : sexp) : option (string * option string) :=
        match x with
        | L [A ns; A "none"] => Some (ns, None)
        | L [A ns; L [A "some"; A p]] => Some (ns, Some p)
        | _ => None
        end in
      match px_list px_fentry ft, px_list px_pm pmap, px_xnode 64 t with
      | Some tab, Some pm, Some tree =>
          let prefix_of (ns : string) := match lookup ns pm with Some p => p | None => None end in
          match xml_read_record None tab prefix_of (bundle_init None) tree with
          | (b, OK _) => L [A "ok"; L (map sx_rec (brecs b))]
          | (b, Raise e) => L [A "raise"; A (exc_name e)]
          | (b, OutOfDomain) => A "out-of-domain"
          end
      | _, _, _ => A "bad-request"
      end
  (* a whole PROV-XML tree read by the model of the library's reader (XmlReadDoc.xml_read_document): the document it builds,
     with its managers *)
  | L [A "xmlreaddoc"; L ft; L pmap; t] =>
      let px_pm (x : sexp) : option (string * option string) :=
        match x with
        | L [A ns; A "none"] => Some (ns, None)
        | L [A ns; L [A "some"; A p]] => Some (ns, Some p)
        | _ => None
        end in
      match px_list px_fentry ft, px_list px_pm pmap, px_xnode 64 t with
      | Some tab, Some pm, Some tree =>
          let prefix_of (ns : string) := match lookup ns pm with Some p => p | None => None end in
          match xml_read_document tab prefix_of tree with
          | OK dd => L [A "ok"; sx_doc dd]
          | Raise e => L [A "raise"; A (exc_name e)]
          | OutOfDomain => A "out-of-domain"
          end
      | _, _, _ => A "bad-request"
      end
  | L [A "rdfpred"; A k; A attr] => L [A (enc_pred k attr); A (dec_pred k (enc_pred k attr))]
  | L (A "rdfq" :: rels) =>
      match px_list px_rrec rels with
      | Some rs =>
          let g := enc_all 0 rs [] in
          L [L (map (fun t => L [sx_node (ts t); A (tp t); sx_obj (tobj t)]) g); L (map sx_rrec (dec g))]
      | None => A "bad-request"
      end
  | L [A "rdfattr"; L nss; a; v] =>
      let px_decl (x : sexp) : option (string * string) :=
        match x with L [A p; A u] => Some (p, u) | _ => None end in
      match px_list px_decl nss, px_qn a, px_valarg v with
      | Some decls, Some aq, Some va =>
          match declare_all nsm_init decls, valarg_value va with
          | Some m, Some vv =>
              match rdf_encode vv with
              | Some t => L [A (enc_elem_pred aq); sx_rterm t;
                             sx_attr_back (rdf_attr_back (mkCtx None []) m (enc_elem_pred aq) t)]
              | None => A "ood"
              end
          | _, _ => A "bad-value"
          end
      | _, _, _ => A "bad-request"
      end
  | L [A "rdfelem"; L nss; A kind; ident; L pairs] =>
      let px_decl (x : sexp) : option (string * string) :=
        match x with L [A p; A u] => Some (p, u) | _ => None end in
      let px_pair (x : sexp) : option (qname * value) :=
        match x with
        | L [a; v] => match px_qn a, px_valarg v with
                      | Some aq, Some va => option_map (fun vv => (aq, vv)) (valarg_value va)
                      | _, _ => None
                      end
        | _ => None
        end in
      match px_list px_decl nss, px_qn ident, px_list px_pair pairs with
      | Some decls, Some q, Some l =>
          match declare_all nsm_init decls, rdf_element_triples l with
          | Some m, Some ts =>
              L [L (map (fun pt => L [A (fst pt); sx_rterm (snd pt)]) ts);
                 match rdf_read_element None [] (mkB None m [] []) kind (qn_uri q) ts with
                 | (_, OK r) => L [A "ok"; sx_rec r]
                 | (_, Raise e) => L [A "raise"; A (exc_name e)]
                 | (_, OutOfDomain) => A "ood"
                 end]
          | Some _, None => A "ood"
          | None, _ => A "bad-value"
          end
      | _, _, _ => A "bad-request"
      end
  | L (A "dotstruct" :: A nary :: A ea :: A ra :: L ft :: ops) =>
      match px_list px_fentry ft with
      | Some t =>
          match final_world (mkW [] t) ops with
          | Some w =>
              let o := mkDO (String.eqb nary "true") (String.eqb ea "true") (String.eqb ra "true") in
              L (map (fun d => match dot_structure t o d with
                               | Some (m, cs) => L [L (map sx_stmt m); L (map (fun c => L (map sx_stmt c)) cs)]
                               | None => A "ood"
                               end) (wdocs w))
          | None => A "parse-error"
          end
      | None => A "bad-float-table"
      end
  | L (A "xmldocs" :: A fl :: L ft :: ops) =>
      match px_list px_fentry ft with
      | Some t =>
          match final_world (mkW [] t) ops with
          | Some w => L (map (fun d => match xml_document (String.eqb fl "true") d with Some x => sx_xnode x | None => A "none" end) (wdocs w))
          | None => A "parse-error"
          end
      | None => A "bad-float-table"
      end
  | L (A "xmlscopes" :: L ft :: ops) =>
      match px_list px_fentry ft with
      | Some t =>
          match final_world (mkW [] t) ops with
          | Some w => L (map (fun d => L (map sx_scope (doc_nsmaps d))) (wdocs w))
          | None => A "parse-error"
          end
      | None => A "bad-float-table"
      end
  | L [A "rdfelems"; L nss; L recs] =>
      let px_decl (x : sexp) : option (string * string) :=
        match x with L [A p; A u] => Some (p, u) | _ => None end in
      let px_pair (x : sexp) : option (qname * value) :=
        match x with
        | L [a; v] => match px_qn a, px_valarg v with
                      | Some aq, Some va => option_map (fun vv => (aq, vv)) (valarg_value va)
                      | _, _ => None
                      end
        | _ => None
        end in
      (* a record as (kind id ((attribute value) ...)): its attribute dictionary is rebuilt by attr_add in order *)
      let px_rec (x : sexp) : option prec :=
        match x with
        | L [A kind; ident; L pairs] =>
            match px_qn ident, px_list px_pair pairs with
            | Some q, Some l => Some (mkRec kind (Some q) (fold_left (fun d kv => attr_add (fst kv) (snd kv) d) l []))
            | _, _ => None
            end
        | _ => None
        end in
      match px_list px_decl nss, px_list px_rec recs with
      | Some decls, Some rs =>
          match declare_all nsm_init decls, rdf_element_blocks rs with
          | Some m, Some ts =>
              let ts' := dedup_triples ts in
              L [L (map (fun t => L [A (fst (fst t)); A (snd (fst t)); sx_rterm (snd t)]) ts');
                 match rdf_read_elements None [] (mkB None m [] []) ts' with
                 | (b', OK _) => L (A "ok" :: map sx_rec (brecs b'))
                 | (_, Raise e) => L [A "raise"; A (exc_name e)]
                 | (_, OutOfDomain) => A "ood"
                 end]
          | Some _, None => A "ood"
          | None, _ => A "bad-value"
          end
      | _, _ => A "bad-request"
      end
  | L [A "dotquote"; A s] => L [A (dot_quote s); A (html_escape s)]
  (* the annotation table of a record: rows (attribute URI, printed name, href or "none", text); answer: the label
     text of the model and the verdict of the HTML-label acceptor on it *)
  | L [A "annlabel"; L rows] =>
      let px_row (x : sexp) : option ann_row_data :=
        match x with
        | L [A u; A n; A "none"; A t] => Some (mkRow u n None t)
        | L [A u; A n; L [A "some"; A h]; A t] => Some (mkRow u n (Some h) t)
        | _ => None
        end in
      match px_list px_row rows with
      | Some rs => L [A (ann_label rs); A (if html_label_ok (ann_label rs) then "true" else "false")]
      | None => A "bad-request"
      end
  | L [A "fancylabel"; A l; A i] => L [A (fancy_label l i); A (if html_label_ok (fancy_label l i) then "true" else "false")]
  (* the acceptor alone, on a label text of the implementation *)
  | L [A "htmlok"; A s] => A (if html_label_ok s then "true" else "false")
  (* the text / bytes dispatch: for every format x destination kind x source kind, whether a str or a bytes is written
     and whether the format's parser is handed text or bytes (IODispatch, instantiated at the one-point types: only the
     branch taken is observed; the payload law is what C16_same_parser_input proves) *)
  | L [A "iodispatch"] =>
      let enc := fun (_ : unit) => tt in
      let dec := fun (_ : unit) => Some tt in
      let fname (f : fmt) := match f with FJson => "json" | FXml => "xml" | FRdf => "rdf" | FProvn => "provn" end in
      let dname (d : dest) := match d with DString => "string" | DTextStream => "text" | DBinaryStream => "binary" | DPath => "path" end in
      let sname (x : src) := match x with SContentStr => "content-str" | SContentBytes => "content-bytes" | STextStream => "text-stream"
                                        | SBinaryStream => "binary-stream" | SPath => "path" end in
      L (flat_map (fun f => flat_map (fun d => map (fun x =>
           match artefact unit unit enc dec f d tt with
           | Some a =>
               match to_source unit unit enc dec x a with
               | Some c =>
                   match deserialize_input unit unit enc dec dec f c with
                   | Some pi => L [A (fname f); A (dname d); A (sname x);
                                   A (match a with DText _ _ _ => "str" | DBytes _ _ _ => "bytes" end);
                                   A (match pi with PText _ _ _ => "text" | PBytes _ _ _ => "bytes" end)]
                   | None => L [A (fname f); A (dname d); A (sname x); A "-"; A "none"]
                   end
               | None => A "none"
               end
           | None => A "none"
           end) [SContentStr; SContentBytes; STextStream; SBinaryStream; SPath])
           [DString; DTextStream; DBinaryStream; DPath]) [FJson; FXml; FRdf])
  (* the object graph (Alias.v): a list of calls; answer: after every call, for every handle, the shape of what it
     reaches (same-object index, managers, records, bundles, records per container, stray pointers, objects shared
     with each earlier handle) *)
  | L (A "alias" :: ops) =>
      let px_on (x : sexp) : option (option nat) := match x with A "none" => Some None | y => option_map Some (px_nat y) end in
      let px_aop (x : sexp) : option aop :=
        match x with
        | L [A "NewDoc"] => Some ANewDoc
        | L [A "NewBundle"; i] => option_map ANewBundle (px_nat i)
        | L [A "AddRecs"; i; s; k] =>
            match px_nat i, px_on s, px_nat k with Some i', Some s', Some k' => Some (AAddRecs i' s' k') | _, _, _ => None end
        | L [A "TouchRec"; i; s; r] =>
            match px_nat i, px_on s, px_nat r with Some i', Some s', Some r' => Some (ATouchRec i' s' r') | _, _, _ => None end
        | L [A "TouchNs"; i; s] => match px_nat i, px_on s with Some i', Some s' => Some (ATouchNs i' s') | _, _ => None end
        | L [A "Build"; k0; L ks] => match px_nat k0, px_list px_nat ks with Some a, Some b => Some (ABuild a b) | _, _ => None end
        | L [A "Unified"; i; k0; L ks] =>
            match px_nat i, px_nat k0, px_list px_nat ks with Some i', Some a, Some b => Some (AUnified i' a b) | _, _, _ => None end
        | L [A "Flattened"; i] => option_map AFlattened (px_nat i)
        | L [A "DocFromRecs"; i; s] => match px_nat i, px_on s with Some i', Some s' => Some (ADocFromRecs i' s') | _, _ => None end
        | L [A "UpdateBundle"; i; s; j; t] =>
            match px_nat i, px_on s, px_nat j, px_on t with
            | Some i', Some s', Some j', Some t' => Some (AUpdateBundle i' s' j' t') | _, _, _, _ => None end
        | L [A "Update"; i; j; L ms] =>
            match px_nat i, px_nat j, px_list px_on ms with Some i', Some j', Some m => Some (AUpdate i' j' m) | _, _, _ => None end
        | L [A "AddBundleDoc"; i; j] => match px_nat i, px_nat j with Some i', Some j' => Some (AAddBundleDoc i' j') | _, _ => None end
        | L [A "CopyTouch"; i; s; r] =>
            match px_nat i, px_on s, px_nat r with Some i', Some s', Some r' => Some (ACopyTouch i' s' r') | _, _, _ => None end
        | _ => None
        end in
      let n (k : nat) := A (str_of_nat k) in
      let sx_shape (h : shape) : sexp :=
        L [n (sh_same h); n (sh_mgrs h); n (sh_recs h); n (sh_buns h); L (map n (sh_per_bundle h)); n (sh_stray h);
           L (map n (sh_shared h))] in
      match px_list px_aop ops with
      | Some l => L (map (fun shs => L (map sx_shape shs)) (atrace aempty l))
      | None => A "bad-request"
      end
  (* the write protocol over files and links: entries (name ("file" content) | ("link" target)), destination name, the
     document text; answer: the entries afterwards *)
  | L [A "destlinks"; L entries; A name; A text] =>
      let px_entry (x : sexp) : option (string * entry) :=
        match x with
        | L [A n; L [A "file"; A c]] => Some (n, EFile c)
        | L [A n; L [A "link"; A t]] => Some (n, ELink t)
        | _ => None
        end in
      match px_list px_entry entries with
      | Some fs =>
          let '(fs', ok) := serialize_to_l fs name "<tmp>" [text] NoFault in
          L [A (if ok then "ok" else "failed");
             L (map (fun kv => L [A (fst kv); match snd kv with EFile c => L [A "file"; A c] | ELink t => L [A "link"; A t] end]) fs')]
      | None => A "bad-request"
      end
  (* the same with the temp file on another file system (copy through the links, IOLinks.serialize_to_lx; 40 = the
     kernel's limit on the length of a chain of links) *)
  | L [A "destlinksx"; L entries; A name; A text] =>
      let px_entry (x : sexp) : option (string * entry) :=
        match x with
        | L [A n; L [A "file"; A c]] => Some (n, EFile c)
        | L [A n; L [A "link"; A t]] => Some (n, ELink t)
        | _ => None
        end in
      match px_list px_entry entries with
      | Some fs =>
          let '(fs', ok) := serialize_to_lx 40 fs name "<tmp>" [text] NoFault in
          L [A (if ok then "ok" else "failed");
             L (map (fun kv => L [A (fst kv); match snd kv with EFile c => L [A "file"; A c] | ELink t => L [A "link"; A t] end]) fs')]
      | None => A "bad-request"
      end
  | L [A "destpath"; A name] =>
      match dest_path name with Some p => L [A "some"; A p] | None => L [A "none"] end
  | L [A "provnspec"; A text] =>
      match ProvnSpec.read text with Some c => c | None => L [A "none"] end
  | L [A "jsonspec"; L ft; t] =>
      match px_list px_fentry ft, px_jv 64 t with
      | Some tab, Some tree => match JsonSpec.read tab tree with Some c => c | None => L [A "none"] end
      | _, _ => A "bad-request"
      end
  | L [A "xmlspec"; L ft; t] =>
      match px_list px_fentry ft, px_xnode 64 t with
      | Some tab, Some tree => match XmlSpec.read tab tree with Some c => c | None => L [A "none"] end
      | _, _ => A "bad-request"
      end
  | _ => A "unknown-request"
  end.
