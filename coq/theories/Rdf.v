(* Rdf.v — the predicate logic of prov/serializers/provrdf.py for qualified relations:
   which RDF predicate the writer uses for an attribute of a relation of a given kind
   (the cascade of substring tests in encode_container) and which attribute the reader
   reads that predicate back as (predicate_mapper and the kind-dependent substring
   tests in decode_container).  The quad-level structure (qualified-influence pattern,
   bnodes, unqualified forms) is not modelled. *)
From Coq Require Import String Ascii List Bool Arith.
From Prov Require Import Str Tables.
Import ListNotations.
Open Scope string_scope.

Definition P (l : string) : string := prov_uri ++ l.
Definition rdf_type : string := "http://www.w3.org/1999/02/22-rdf-syntax-ns#type".
Definition rdfs_label : string := "http://www.w3.org/2000/01/rdf-schema#label".

Definition is_kind (k : string) (ks : list string) : bool := existsb (String.eqb k) ks.

(* the kind lists the writer and the reader test membership in come from the generated tables
   (every `x in [kinds]` of encode_container / decode_container in source order): the model follows the source *)
Definition enc_kinds (i : nat) : list string := nth i (map snd rdf_encode_memberships) [].
Definition dec_kinds (i : nat) : list string := nth i (map snd rdf_decode_memberships) [].

(* writer: predicate for attribute [attr] (a URI) of a relation record of kind [k];
   [formal] tells whether the attribute is one of the record's formal attributes *)
Definition enc_pred (k : string) (attr : string) : string :=
  let p0 :=
    if String.eqb attr (P "role") then P "hadRole"
    else if String.eqb attr (P "plan") then P "hadPlan"
    else if String.eqb attr (P "type") then rdf_type
    else if String.eqb attr (P "label") then rdfs_label
    else attr in
  let step (c : bool) (sub : string) (new : string) (p : string) : string :=
    if (c && contains_str sub p)%bool then new else p in
  let p1 := step true (P "plan") (P "hadPlan") p0 in
  let p2 := step true (P "informant") (P "activity") p1 in
  let p3 := step true (P "responsible") (P "agent") p2 in
  let p4 := step (String.eqb k "Delegation") (P "activity") (P "hadActivity") p3 in
  let p5 := if ((is_kind k (enc_kinds 2) && contains_str (P "trigger") p4)
                || (is_kind k (enc_kinds 3) && contains_str (P "used") p4))%bool then P "entity" else p4 in
  let tk := is_kind k (enc_kinds 4) in
  let p6 := step tk (P "time") (P "atTime") p5 in
  let p7 := step tk (P "ender") (P "hadActivity") p6 in
  let p8 := step tk (P "starter") (P "hadActivity") p7 in
  let p9 := step tk (P "location") (P "atLocation") p8 in
  let dk := String.eqb k "Derivation" in
  let p10 := step dk (P "activity") (P "hadActivity") p9 in
  let p11 := step dk (P "generation") (P "hadGeneration") p10 in
  let p12 := step dk (P "usage") (P "hadUsage") p11 in
  step dk (P "usedEntity") (P "entity") p12.

(* reader: the attribute URI a predicate of a node of kind [k] is read as.
   predicate_mapper gives QualifiedNames whose str() is "prov:<local>"; the substring
   tests run on that string or on the predicate URI *)
Definition dec_pred (k : string) (pred : string) : string :=
  let '(s, uri) :=
    match lookup pred rdf_predicate_mapper with
    | Some l => ("prov:" ++ l, P l)
    | None => (pred, pred)
    end in
  let r := (s, uri) in
  let r := if (String.eqb k "Communication" && contains_str "activity" (fst r))%bool then ("prov:informant", P "informant") else r in
  let r := if (String.eqb k "Delegation" && contains_str "agent" (fst r))%bool then ("prov:responsible", P "responsible") else r in
  let r := if (is_kind k (dec_kinds 0) && contains_str "entity" (fst r))%bool then ("prov:trigger", P "trigger") else r in
  let r := if (is_kind k (dec_kinds 1) && contains_str "activity" (fst r))%bool then ("prov:ender", P "ender") else r in
  let r := if (is_kind k (dec_kinds 2) && contains_str "activity" (fst r))%bool then ("prov:starter", P "starter") else r in
  let r := if (String.eqb k "Derivation" && contains_str "entity" (fst r))%bool then ("prov:usedEntity", P "usedEntity") else r in
  snd r.

(* the relation kinds and, per kind, the attributes that travel as properties of the
   qualified node: every formal attribute but the first (the subject), and the
   attributes with a dedicated PROV-O property *)
Definition relation_kinds : list (string * list string) :=
  map (fun e => (fst (fst (fst e)), snd (fst e))) (filter (fun e => negb (snd e)) rec_classes).

(* alternateOf has no qualified form: for that kind the writer emits the binary triple
   and skips everything else (known finding C07-F2 for identified alternates) *)
Definition qualified_attrs (k : string) : list string :=
  if is_kind k (enc_kinds 1) then [] else
  match lookup k relation_kinds with
  | Some (_ :: rest) => (map P rest ++ [P "role"; P "location"; P "label"])%list
  | _ => []
  end.

Definition pred_roundtrips (k : string) (attr : string) : bool :=
  String.eqb (dec_pred k (enc_pred k attr)) attr.
