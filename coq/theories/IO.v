(* IO.v — model of ProvDocument.serialize(destination=<file name>) (C17) and of the
   source/destination dispatch and prov.read (C16).
   C17: the file system is a finite map path -> bytes; serialize is the step list
   "urlparse; mkstemp; write c1 .. cn; close; move", a fault may hit any write call
   or the move.  The serializers' text is an arbitrary chunk list.
   C16: payloads are abstract texts; the three external parsers are oracles with the
   recorded laws (each accepts its own writer's payloads and rejects the others'). *)
From Coq Require Import String Ascii List Bool Arith.
From Prov Require Import Str.
Import ListNotations.
Open Scope string_scope.

(* ------------------------------------------------------------------ urlparse, as used *)
Definition is_alpha (c : ascii) : bool :=
  let n := nat_of_ascii c in (Nat.leb 65 n && Nat.leb n 90) || (Nat.leb 97 n && Nat.leb n 122).
Definition is_scheme_char (c : ascii) : bool :=
  let n := nat_of_ascii c in
  is_alpha c || (Nat.leb 48 n && Nat.leb n 57) || Nat.eqb n 43 || Nat.eqb n 45 || Nat.eqb n 46.

(* (scheme, rest) — urlsplit's scheme detection *)
Definition split_scheme (url : string) : string * string :=
  match split_colon url with
  | Some (String c p, rest) =>
      if (is_alpha c && all_chars is_scheme_char p)%bool then (String c p, rest) else ("", url)
  | _ => ("", url)
  end.

Definition lower_ascii (c : ascii) : ascii :=
  let n := nat_of_ascii c in
  if (Nat.leb 65 n && Nat.leb n 90)%bool then ascii_of_nat (n + 32) else c.
Fixpoint lower (s : string) : string :=
  match s with EmptyString => EmptyString | String c r => String (lower_ascii c) (lower r) end.

Fixpoint until_any (stops : string) (s : string) : string * string :=
  match s with
  | EmptyString => (EmptyString, EmptyString)
  | String c r => if contains_char c stops then (EmptyString, s)
                  else let '(a, b) := until_any stops r in (String c a, b)
  end.

(* (netloc, path-with-query-etc) *)
Definition split_netloc (rest : string) : string * string :=
  match rest with
  | String "/" (String "/" r) => until_any "/?#" r
  | _ => ("", rest)
  end.

(* the path component: up to '#', then up to '?', then the ';params' of the last segment *)
Definition url_path (rest_after_netloc : string) : string :=
  let '(p1, _) := until_any "#" rest_after_netloc in
  let '(p2, _) := until_any "?" p1 in
  (* params: ';' in the last path segment *)
  let fix go (s : string) (seg : string) (done_ : string) : string :=
      match s with
      | EmptyString => done_ ++ fst (until_any ";" seg)
      | String c r => if Ascii.eqb c "/" then go r "" (done_ ++ seg ++ "/") else go r (seg ++ String c "") done_
      end in
  go p2 "" "".

(* where serialize(destination=name) writes (as repaired): None = refused with a
   warning (network location), Some p = the path handed to shutil.move *)
Definition dest_path (name : string) : option string :=
  let '(scheme, rest) := split_scheme name in
  let '(netloc, after) := split_netloc rest in
  match netloc with
  | String _ _ => None
  | EmptyString => if String.eqb (lower scheme) "file" then Some (url_path after) else Some name
  end.

(* a plain local file name: no scheme-with-network-location, not a file: URL *)
Definition local_name (name : string) : bool :=
  match dest_path name with
  | Some p => String.eqb p name
  | None => false
  end.

(* ------------------------------------------------------------------ file system and the write protocol *)
Definition fsys : Type := list (string * string).

Inductive fault : Type :=
| NoFault
| FaultAtWrite (k : nat)       (* the k-th write call (0-based) raises *)
| FaultAtMove.                 (* shutil.move raises *)

(* writing the chunks into the temp file, possibly failing *)
Fixpoint write_chunks (cs : list string) (acc : string) (k : option nat) : string * bool :=
  match cs with
  | [] => (acc, true)
  | c :: r =>
      match k with
      | Some O => (acc, false)
      | Some (S j) => write_chunks r (acc ++ c) (Some j)
      | None => write_chunks r (acc ++ c) None
      end
  end.

(* serialize(destination=name): result file system and whether the call returned.
   [tmp] is the fresh name mkstemp hands out (not in use, different from the target). *)
Definition serialize_to (fs : fsys) (name tmp : string) (cs : list string) (f : fault) : fsys * bool :=
  match dest_path name with
  | None => (fs, true)                       (* refused: prints a warning, writes nothing *)
  | Some path =>
      let fs1 := dset tmp "" fs in           (* mkstemp creates the empty temp file *)
      let '(content, ok) := write_chunks cs "" (match f with FaultAtWrite k => Some k | _ => None end) in
      let fs2 := dset tmp content fs1 in
      if negb ok then (fs2, false)
      else match f with
           | FaultAtMove => (fs2, false)
           | _ =>
               (* shutil.move: atomic rename (law of the platform, recorded) *)
               (dset path content (filter (fun kv => negb (String.eqb (fst kv) tmp)) fs2), true)
           end
  end.

(* ------------------------------------------------------------------ C16: dispatch *)
Inductive fmt : Type := FJson | FXml | FRdf | FProvn.
Inductive dest : Type := DString | DTextStream | DBinaryStream | DPath.
Inductive src : Type := SContentStr | SContentBytes | STextStream | SBinaryStream | SPath.

(* what each serializer writes for the abstract payload p of format f: text or its
   UTF-8 encoding; the XML writer has two code paths that differ in the declaration *)
Inductive written : Type :=
| WText (f : fmt) (variant : nat)
| WBytes (f : fmt) (variant : nat).

Definition write_to (f : fmt) (d : dest) : written :=
  match d with
  | DString | DTextStream => WText f (match f with FXml => 1 | _ => 0 end)
  | DBinaryStream | DPath => WBytes f 0
  end.

(* the reader of format g applied to what was written: decoded text parses iff g = f
   (laws of the external parsers), except that the TriG reader accepts the empty input *)
Definition reads_back (g : fmt) (w : written) : bool :=
  match w with
  | WText f _ | WBytes f _ =>
      match g, f with
      | FJson, FJson | FXml, FXml | FRdf, FRdf => true
      | _, _ => false
      end
  end.

(* prov.read without a format: the serializers are tried in registry order; as
   repaired, a stream is read once and every attempt sees the whole content *)
Definition registry_fmt (s : string) : option fmt :=
  if String.eqb s "json" then Some FJson else if String.eqb s "xml" then Some FXml
  else if String.eqb s "rdf" then Some FRdf else if String.eqb s "provn" then Some FProvn else None.

Fixpoint sniff (order : list string) (w : written) : option fmt :=
  match order with
  | [] => None
  | s :: r =>
      match registry_fmt s with
      | Some FProvn => sniff r w                      (* deserialize raises NotImplementedError *)
      | Some g => if reads_back g w then Some g else sniff r w
      | None => sniff r w
      end
  end.

(* the unrepaired loop on a stream: the first attempt consumes the stream, later
   attempts see the empty remainder, which the TriG reader accepts *)
Fixpoint sniff_consuming (order : list string) (w : written) (consumed : bool) : option (fmt * bool) :=
  match order with
  | [] => None
  | s :: r =>
      match registry_fmt s with
      | Some FProvn => sniff_consuming r w consumed
      | Some g =>
          if consumed then (if match g with FRdf => true | _ => false end then Some (g, true) else sniff_consuming r w true)
          else if reads_back g w then Some (g, false) else sniff_consuming r w true
      | None => sniff_consuming r w consumed
      end
  end.
