(* JsonDocProofs.v — a bundle-free document whose manager is plain (JsonPrefixProofs) through the PROV-JSON
   writer and reader: no hypothesis about the prefix block is left. *)
From Coq Require Import String Ascii List Bool Arith ZArith Lia Permutation.
From Prov Require Import Str StrProofs Sexp Tables Nsm NsmProofs Values Record World Jtree Json JsonProofs
  JsonRecProofs JsonContProofs JsonPrefixProofs.
Import ListNotations.
Open Scope string_scope.

Theorem json_doc_roundtrip_plain : forall ft d l,
  dbundles d = [] ->
  regd (bns (dmain d)) = map reg_entry l -> plain_regs l ->
  match dflt (bns (dmain d)) with Some x => uri_ok (ns_uri x) = true | None => True end ->
  let m := with_default (after l) (dflt (bns (dmain d))) in
  Forall (rec_ok None ft m) (brecs (dmain d)) ->
  decode_doc ft (encode_doc d)
  = OK (mkD (add_all (with_ns (bundle_init None) m) (map renorm (grouped (brecs (dmain d))))) []).
Proof.
  intros ft d l NB R P D m F. apply json_doc_roundtrip_flat; [exact NB | | exact F].
  pose proof (decode_encode_prefixes (bns (dmain d)) l R P D) as E. fold m in E.
  destruct (encode_prefixes (bns (dmain d))) as [|p ps] eqn:EP; [|exact E].
  cbn [decode_prefixes] in E. inversion E. reflexivity.
Qed.

(* in that manager every registered namespace is bound: names under registered prefixes satisfy the Bound
   premises of attr_good / rec_ok *)
Theorem plain_names_bound : forall l d q, plain_regs l -> In (qn_ns q) l -> ns_prefix (qn_ns q) <> "" ->
  Bound (with_default (after l) d) q.
Proof. intros l d q P I NE. right. apply after_bound; assumption. Qed.

(* the premises are satisfiable: the container of JsonContProofs as a document *)
Example json_doc_roundtrip_plain_applies :
  decode_doc [] (encode_doc (mkD y_b []))
  = OK (mkD (add_all (with_ns (bundle_init None) x_m) (map renorm (grouped (brecs y_b)))) []).
Proof.
  assert (E : with_default (after [x_ns]) (dflt (bns (dmain (mkD y_b [])))) = x_m) by (vm_compute; reflexivity).
  rewrite <- E. apply (json_doc_roundtrip_plain [] (mkD y_b []) [x_ns]).
  - reflexivity.
  - vm_compute. reflexivity.
  - split; [repeat constructor; intros []|]. split; [repeat constructor; intros []|].
    intros n [<-|[]]. vm_compute. repeat split; reflexivity.
  - exact Logic.I.
  - rewrite E. exact y_rec_ok.
Qed.
