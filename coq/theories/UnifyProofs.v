(* UnifyProofs.v — the grouping half of the unified() specification, over the model:
   the result holds, in first-occurrence order, exactly one record per (kind, identifier)
   group of the source and every anonymous record. *)
From Coq Require Import String List Arith ZArith Bool Lia.
From Prov Require Import Str Sexp Tables Nsm Values Record World.
Import ListNotations.
Open Scope string_scope.

Definition rkey (r : prec) : string * option string := (rkind r, option_map qn_uri (rid r)).

Lemma add_attributes_key : forall c m r l m' r',
  add_attributes c m r l = ADone m' r' -> rkind r' = rkind r /\ rid r' = rid r.
Proof.
  intros c m r l m' r' H. unfold add_attributes in H. destruct l as [|x l'].
  - injection H as _ <-. split; reflexivity.
  - destruct (add_attrs_loop c (names_collection (x :: l')) m (rattrs r) (x :: l')) as [[m1 d] res].
    destruct res; try discriminate. injection H as _ <-. split; reflexivity.
Qed.

Lemma merge_group_key : forall rs c m acc m' r',
  merge_group c m acc rs = Done m' r' -> rkind r' = rkind acc /\ rid r' = rid acc.
Proof.
  induction rs as [|r rest IH]; intros c m acc m' r' H; cbn [merge_group] in H.
  - injection H as _ <-. split; reflexivity.
  - destruct (add_attributes c m acc (all_attr_args r)) as [m1 acc1| |] eqn:E; try discriminate.
    destruct (add_attributes_key _ _ _ _ _ _ E) as [K I].
    destruct (IH _ _ _ _ _ H) as [K' I']. split; congruence.
Qed.

(* first occurrences: anonymous records, and the first record of every group not seen yet *)
Fixpoint firsts (todo seen : list prec) : list prec :=
  match todo with
  | [] => []
  | r :: rest =>
      match rid r with
      | None => r :: firsts rest seen
      | Some _ => if existsb (same_group r) seen then firsts rest seen else r :: firsts rest (r :: seen)
      end
  end.

Lemma qn_eqb_sym : forall a b, qn_eqb a b = qn_eqb b a.
Proof. intros a b. unfold qn_eqb. apply String.eqb_sym. Qed.

Lemma same_group_sym : forall a b, same_group a b = same_group b a.
Proof.
  intros a b. unfold same_group. rewrite (String.eqb_sym (rkind a) (rkind b)).
  destruct (rid a), (rid b); try reflexivity. rewrite qn_eqb_sym. reflexivity.
Qed.

Lemma same_group_refl : forall r q, rid r = Some q -> same_group r r = true.
Proof.
  intros r q H. unfold same_group. rewrite H, String.eqb_refl. unfold qn_eqb. rewrite String.eqb_refl. reflexivity.
Qed.

Lemma firsts_seen_ext : forall todo s1 s2,
  (forall x, In x todo -> existsb (same_group x) s1 = existsb (same_group x) s2) ->
  firsts todo s1 = firsts todo s2.
Proof.
  induction todo as [|r rest IH]; intros s1 s2 H; [reflexivity|]. cbn [firsts].
  destruct (rid r).
  - rewrite (H r (or_introl eq_refl)). destruct (existsb (same_group r) s2).
    + apply IH. intros x Hx. apply H. right; exact Hx.
    + f_equal. apply IH. intros x Hx. cbn [existsb]. rewrite (H x (or_intror Hx)). reflexivity.
  - f_equal. apply IH. intros x Hx. apply H. right; exact Hx.
Qed.

Lemma filter_two : forall (f : prec -> bool) pre r rest s,
  f r = true -> In s rest -> f s = true -> 2 <= length (filter f (pre ++ r :: rest)).
Proof.
  intros f pre r rest s Hr Hs Fs. rewrite filter_app, app_length. cbn [filter]. rewrite Hr. cbn [length].
  assert (1 <= length (filter f rest)).
  { assert (In s (filter f rest)) by (apply filter_In; split; assumption).
    destruct (filter f rest); [contradiction | cbn; lia]. }
  lia.
Qed.

Lemma walk_keys : forall fuel c m all pre todo seen m' l,
  all = (pre ++ todo)%list ->
  length todo < fuel ->
  unify_walk fuel c m all todo seen = Done m' l ->
  map rkey l = map rkey (firsts todo seen).
Proof.
  induction fuel as [|f IH]; intros c m all pre todo seen m' l A L H; [inversion L|].
  destruct todo as [|r rest]; cbn [unify_walk] in H.
  - injection H as _ <-. reflexivity.
  - assert (L' : length rest < f) by (cbn in L; lia).
    assert (A' : all = ((pre ++ [r]) ++ rest)%list) by (rewrite <- app_assoc; exact A).
    cbn [firsts]. destruct (rid r) as [q|] eqn:ER.
    + destruct (existsb (same_group r) seen) eqn:ES.
      * exact (IH _ _ _ _ _ _ _ _ A' L' H).
      * assert (SINGLE : length (filter (same_group r) all) <= 1 ->
                forall m1 l1, unify_walk f c m all rest seen = Done m1 l1 ->
                map rkey (r :: l1) = map rkey (r :: firsts rest (r :: seen))).
        { intros LE m1 l1 EW. cbn [map]. f_equal.
          rewrite (IH _ _ _ _ _ _ _ _ A' L' EW). f_equal.
          apply firsts_seen_ext. intros x Hx. cbn [existsb].
          destruct (same_group x r) eqn:E; [|reflexivity]. exfalso.
          pose proof (filter_two (same_group r) pre r rest x (same_group_refl r q ER) Hx) as T.
          rewrite same_group_sym in E. specialize (T E). rewrite <- A in T. lia. }
        destruct (filter (same_group r) all) as [|g0 [|g1 grest]] eqn:EG; cbv iota beta in H.
        -- destruct (unify_walk f c m all rest seen) as [m1 l1| |] eqn:EW; cbv iota beta in H; try discriminate.
           inversion H; subst. apply (SINGLE (Nat.le_0_l 1) _ _ eq_refl).
        -- destruct (unify_walk f c m all rest seen) as [m1 l1| |] eqn:EW; cbv iota beta in H; try discriminate.
           inversion H; subst. apply (SINGLE (le_n 1) _ _ eq_refl).
        -- destruct (add_attributes c m (mkRec (rkind r) (Some q) []) (all_attr_args r)) as [m1 cp| |] eqn:EA; cbv iota beta in H; try discriminate.
           destruct (merge_group c m1 cp (tl (g0 :: g1 :: grest))) as [m2 merged| |] eqn:EM; cbv iota beta in H; try discriminate.
           destruct (unify_walk f c m2 all rest (r :: seen)) as [m3 l3| |] eqn:EW; cbv iota beta in H; try discriminate.
           assert (KM : rkey merged = rkey r).
           { destruct (add_attributes_key _ _ _ _ _ _ EA) as [K1 I1]. cbn [rkind rid] in K1, I1.
             destruct (merge_group_key _ _ _ _ _ _ EM) as [K2 I2]. unfold rkey. rewrite K2, I2, K1, I1, ER. reflexivity. }
           assert (KR : map rkey l3 = map rkey (firsts rest (r :: seen))) by exact (IH _ _ _ _ _ _ _ _ A' L' EW).
           inversion H; subst. cbn [map]. rewrite KM, KR. reflexivity.
    + destruct (unify_walk f c m all rest seen) as [m1 l1| |] eqn:EW; cbv iota beta in H; try discriminate.
      inversion H; subst. cbn [map]. f_equal. exact (IH _ _ _ _ _ _ _ _ A' L' EW).
Qed.

(* the first-occurrence list as the fold of the statement in properties/C08.v *)
Definition first_fold (l : list prec) : list prec * list prec :=
  fold_left (fun acc r =>
               match rid r with
               | None => ((fst acc ++ [r])%list, snd acc)
               | Some _ => if existsb (same_group r) (snd acc) then acc
                           else ((fst acc ++ [r])%list, r :: snd acc)
               end) l ([], []).

Lemma fold_firsts : forall todo out seen,
  fst (fold_left (fun acc r =>
               match rid r with
               | None => ((fst acc ++ [r])%list, snd acc)
               | Some _ => if existsb (same_group r) (snd acc) then acc
                           else ((fst acc ++ [r])%list, r :: snd acc)
               end) todo (out, seen)) = (out ++ firsts todo seen)%list.
Proof.
  induction todo as [|r rest IH]; intros out seen; cbn [fold_left firsts].
  - rewrite app_nil_r. reflexivity.
  - destruct (rid r); cbn [fst snd].
    + destruct (existsb (same_group r) seen).
      * apply IH.
      * rewrite IH, <- app_assoc. reflexivity.
    + rewrite IH, <- app_assoc. reflexivity.
Qed.

Theorem unified_keys : forall ft b u, unified_records ft b = OK u ->
  map rkey u = map rkey (fst (first_fold (brecs b))).
Proof.
  intros ft b u H. unfold unified_records in H.
  destruct (unify_walk (S (length (brecs b))) (mkCtx (Some (bns b)) ft) nsm_init (brecs b) (brecs b) []) as [m' l| |] eqn:E;
    try discriminate.
  injection H as <-. unfold first_fold. rewrite fold_firsts. cbn [app].
  exact (walk_keys _ _ _ _ [] _ _ _ _ eq_refl (Nat.lt_succ_diag_r _) E).
Qed.
