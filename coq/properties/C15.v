(* C15 — no identifier, label or attribute value can break the DOT syntax or inject
   markup.  Proved for every byte string: a text quoted the way prov/dot.py quotes
   identifiers, labels and URLs is read by the Graphviz double-quoted-ID rule as
   exactly that text and ends exactly at its closing quote; a text passed through
   html.escape is accepted by the HTML-like text/attribute-value rule and denotes
   exactly that text.  The structure of the drawing is modelled (Dotg.v: the statements
   prov_to_dot adds to the main graph and to every cluster, in order, with the node
   identifiers and the shared node_map of the Python code; tied to the pydot object the
   implementation builds, per run, for all combinations of show_nary x element attributes x
   relation attributes) and proved: one element node per element record, of its kind, with
   its URI, in order (C15_elements_one_node_each); one path per relation with two endpoints
   — a labelled edge, or two edges through one blank node — between nodes of the endpoints'
   URIs (C15_relation_path); the cluster of a bundle carries its URI and holds one element
   node per element record of the bundle (C15_cluster_elements); every further end of an n-ary relation has its labelled edge
   from the blank node to a node of its URI (C15_nary_further_ends).  The HTML-like labels
   (DotLabel.v: the annotation table of a record's attributes and the two-line label of an
   element drawn under its prov:label, as dot.py assembles them character by character; tied
   per run to the labels of the pydot object) are accepted by an acceptor written from
   Graphviz's HTML-label grammar, for every list of rows and every text made of XML
   characters (C15_annotation_table_accepted, C15_fancy_label_accepted; a control character
   that is no XML character is finding C15-F1: C15_F1_refuted).  Styles and Graphviz's
   acceptance of the whole text are checked on every case against the real Graphviz; that the
   acceptor accepts no more than Graphviz is measured there too (partial). *)
From Coq Require Import String Ascii List.
From Prov Require Import Str Sexp Tables Nsm Values Record World Dot DotProofs Dotg DotgProofs DotLabel DotLabelProofs.
Import ListNotations.
Open Scope string_scope.

Theorem C15_quoted_id_ok : forall s rest, read_quoted_id (dot_quote s ++ rest) = Some (s, rest).
Proof. exact quoted_id_roundtrip. Qed.
Print Assumptions C15_quoted_id_ok.

Theorem C15_html_ok : forall s f, String.length s <= f -> html_text f (html_escape s) = Some s.
Proof. exact html_text_escape. Qed.
Print Assumptions C15_html_ok.

(* the strings that used to break the output *)
Example C15_nasty_strings :
  map (fun s => (read_quoted_id (dot_quote s), html_text 100 (html_escape s)))
      ["a""b"; "ends\"; "<b>&amp;</b>"; "it's"; "\"""]
  = [(Some ("a""b", ""), Some "a""b"); (Some ("ends\", ""), Some "ends\");
     (Some ("<b>&amp;</b>", ""), Some "<b>&amp;</b>"); (Some ("it's", ""), Some "it's");
     (Some ("\""", ""), Some "\""")].
Proof. vm_compute. reflexivity. Qed.

(* before the repair identifiers were wrapped in quotes without escaping *)
Lemma C15_old_quoting_refuted :
  let old_quote s := String dq (s ++ String dq EmptyString) in
  read_quoted_id (old_quote "a""b") = Some ("a", "b""") /\ read_quoted_id (old_quote "ends\") = None.
Proof. split; vm_compute; reflexivity. Qed.

(* ---- the structure of the drawing (Dotg.v).  container_stmts: the element nodes of a container, then its relations
   are drawn; elem_nodes: the (class, URL) of the element nodes among a list of statements. *)
Theorem C15_elements_one_node_each : forall o s recs s' a rels, container_stmts o s recs = (s', a, rels) ->
  elem_nodes a = flat_map elem_key (filter (fun r => is_element (rkind r)) recs) /\
  rels = filter (fun r => negb (is_element (rkind r))) recs.
Proof. exact elements_one_node_each. Qed.
Print Assumptions C15_elements_one_node_each.

(* path: one edge id0 -> id1 carrying the label, or id0 -> blank (label) and blank -> id1; drawn s st id uri: the node
   id stands for uri — it was in node_map before (drawn earlier) or its node statement is among st *)
Theorem C15_relation_path : forall o s r l0 x0 l1 x1 more s' st,
  ref_args r = (l0, Some x0) :: (l1, Some x1) :: more -> add_relation o s r = (s', st) ->
  exists id0 id1, path st id0 id1 (edge_label (rkind r)) /\
                  drawn s st id0 (qn_uri x0) /\ drawn s st id1 (qn_uri x1).
Proof. exact relation_path. Qed.
Print Assumptions C15_relation_path.

Theorem C15_nary_further_ends : forall rest s b s' st, nary_edges s b rest = (s', st) ->
  (forall u x, lookup u (nmap s) = Some x -> lookup u (nmap s') = Some x) /\
  forall l q, In (l, Some q) rest ->
    exists id, In (SEdge b id (Some l) false) st /\ lookup (qn_uri q) (nmap s') = Some id.
Proof. exact nary_further_ends. Qed.

(* the cluster of a bundle carries the bundle's URI and holds exactly one element node per element record of the bundle *)
Theorem C15_cluster_elements : forall o s kb s' sub body, bundle_cluster o s kb = (s', (sub, body)) ->
  (exists name, sub = SSub name (match bid (snd kb) with Some q => qn_uri q | None => "" end)) /\
  elem_nodes body = flat_map elem_key (filter (fun r => is_element (rkind r)) (brecs (snd kb))).
Proof. exact cluster_elements. Qed.
Print Assumptions C15_cluster_elements.

(* node_map is sound over the whole drawing: every name it binds has a node statement with that identifier and that URL
   among the statements emitted (main graph and clusters) — so `drawn` by an earlier binding in C15_relation_path and
   C15_nary_further_ends means that a node of that URI exists *)
Theorem C15_node_map_sound : forall o u,
  let '(main, cls) := dot_of_unified o u in
  forall s1 a rels s2 cs s3 c,
    container_stmts o (mkDS 0 0 0 0 []) (brecs (dmain u)) = (s1, a, rels) ->
    clusters o s1 (dbundles u) = (s2, cs) ->
    fold_stmts (add_relation o) s2 rels = (s3, c) ->
    MapOK s3 (a ++ concat (map snd cs) ++ c).
Proof. exact node_map_sound. Qed.
Print Assumptions C15_node_map_sound.

(* all node statements of the drawing — main graph and clusters — carry pairwise different identifiers: "exactly one
   node" is about distinct nodes *)
Theorem C15_node_ids_distinct : forall o u s1 a rels s2 cs s3 c,
  container_stmts o (mkDS 0 0 0 0 []) (brecs (dmain u)) = (s1, a, rels) ->
  clusters o s1 (dbundles u) = (s2, cs) ->
  fold_stmts (add_relation o) s2 rels = (s3, c) ->
  NoDup (node_ids (a ++ concat (map snd cs) ++ c)).
Proof. exact node_ids_distinct. Qed.
Print Assumptions C15_node_ids_distinct.

(* ---- the HTML-like labels.  ann_label rs: the label of the annotation node of a record whose displayed attributes are
   rs (attribute URI, printed name, link target of an Identifier value, text of the value), exactly the text dot.py
   joins from ANNOTATION_START_ROW, one ANNOTATION_ROW_TEMPLATE per attribute and ANNOTATION_END_ROW.  html_label_ok:
   the acceptor (XML lexical level + the nesting rules of Graphviz's label grammar).  row_safe: the four texts hold XML
   characters only.  Any number of rows, any texts: markup characters in names, URIs and values cannot break out. *)
Theorem C15_annotation_table_accepted : forall rs, rs <> [] -> Forall row_safe rs -> html_label_ok (ann_label rs) = true.
Proof. exact ann_label_accepted. Qed.
Print Assumptions C15_annotation_table_accepted.

(* each row leaves the acceptor where it found it, one row further — whatever stands in the row *)
Theorem C15_annotation_row_balanced : forall r k stk tt tb, row_safe r ->
  hrun (in_table k stk tt tb) (nl ++ ann_row r) = in_table (S k) stk tt tb.
Proof. exact run_row. Qed.

(* escaped text never leaves a double-quoted attribute value (href="...") and never opens a tag in character data *)
Theorem C15_escaped_stays_in_attribute : forall s n stk tt tb, xml_safe s = true ->
  hrun (mkH (MAttrVal n) stk tt tb) (html_escape s) = mkH (MAttrVal n) stk tt tb.
Proof. exact run_attr_value. Qed.
Theorem C15_escaped_stays_text : forall s stk tt tb, xml_safe s = true -> text_place (top stk) = true ->
  hrun (mkH MText stk tt tb) (html_escape s) = mkH MText stk (text_flag stk s tt) tb.
Proof. exact run_text. Qed.
Print Assumptions C15_escaped_stays_text.

(* use_labels=True, label different from the identifier: <label<br /><font ...>identifier</font>> *)
Theorem C15_fancy_label_accepted : forall label ident, xml_safe label = true -> xml_safe ident = true ->
  html_label_ok (fancy_label label ident) = true.
Proof. exact fancy_label_accepted. Qed.
Print Assumptions C15_fancy_label_accepted.

(* without the premise (finding C15-F1): a vertical tab in a value *)
Lemma C15_F1_refuted :
  html_label_ok (ann_label [mkRow "http://e/k" "ex:k" None ("a" ++ String (ascii_of_nat 11) "b")]) = false.
Proof. exact control_char_refuted. Qed.

Example C15_annotation_table_applies :
  html_label_ok (ann_label [mkRow "http://e/k" "ex:k" None "a<b & ""c"" 'd'";
                            mkRow "http://e/k2" "ex:k2" (Some "http://x/?a=1&b=2") "http://x/?a=1&b=2"]) = true.
Proof. exact ann_label_applies. Qed.

Example C15_structure_applies :
  let ex l := mkQn (mkNs "ex" "http://e/") l in
  let r := mkRec "Derivation" None [(prov_qn "generatedEntity", [VQn (ex "e2")]); (prov_qn "usedEntity", [VQn (ex "e1")]);
                                    (prov_qn "activity", [VQn (ex "a")]); (prov_qn "generation", [VQn (ex "g")]);
                                    (prov_qn "usage", [VQn (ex "u")])] in
  snd (add_relation (mkDO true true true) (mkDS 0 0 0 0 []) r)
  = [SNode "b1" "blank" None; SNode "n1" "gen:Entity" (Some "http://e/e2"); SEdge "n1" "b1" (Some "wasDerivedFrom") false;
     SNode "n2" "gen:Entity" (Some "http://e/e1"); SEdge "b1" "n2" None false;
     SNode "n3" "gen:Activity" (Some "http://e/a"); SEdge "b1" "n3" (Some "activity") false;
     SNode "n4" "gen:-" (Some "http://e/g"); SEdge "b1" "n4" (Some "generation") false;
     SNode "n5" "gen:-" (Some "http://e/u"); SEdge "b1" "n5" (Some "usage") false].
Proof. exact relation_path_applies. Qed.
