(* C15 — no identifier, label or attribute value can break the DOT syntax or inject
   markup.  Proved for every byte string: a text quoted the way prov/dot.py quotes
   identifiers, labels and URLs is read by the Graphviz double-quoted-ID rule as
   exactly that text and ends exactly at its closing quote; a text passed through
   html.escape is accepted by the HTML-like text/attribute-value rule and denotes
   exactly that text.  The structure of the drawing (one node per element, one path per
   relation, annotation rows) is not modelled: it is checked on every case against the
   real Graphviz (partial). *)
From Coq Require Import String Ascii List.
From Prov Require Import Str Dot DotProofs.
Import ListNotations.
Open Scope string_scope.

Theorem C15_quoted_id_ok : forall s rest, read_quoted_id (dot_quote s ++ rest) = Some (s, rest).
Proof. exact quoted_id_roundtrip. Qed.
Print Assumptions C15_quoted_id_ok.

Theorem C15_html_ok : forall s f, String.length s <= f -> html_text f (html_escape s) = Some s.
Proof. exact html_text_escape. Qed.
Print Assumptions C15_html_ok.

(* the strings that used to break the output *)
Example C15_nasty_strings :
  map (fun s => (read_quoted_id (dot_quote s), html_text 100 (html_escape s)))
      ["a""b"; "ends\"; "<b>&amp;</b>"; "it's"; "\"""]
  = [(Some ("a""b", ""), Some "a""b"); (Some ("ends\", ""), Some "ends\");
     (Some ("<b>&amp;</b>", ""), Some "<b>&amp;</b>"); (Some ("it's", ""), Some "it's");
     (Some ("\""", ""), Some "\""")].
Proof. vm_compute. reflexivity. Qed.

(* before the repair identifiers were wrapped in quotes without escaping *)
Lemma C15_old_quoting_refuted :
  let old_quote s := String dq (s ++ String dq EmptyString) in
  read_quoted_id (old_quote "a""b") = Some ("a", "b""") /\ read_quoted_id (old_quote "ends\") = None.
Proof. split; vm_compute; reflexivity. Qed.
