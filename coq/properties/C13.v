(* C13 — exporting never mutates the document and is repeatable.
   On the model: pure exporters are functions of the world that return it unchanged
   (so calling them again gives the same answer); the composite exporters only append
   documents.  Honest label: for the pure exporters "does not write" is true by
   construction of the model; what carries the property for the implementation is the
   correspondence (the model, in which exports cannot write, must predict every
   document after every export) and the direct before/after oracle — proof on the
   model + correspondence.  PROV-XML, RDF and DOT exporters: oracle only. *)
From Coq Require Import String List Arith.
From Prov Require Import Str Sexp Tables Nsm Values Record World Interp InterpProofs.
Import ListNotations.
Open Scope string_scope.

Theorem C13_exporter_pure : forall w o, exporter o = true -> fst (step w o) = w.
Proof. exact exporter_pure. Qed.
Print Assumptions C13_exporter_pure.

Theorem C13_repeatable : forall w o, exporter o = true -> step (fst (step w o)) o = step w o.
Proof. exact exporter_repeatable. Qed.

Theorem C13_deriving_frame : forall w o d, deriving o = true -> d < length (wdocs w) ->
  nth_error (wdocs (fst (step w o))) d = nth_error (wdocs w) d.
Proof. exact deriving_frame. Qed.
Print Assumptions C13_deriving_frame.

(* two documents built by the same calls — whatever export calls (serialisations, comparisons, typed listings, graph
   conversion) were made in between on either of them: strip_exports strikes them out of a history — are the same world,
   so every export of one is the export of the other.  (This is the twin the harness builds on the implementation: one
   world exported after every single call, the other never.) *)
Theorem C13_same_calls : forall ft ops1 ops2 o,
  strip_exports ops1 = strip_exports ops2 -> step (wrun ft ops1) o = step (wrun ft ops2) o.
Proof. exact same_calls_same_exports. Qed.
Print Assumptions C13_same_calls.

Theorem C13_exports_leave_no_trace : forall ft ops, wrun ft ops = wrun ft (strip_exports ops).
Proof. exact wrun_strip. Qed.

Example C13_same_calls_applies :
  strip_exports [ONewDoc; OExportJson 0; OAddNs (CDoc 0) "ex" "http://e/"; OObserveAll; OExportProvn 0]
  = strip_exports [ONewDoc; OAddNs (CDoc 0) "ex" "http://e/"].
Proof. reflexivity. Qed.

(* any interleaving and repetition of exporters leaves the world as it was *)
Theorem C13_export_sequence : forall os w,
  forallb exporter os = true -> fold_left (fun w o => fst (step w o)) os w = w.
Proof.
  induction os as [|o os IH]; intros w H; cbn [fold_left]; [reflexivity|].
  cbn [forallb] in H. apply Bool.andb_true_iff in H. destruct H as [H1 H2].
  rewrite (exporter_pure w o H1). apply IH. exact H2.
Qed.
Print Assumptions C13_export_sequence.
