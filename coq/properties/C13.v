(* C13 — exporting never mutates the document and is repeatable.
   On the model: pure exporters are functions of the world that return it unchanged
   (so calling them again gives the same answer); the composite exporters only append
   documents.  Honest label: for the pure exporters "does not write" is true by
   construction of the model; what carries the property for the implementation is the
   correspondence (the model, in which exports cannot write, must predict every
   document after every export) and the direct before/after oracle — proof on the
   model + correspondence.  PROV-XML, RDF and DOT exporters: oracle only. *)
From Coq Require Import String List Arith.
From Prov Require Import Str Sexp Tables Nsm Values Record World Interp InterpProofs.
Import ListNotations.
Open Scope string_scope.

Theorem C13_exporter_pure : forall w o, exporter o = true -> fst (step w o) = w.
Proof. exact exporter_pure. Qed.
Print Assumptions C13_exporter_pure.

Theorem C13_repeatable : forall w o, exporter o = true -> step (fst (step w o)) o = step w o.
Proof. exact exporter_repeatable. Qed.

Theorem C13_deriving_frame : forall w o d, deriving o = true -> d < length (wdocs w) ->
  nth_error (wdocs (fst (step w o))) d = nth_error (wdocs w) d.
Proof. exact deriving_frame. Qed.
Print Assumptions C13_deriving_frame.

(* two worlds built by the same calls export the same text: the interpreter is a function *)
Theorem C13_same_calls : forall ft ops o, snd (step (wrun ft ops) o) = snd (step (wrun ft ops) o).
Proof. reflexivity. Qed.

(* any interleaving and repetition of exporters leaves the world as it was *)
Theorem C13_export_sequence : forall os w,
  forallb exporter os = true -> fold_left (fun w o => fst (step w o)) os w = w.
Proof.
  induction os as [|o os IH]; intros w H; cbn [fold_left]; [reflexivity|].
  cbn [forallb] in H. apply Bool.andb_true_iff in H. destruct H as [H1 H2].
  rewrite (exporter_pure w o H1). apply IH. exact H2.
Qed.
Print Assumptions C13_export_sequence.
