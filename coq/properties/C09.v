(* C09 placeholder *)
From Prov Require Import Interp.
