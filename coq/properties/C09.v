(* C09 — flattened(), update() and add_bundle() conserve records.
   Statements only; proofs in theories/WorldProofs.v, InterpProofs.v. *)
From Coq Require Import String List Arith.
From Prov Require Import Str Sexp Tables Nsm NsmProofs Values Record RecordProofs World Interp WorldProofs InterpProofs WInvUProofs IdemProofs ReaddProofs GoodProofs Derive UpdateProofs UpdateStepProofs.
Import ListNotations.
Open Scope string_scope.

(* re-creation in the target scope (add_record, the step shared by flattened, update
   and add_bundle): the copy has the same kind and the same identifier URI — under
   any clash of prefixes or default namespaces in the target — is appended at the
   end, and no existing record of the target is touched *)
Theorem C09_add_record : forall par ft b r0 q b' r,
  InvU (bns b) -> rid r0 = Some q -> add_record par ft b r0 = (b', OK r) ->
  rkind r = rkind r0 /\ option_map qn_uri (rid r) = Some (qn_uri q) /\
  brecs b' = (brecs b ++ [r])%list /\ InvU (bns b').
Proof. exact add_record_spec. Qed.
Print Assumptions C09_add_record.

(* flattened(): a bundle-free new document with exactly as many records as the
   document and all its bundles together; the source is untouched (C12_frame) *)
Theorem C09_flattened_count : forall w d dd h,
  get_doc w d = Some dd -> dbundles dd <> [] ->
  snd (step w (OFlattened d)) = RHandle h ->
  exists nd, get_doc (fst (step w (OFlattened d))) h = Some nd /\ dbundles nd = [] /\
    length (brecs (dmain nd)) =
    length (brecs (dmain dd)) + length (flat_map (fun kb => brecs (snd kb)) (dbundles dd)).
Proof. exact flattened_count. Qed.
Print Assumptions C09_flattened_count.

(* update(): the other document is left unchanged (when it is another document) *)
Theorem C09_update_other_unchanged : forall w c o,
  cref_doc o < length (wdocs w) -> cref_doc o <> cref_doc c ->
  nth_error (wdocs (fst (step w (OUpdate c o)))) (cref_doc o) = nth_error (wdocs w) (cref_doc o).
Proof.
  intros w c o L N. apply step_frame; [exact L|]. cbn [target]. congruence.
Qed.
Print Assumptions C09_update_other_unchanged.

(* add_bundle: every refusal leaves the whole world as it was *)
Theorem C09_add_bundle_refusal_unchanged : forall w d src x order e,
  snd (step w (OAddBundleDoc d src x order)) = RRaise e ->
  fst (step w (OAddBundleDoc d src x order)) = w.
Proof. exact add_bundle_refusal_unchanged. Qed.
Print Assumptions C09_add_bundle_refusal_unchanged.

Theorem C09_add_bundle_refuses_nested : forall w d src x order dd sd,
  get_doc w d = Some dd -> get_doc w src = Some sd -> dbundles sd <> [] ->
  step w (OAddBundleDoc d src x order) = (w, RRaise EProv).
Proof. exact add_bundle_refuses_nested. Qed.

Theorem C09_add_bundle_refuses_missing_id : forall w d src order,
  snd (step w (OAddBundleDoc d src None order)) <> RUnit.
Proof. exact add_bundle_refuses_missing_id. Qed.

(* attribute conservation of the re-creation step: the copy holds the images (same Python kind, lexical form,
   language; names and datatypes keep their URI under any clash in the target) of the values the source record
   hands over — its formal arguments and its other attributes — and nothing else *)
Theorem C09_add_record_attributes : forall par ft b r0 b' r,
  InvU (bns b) -> (forall p, In p (record_pairs r0) -> good_pair ft p) ->
  add_record par ft b r0 = (b', OK r) ->
  (forall x v', In v' (attr_get x (rattrs r)) ->
     exists p, In p (record_pairs r0) /\ qn_eqb x (fst p) = true /\ same_value (snd p) v') /\
  (forall p, In p (record_pairs r0) ->
     exists v2 w, same_value (snd p) v2 /\ In w (attr_get (fst p) (rattrs r)) /\
                  (w = v2 \/ set_same v2 w = true \/ py_eq v2 w = true)).
Proof. exact add_record_conserves. Qed.
Print Assumptions C09_add_record_attributes.
(* and what is handed over are values the source record holds under those names *)
Theorem C09_record_pairs_held : forall r p, In p (record_pairs r) ->
  In (snd p) (attr_get (fst p) (rattrs r)) \/ exists k vs, In (k, vs) (rattrs r) /\ fst p = k /\ In (snd p) vs.
Proof. exact record_pairs_held. Qed.

(* flattened(): the records of the result are, in order, the images of the document's own records followed by
   the records of all its bundles — same kind, same identifier URI, the images of the same attribute values;
   nothing is dropped, invented or duplicated (the multiset statement of the property, with order) *)
Theorem C09_flattened_records : forall w d dd h,
  get_doc w d = Some dd -> dbundles dd <> [] ->
  (forall r0, In r0 (brecs (dmain dd) ++ flat_map (fun kb => brecs (snd kb)) (dbundles dd))%list ->
     forall p, In p (record_pairs r0) -> good_pair (wft w) p) ->
  snd (step w (OFlattened d)) = RHandle h ->
  exists nd, get_doc (fst (step w (OFlattened d))) h = Some nd /\ dbundles nd = [] /\
    Forall2 (image_of (wft w))
            (brecs (dmain dd) ++ flat_map (fun kb => brecs (snd kb)) (dbundles dd))%list
            (brecs (dmain nd)).
Proof. exact flattened_images. Qed.
Print Assumptions C09_flattened_records.
(* the same without hypothesis for every document of every reachable world *)
Theorem C09_flattened_records_reachable : forall ft ops d dd h,
  let w := wrun ft ops in
  get_doc w d = Some dd -> dbundles dd <> [] ->
  snd (step w (OFlattened d)) = RHandle h ->
  exists nd, get_doc (fst (step w (OFlattened d))) h = Some nd /\ dbundles nd = [] /\
    Forall2 (image_of (wft w))
            (brecs (dmain dd) ++ flat_map (fun kb => brecs (snd kb)) (dbundles dd))%list
            (brecs (dmain nd)).
Proof. exact reachable_flattened_images. Qed.
Print Assumptions C09_flattened_records_reachable.

(* the same for any list of records added to a container (update(), the constructor's records argument) *)
Theorem C09_add_records : forall par ft rs b b',
  InvU (bns b) -> (forall r0, In r0 rs -> forall p, In p (record_pairs r0) -> good_pair ft p) ->
  add_records par ft b rs = (b', OK tt) ->
  exists rs', brecs b' = (brecs b ++ rs')%list /\ Forall2 (image_of ft) rs rs' /\ InvU (bns b').
Proof. exact add_records_images. Qed.

(* ---- update(): the bundles of the other document.  merge_bundles is the loop of ProvDocument.update over
   other.bundles.  (1) the document's own records are not touched by it; (2) every bundle the document had
   stays at its place under its key and identifier and only gains records at the end; (3) every bundle of the
   other document lands in the bundle of the same identifier (created when missing) as the images of its
   records, in order, as one block. *)
Theorem C09_update_main_untouched : forall ft bs dd dd' r, merge_bundles ft dd bs = (dd', r) ->
  brecs (dmain dd') = brecs (dmain dd).
Proof. exact merge_bundles_main_recs. Qed.

Theorem C09_update_bundles_kept : forall ft bs dd dd' r, merge_bundles ft dd bs = (dd', r) ->
  forall j k tb, nth_error (dbundles dd) j = Some (k, tb) ->
  exists tb', nth_error (dbundles dd') j = Some (k, tb') /\ extends tb tb'.
Proof. exact merge_bundles_keeps. Qed.
Print Assumptions C09_update_bundles_kept.

Theorem C09_update_bundles_land : forall ft bs dd dd',
  DInv dd -> (forall k sb, In (k, sb) bs -> good_recs ft (brecs sb)) ->
  merge_bundles ft dd bs = (dd', OK tt) ->
  forall k0 sb, In (k0, sb) bs ->
  exists sid i tb' pre rs' post,
    bid sb = Some sid /\ nth_error (dbundles dd') i = Some (qn_uri sid, tb') /\
    brecs tb' = (pre ++ rs' ++ post)%list /\ Forall2 (image_of ft) (brecs sb) rs'.
Proof. exact merge_bundles_images. Qed.
Print Assumptions C09_update_bundles_land.

(* ---- d.update(other), two documents, in every reachable world.  update_result ft dd odoc nd:
   nd's own records are dd's followed by the images of odoc's, in order; every bundle of dd is in nd at
   the same place under the same key and identifier with its records as a prefix; every bundle of odoc
   is, as one block of images in order, in the bundle of nd of the same identifier. *)
Theorem C09_update_documents : forall ft ops d od dd odoc w',
  let w := wrun ft ops in
  get_doc w d = Some dd -> get_doc w od = Some odoc ->
  step w (OUpdate (CDoc d) (CDoc od)) = (w', RUnit) ->
  exists nd, get_doc w' d = Some nd /\ update_result (wft w) dd odoc nd.
Proof. exact reachable_update_doc. Qed.
Print Assumptions C09_update_documents.

(* bundle.update(other): the bundle's records followed by the images of other's *)
Theorem C09_update_bundle : forall ft ops d i o b ob w',
  let w := wrun ft ops in
  get_cont w (CBun d i) = Some b -> get_cont w o = Some ob ->
  step w (OUpdate (CBun d i) o) = (w', RUnit) ->
  exists b' rs', get_cont w' (CBun d i) = Some b' /\
                 brecs b' = (brecs b ++ rs')%list /\ Forall2 (image_of (wft w)) (brecs ob) rs'.
Proof. exact reachable_update_bundle. Qed.
Print Assumptions C09_update_bundle.

(* add_bundle(document, identifier) that succeeds: one new bundle at the end, under the requested
   identifier (same URI), holding the images of the document's records in order; the target's own
   records and other bundles as before; the identifier was not in use *)
Theorem C09_add_bundle_attaches : forall ft ops d src x order dd sd w',
  let w := wrun ft ops in
  get_doc w d = Some dd -> get_doc w src = Some sd ->
  step w (OAddBundleDoc d src x order) = (w', RUnit) ->
  exists q nb,
    get_doc w' d = Some (mkD (dmain dd) (dbundles dd ++ [(qn_uri q, nb)])%list) /\
    bid nb = Some q /\ Forall2 (image_of (wft w)) (brecs (dmain sd)) (brecs nb) /\
    mem (qn_uri q) (dbundles dd) = false /\
    (forall q0, x = Some (NQn q0) -> qn_uri q = qn_uri q0).
Proof. exact reachable_add_bundle. Qed.
Print Assumptions C09_add_bundle_attaches.

Example C09_update_computes :
  match step u_w (OUpdate (CDoc 0) (CDoc 1)) with
  | (w', RUnit) =>
      match get_doc w' 0 with
      | Some nd => (map rkind (brecs (dmain nd)),
                    map (fun kb => (fst kb, map rkind (brecs (snd kb)))) (dbundles nd))
      | None => ([], [])
      end
  | _ => ([], [])
  end = (["Entity"; "Agent"], [("http://e/b1", ["Entity"; "Entity"]); ("http://e/b2", ["Activity"])]).
Proof. exact update_computes. Qed.

(* full statement not yet proved: the re-created record carries the same attribute
   name URIs and the same strict values (needs idempotence of normalisation on
   stored values and C03a for value names); it is checked by the correspondence run
   and the multiset oracle of this check *)
Definition C09_full_statement : Prop :=
  forall par ft b r0 b' r, InvU (bns b) -> Normal r0 -> add_record par ft b r0 = (b', OK r) ->
    map (fun kv => (qn_uri (fst kv), snd kv)) (rattrs r) = map (fun kv => (qn_uri (fst kv), snd kv)) (rattrs r0).

(* non-vacuity *)
Definition ex_w : world :=
  wrun [] [ONewDoc; OAddNs (CDoc 0) "ex" "http://e/"; ONewBundle 0 (Some (NStr "ex:b"));
           ONewRecord (CDoc 0) "Entity" (Some (NStr "ex:a")) [];
           ONewRecord (CBun 0 0) "Agent" (Some (NQn (mkQn (mkNs "ex" "http://other/") "g"))) []].
Example C09_flatten_computes :
  match step ex_w (OFlattened 0) with
  | (w', RHandle 1) =>
      match get_doc w' 1 with
      | Some nd => map (fun r => (rkind r, option_map qn_uri (rid r))) (brecs (dmain nd))
      | None => []
      end
  | _ => []
  end = [("Entity", Some "http://e/a"); ("Agent", Some "http://other/g")].
Proof. vm_compute. reflexivity. Qed.
