(* C03 — Qualified names keep their URI and stay unambiguous under any namespace
   history.  Statements only; proofs are in theories/NsmProofs.v, ScopeProofs.v. *)
From Coq Require Import String List.
From Prov Require Import Values Record World Interp InterpProofs WInvUProofs.
From Prov Require Import Str Sexp Tables Nsm NsmProofs Scope ScopeProofs.
Import ListNotations.
Open Scope string_scope.

(* (a) resolving a QualifiedName never changes its URI — after ANY history, on the
   document or any bundle, and the call never fails *)
Theorem C03a_uri_preserved : forall ops t q,
  let s := srun ops in
  forall m, get_mgr s t = Some m ->
  exists q', snd (sstep s (OResolve t (NQn q))) = ObQn (Some q') /\ qn_uri q' = qn_uri q.
Proof. exact uri_preserved. Qed.
Print Assumptions C03a_uri_preserved.

(* (a') a full URI given as a string or an Identifier (the spelling every reader of RDF and every
   caller holding a URI uses): when the text before its first colon — its scheme — is not a prefix
   the manager knows, the qualified name found has exactly that URI, whatever the URI holds after
   the namespace it was compacted with *)
Theorem C03a_uri_string_preserved : forall m s b p l q,
  split_colon s = Some (p, l) -> lookup p (tbl m) = None -> lookup p (prenmap m) = None ->
  resolve_str1 m s b = SFound q -> qn_uri q = s.
Proof. exact compaction_preserves_uri. Qed.
Print Assumptions C03a_uri_string_preserved.

(* the premise on the scheme cannot be dropped: with a namespace declared under the prefix "http"
   the URI is read as prefix:local (a consequence recorded as finding C07-F3 where it bites) *)
Lemma C03a_scheme_prefix_refuted :
  exists m q, resolve_str1 m "http://example.org/e" false = SFound q /\ qn_uri q <> "http://example.org/e".
Proof.
  exists (match add_namespace nsm_init (mkNs "http" "http://www.w3.org/2011/http#") with Some (m, _) => m | None => nsm_init end).
  eexists. split; [vm_compute; reflexivity | vm_compute; discriminate].
Qed.

(* (b) a registered (non-default) prefix is never re-pointed, by any operation on
   any container of the scope *)
Theorem C03b_prefix_stable : forall s o t m p v,
  get_mgr s t = Some m -> p <> "" -> lookup p (tbl m) = Some v ->
  exists m', get_mgr (fst (sstep s o)) t = Some m' /\ lookup p (tbl m') = Some v.
Proof. exact prefix_stable. Qed.
Print Assumptions C03b_prefix_stable.

(* (b) a clash yields a fresh prefix bound to the requested URI and leaves the
   clashing prefix as it was *)
Theorem C03b_clash_fresh : forall m n m' r,
  add_namespace m n = Some (m', r) ->
  in_values n (tbl m) = false -> ren_lookup n (renmap m) = None ->
  lookup (ns_uri n) (urimap m) = None -> mem (ns_prefix n) (tbl m) = true ->
  lookup (ns_prefix r) (tbl m) = None /\ lookup (ns_prefix r) (tbl m') = Some r /\
  ns_uri r = ns_uri n /\ lookup (ns_prefix n) (tbl m') = lookup (ns_prefix n) (tbl m).
Proof. exact add_namespace_clash_fresh. Qed.
Print Assumptions C03b_clash_fresh.

(* the while-True loop of _get_unused_prefix terminates *)
Theorem C03b_unused_prefix_terminates : forall p (t : list (string * ns)),
  get_unused_prefix p t <> None.
Proof. exact unused_prefix_fuel. Qed.
Print Assumptions C03b_unused_prefix_terminates.

(* (c) a name handed out at any point of a disciplined history still resolves,
   from its printed form, to the same URI at any later point.  [good] is the usage
   discipline of the property (default namespace not re-bound; namespaces registered
   under non-empty prefixes — finding C03-F3 otherwise); [printable] is what the
   syntax prefix:local can carry (finding C03-F2 otherwise); [no_capture] excludes
   the open finding C03-F1 (it is trivially true for the document itself). *)
Theorem C03c_handed_out_stable : forall ops1 t x q ops2,
  good scope_init (ops1 ++ OResolve t x :: ops2) ->
  snd (sstep (srun ops1) (OResolve t x)) = ObQn (Some q) ->
  printable q ->
  let s := srun (ops1 ++ OResolve t x :: ops2) in
  no_capture s t q ->
  exists q', snd (sstep s (OResolve t (NStr (qn_str q)))) = ObQn (Some q') /\ qn_uri q' = qn_uri q.
Proof. exact handed_out_stable. Qed.
Print Assumptions C03c_handed_out_stable.

Corollary C03c_document : forall ops1 x q ops2,
  good scope_init (ops1 ++ OResolve None x :: ops2) ->
  snd (sstep (srun ops1) (OResolve None x)) = ObQn (Some q) ->
  printable q ->
  let s := srun (ops1 ++ OResolve None x :: ops2) in
  exists q', snd (sstep s (OResolve None (NStr (qn_str q)))) = ObQn (Some q') /\ qn_uri q' = qn_uri q.
Proof.
  intros ops1 x q ops2 G H P s.
  assert (A : SAll InvB (srun ops1)).
  { apply good_app in G. destruct G as [G1 _].
    apply good_fold_inv; [apply SAll_init; apply InvB_init | exact G1]. }
  destruct (sstep (srun ops1) (OResolve None x)) as [s1 ob] eqn:E1. simpl in H. subst ob.
  pose proof (resolve_hands_out _ _ _ _ _ A E1) as [m1 [G1 [B|[NT _]]]]; [|contradiction].
  apply (handed_out_stable ops1 None x q ops2 G); [rewrite E1; reflexivity | exact P |].
  (* for the document, no_capture follows from Handed at the final state *)
  intros m Gm.
  apply good_app in G. destruct G as [Ga Gb]. cbn [good] in Gb. destruct Gb as [_ Gb].
  change (fold_left (fun s o => fst (sstep s o)) ops1 scope_init) with (srun ops1) in Gb.
  rewrite E1 in Gb. cbn [fst] in Gb.
  assert (A1 : SAll InvB s1).
  { replace s1 with (fst (sstep (srun ops1) (OResolve None x))) by (rewrite E1; reflexivity).
    apply sstep_good; [exact A | exact I]. }
  assert (H1 : Handed s1 None q) by (exists m1; split; [exact G1 | left; exact B]).
  destruct (good_fold _ _ _ _ A1 Gb H1) as [_ [m2 [G2 [B2|[NT _]]]]]; [|contradiction].
  assert (ES : srun (ops1 ++ OResolve None x :: ops2) = fold_left (fun s o => fst (sstep s o)) ops2 s1).
  { unfold srun at 1. rewrite fold_left_app. cbn [fold_left].
    change (fold_left (fun s o => fst (sstep s o)) ops1 scope_init) with (srun ops1).
    rewrite E1. reflexivity. }
  rewrite ES in Gm. rewrite G2 in Gm. inversion Gm; subst. left; exact B2.
Qed.
Print Assumptions C03c_document.

(* ---- non-vacuity: a history with a clash, a default namespace, a bundle, a name
   resolved through the parent; all hypotheses of C03c hold and it computes *)
Definition ex_ops1 : list nsop :=
  [OAddNs None "ex" "http://a/"; OAddNs None "ex" "http://b/"; OSetDefault None "http://d/";
   ONewBundle; OAddNs (Some 0) "foo" "http://c/"].
Definition ex_ops2 : list nsop :=
  [OAddNs (Some 0) "bar" "http://e/"; OResolve None (NQn (mkQn (mkNs "" "http://z/") "k"));
   OSetDefault None "http://d/"].

Example C03c_premises_satisfiable :
  good scope_init (ex_ops1 ++ OResolve (Some 0) (NStr "ex_1:e1") :: ex_ops2) /\
  snd (sstep (srun ex_ops1) (OResolve (Some 0) (NStr "ex_1:e1")))
    = ObQn (Some (mkQn (mkNs "ex_1" "http://b/") "e1")) /\
  printable (mkQn (mkNs "ex_1" "http://b/") "e1") /\
  no_capture (srun (ex_ops1 ++ OResolve (Some 0) (NStr "ex_1:e1") :: ex_ops2)) (Some 0)
             (mkQn (mkNs "ex_1" "http://b/") "e1").
Proof.
  split; [|split; [|split]].
  - apply goodb_good. vm_compute. reflexivity.
  - vm_compute. reflexivity.
  - unfold printable; cbn [qn_ns ns_prefix]. split; [vm_compute; reflexivity | discriminate].
  - apply no_captureb_ok. vm_compute. reflexivity.
Qed.

(* ---- the open findings are counterexamples in the model too ---- *)
(* C03-F1: a bundle registers a prefix after handing out a name through its parent *)
Definition f1_ops : list nsop :=
  [OAddNs None "ex" "http://a/"; ONewBundle; OResolve (Some 0) (NStr "ex:e1");
   OAddNs (Some 0) "ex" "http://b/"].
Lemma C03c_F1_refuted :
  good scope_init f1_ops /\
  snd (sstep (srun [OAddNs None "ex" "http://a/"; ONewBundle]) (OResolve (Some 0) (NStr "ex:e1")))
    = ObQn (Some (mkQn (mkNs "ex" "http://a/") "e1")) /\
  snd (sstep (srun f1_ops) (OResolve (Some 0) (NStr "ex:e1")))
    = ObQn (Some (mkQn (mkNs "ex" "http://b/") "e1")).
Proof. split; [apply goodb_good; vm_compute; reflexivity | split; vm_compute; reflexivity]. Qed.

(* C03-F2: a default-namespace local part containing ':' *)
Lemma C03c_F2_refuted :
  let q := mkQn (mkNs "" "http://b/") "e:f" in
  snd (sstep scope_init (OResolve None (NQn q))) = ObQn (Some q) /\
  snd (sstep (srun [OResolve None (NQn q)]) (OResolve None (NStr (qn_str q)))) = ObQn None.
Proof. split; vm_compute; reflexivity. Qed.

(* C03-F3: add_namespace with an empty prefix, then a default namespace *)
Definition f3_ops : list nsop :=
  [OAddNs None "" "http://b/"; OSetDefault None "http://c/"].
Lemma C03c_F3_refuted :
  let q := mkQn (mkNs "" "http://b/") "e2" in
  snd (sstep (srun f3_ops) (OResolve None (NQn q))) = ObQn (Some q) /\
  snd (sstep (srun (f3_ops ++ [OResolve None (NQn q)])) (OResolve None (NStr "e2")))
    = ObQn (Some (mkQn (mkNs "" "http://c/") "e2")).
Proof. split; vm_compute; reflexivity. Qed.

(* world level: in every world the interpreter can reach — through any sequence of namespace declarations,
   record insertions by every path, update, add_bundle, flattened, unified, graph and PROV-JSON round trips —
   the namespace manager of every document and bundle is URI-consistent (InvU: the URI index maps a URI to a
   namespace with that URI, a renamed namespace keeps its URI).  This is the hypothesis under which
   C03a_uri_preserved holds for one manager, established here for all of them at once. *)
Theorem C03_reachable_managers_consistent : forall ft ops c b,
  World.get_cont (InterpProofs.wrun ft ops) c = Some b -> InvU (World.bns b).
Proof. exact reachable_container_InvU. Qed.
Print Assumptions C03_reachable_managers_consistent.
Theorem C03_step_keeps_consistency : forall w o, WInv w -> WInv (fst (Interp.step w o)).
Proof. exact step_WInv. Qed.

