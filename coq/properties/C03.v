(* C03 — placeholder until the proofs land *)
From Prov Require Import Str Sexp Tables Nsm Scope.
