(* C16 — all source/destination kinds agree, and prov.read detects the format.
   Proof of the dispatch logic over the finite format x destination grid, under the
   recorded laws about the three external parsers (reads_back); UTF-8 coding and file
   I/O are the runtime's.  The laws are validated on every run (each reader is run on
   every other format's output). *)
From Coq Require Import String List.
From Prov Require Import Str Tables IO IOProofs IODispatch IODispatchProofs.
Import ListNotations.
Open Scope string_scope.

(* whatever the destination kind, the format's own reader accepts what was written *)
Theorem C16_reads_own_writer : forall f d, f <> FProvn -> reads_back f (write_to f d) = true.
Proof. exact reads_own_writer. Qed.
Print Assumptions C16_reads_own_writer.

Theorem C16_rejects_other_writers : forall f g d, f <> g -> reads_back g (write_to f d) = false.
Proof. exact rejects_other_writers. Qed.

(* prov.read without a format argument returns the document for every readable format
   and every destination kind — with the serializer order generated from /repo *)
Theorem C16_read_detects_format : forall f d, f <> FProvn -> sniff serializer_order (write_to f d) = Some f.
Proof. exact read_detects_format. Qed.
Print Assumptions C16_read_detects_format.

(* ---- the text / bytes dispatch (IODispatch.v: ProvDocument.serialize and deserialize, the serialize / deserialize methods
   of the four serializers, prov.read — which branch is taken for a text stream, a binary stream, a file name, a content
   string, content bytes, and what travels: a str or its UTF-8 bytes).  text, bytes, enc, dec, ldec: the runtime's str and
   bytes, its UTF-8 codec, and the codec open(path) uses, with the round-trip laws as premises (for the locale: that it is
   UTF-8).  For every payload p — the text of a serialisation, of any length and content — *)

(* what is written is p itself for a returned string and a text stream, and exactly its UTF-8 bytes for a binary stream
   and a file: the same text whatever the destination kind, for all four formats *)
Theorem C16_same_text : forall text bytes (enc : text -> bytes) (dec : bytes -> option text),
  (forall t, dec (enc t) = Some t) ->
  forall f d p,
    artefact text bytes enc dec f d p
    = Some (match d with DString | DTextStream => DText text bytes p | DBinaryStream | DPath => DBytes text bytes (enc p) end).
Proof. exact artefact_is_payload. Qed.
Print Assumptions C16_same_text.

(* every destination kind x every source kind: deserialize hands the format's parser the payload *)
Theorem C16_same_parser_input : forall text bytes (enc : text -> bytes) (dec ldec : bytes -> option text),
  (forall t, dec (enc t) = Some t) -> (forall t, ldec (enc t) = Some t) ->
  forall f d s p, f <> FProvn ->
  exists a c x, artefact text bytes enc dec f d p = Some a /\ to_source text bytes enc dec s a = Some c /\
                deserialize_input text bytes enc dec ldec f c = Some x /\ carries text bytes enc x p.
Proof. exact same_parser_input. Qed.
Print Assumptions C16_same_parser_input.

Theorem C16_json_parser_gets_text : forall text bytes (enc : text -> bytes) (dec ldec : bytes -> option text),
  (forall t, dec (enc t) = Some t) -> (forall t, ldec (enc t) = Some t) ->
  forall d s p a c, artefact text bytes enc dec FJson d p = Some a -> to_source text bytes enc dec s a = Some c ->
  deserialize_input text bytes enc dec ldec FJson c = Some (PText text bytes p).
Proof. exact json_parser_gets_text. Qed.

Theorem C16_xml_parser_gets_bytes : forall text bytes (enc : text -> bytes) (dec ldec : bytes -> option text),
  (forall t, dec (enc t) = Some t) -> (forall t, ldec (enc t) = Some t) ->
  forall d s p a c, artefact text bytes enc dec FXml d p = Some a -> to_source text bytes enc dec s a = Some c ->
  deserialize_input text bytes enc dec ldec FXml c = Some (PBytes text bytes (enc p)).
Proof. exact xml_parser_gets_bytes. Qed.

(* prov.read without a format, on a text stream, a binary stream or a file holding p, whatever destination kind p was
   written to: the serializers are tried in the registry's order (generated from /repo), each on the whole content; the
   one p is a serialisation for accepts and is handed p (fmt_of: the format a text is a serialisation of; a parser
   accepts exactly the serialisations of its own format — the law measured per run) *)
Theorem C16_read_detects : forall text bytes (enc : text -> bytes) (dec ldec : bytes -> option text),
  (forall t, dec (enc t) = Some t) -> (forall t, ldec (enc t) = Some t) ->
  forall (fmt_of : text -> fmt) f d s p, fmt_of p = f -> f <> FProvn ->
  In s [STextStream; SBinaryStream; SPath] ->
  exists a c x, artefact text bytes enc dec f d p = Some a /\ to_source text bytes enc dec s a = Some c /\
                read_detect text bytes enc dec ldec fmt_of serializer_order c = Some (f, x) /\ carries text bytes enc x p.
Proof. exact read_detects. Qed.
Print Assumptions C16_read_detects.

(* before the repair: on a stream holding XML or TriG, the JSON attempt consumed the
   stream and the TriG attempt accepted the empty remainder (an empty document) *)
Lemma C16_old_read_refuted :
  sniff_consuming serializer_order (write_to FXml DTextStream) false = Some (FRdf, true) /\
  sniff_consuming serializer_order (write_to FRdf DBinaryStream) false = Some (FRdf, true).
Proof. exact old_read_on_streams_refuted. Qed.

Example C16_registry_order : serializer_order = ["json"; "rdf"; "provn"; "xml"].
Proof. reflexivity. Qed.
