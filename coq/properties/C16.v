(* C16 — all source/destination kinds agree, and prov.read detects the format.
   Proof of the dispatch logic over the finite format x destination grid, under the
   recorded laws about the three external parsers (reads_back); UTF-8 coding and file
   I/O are the runtime's.  The laws are validated on every run (each reader is run on
   every other format's output). *)
From Coq Require Import String List.
From Prov Require Import Str Tables IO IOProofs.
Import ListNotations.
Open Scope string_scope.

(* whatever the destination kind, the format's own reader accepts what was written *)
Theorem C16_reads_own_writer : forall f d, f <> FProvn -> reads_back f (write_to f d) = true.
Proof. exact reads_own_writer. Qed.
Print Assumptions C16_reads_own_writer.

Theorem C16_rejects_other_writers : forall f g d, f <> g -> reads_back g (write_to f d) = false.
Proof. exact rejects_other_writers. Qed.

(* prov.read without a format argument returns the document for every readable format
   and every destination kind — with the serializer order generated from /repo *)
Theorem C16_read_detects_format : forall f d, f <> FProvn -> sniff serializer_order (write_to f d) = Some f.
Proof. exact read_detects_format. Qed.
Print Assumptions C16_read_detects_format.

(* before the repair: on a stream holding XML or TriG, the JSON attempt consumed the
   stream and the TriG attempt accepted the empty remainder (an empty document) *)
Lemma C16_old_read_refuted :
  sniff_consuming serializer_order (write_to FXml DTextStream) false = Some (FRdf, true) /\
  sniff_consuming serializer_order (write_to FRdf DBinaryStream) false = Some (FRdf, true).
Proof. exact old_read_on_streams_refuted. Qed.

Example C16_registry_order : serializer_order = ["json"; "rdf"; "provn"; "xml"].
Proof. reflexivity. Qed.
