(* C04 — equality is an equivalence and coincides with content equivalence.
   Statements only; proofs in theories/EqProofs.v, InterpProofs.v. *)
From Coq Require Import String List Bool.
From Prov Require Import Str StrProofs Sexp Tables Nsm Values Record World Interp EqProofs InterpProofs.
Import ListNotations.
Open Scope string_scope.

(* records: == (as repaired) is an equivalence *)
Theorem C04_record_refl : forall r, rec_eqb r r = true.
Proof. exact rec_eqb_refl. Qed.
Theorem C04_record_sym : forall a b, rec_eqb a b = rec_eqb b a.
Proof. exact rec_eqb_sym. Qed.
Theorem C04_record_trans : forall a b c, rec_eqb a b = true -> rec_eqb b c = true -> rec_eqb a c = true.
Proof. exact rec_eqb_trans. Qed.
Print Assumptions C04_record_trans.

(* bundles: the dedupe / length test / greedy find-and-remove of ProvBundle.__eq__
   holds exactly when the two record lists contain the same records — whatever the
   order, the multiplicities and the order in which Python iterates its sets *)
Theorem C04_bundle_iff : forall a b,
  bundle_eqb a b = true <-> (incl_eq (brecs a) (brecs b) /\ incl_eq (brecs b) (brecs a)).
Proof. exact bundle_eqb_iff. Qed.
Print Assumptions C04_bundle_iff.

Theorem C04_bundle_sym : forall a b, bundle_eqb a b = bundle_eqb b a.
Proof. exact bundle_eqb_sym. Qed.
Theorem C04_bundle_trans : forall a b c, bundle_eqb a b = true -> bundle_eqb b c = true -> bundle_eqb a c = true.
Proof. exact bundle_eqb_trans. Qed.

(* documents (as repaired): equal own records and the same bundles under the same
   identifiers, in both directions *)
Theorem C04_doc_iff : forall a b, uniq (dbundles a) -> uniq (dbundles b) ->
  (doc_eqb a b = true <-> doc_equiv a b).
Proof. exact doc_eqb_iff. Qed.
Print Assumptions C04_doc_iff.
Theorem C04_doc_sym : forall a b, uniq (dbundles a) -> uniq (dbundles b) -> doc_eqb a b = doc_eqb b a.
Proof. exact doc_eqb_sym. Qed.
Theorem C04_doc_refl : forall a, uniq (dbundles a) -> doc_eqb a a = true.
Proof. exact doc_eqb_refl. Qed.
Theorem C04_doc_trans : forall a b c, uniq (dbundles a) -> uniq (dbundles b) -> uniq (dbundles c) ->
  doc_eqb a b = true -> doc_eqb b c = true -> doc_eqb a c = true.
Proof. exact doc_eqb_trans. Qed.

(* the hypothesis is met by every reachable document *)
Theorem C04_reachable_uniq : forall ft ops, WUniq (wrun ft ops).
Proof. exact reachable_uniq. Qed.
Print Assumptions C04_reachable_uniq.

(* consequences named in the property: order of records and repeated identical
   records do not matter; a missing record does *)
Corollary C04_permutation_invariant : forall i m l l' im im',
  (forall x, In x l <-> In x l') -> bundle_eqb (mkB i m l im) (mkB i m l' im') = true.
Proof.
  intros i m l l' im im' H. apply bundle_eqb_iff. cbn [brecs].
  split; intros x Hx; exists x; (split; [apply H; exact Hx | apply rec_eqb_refl]).
Qed.

Corollary C04_duplicate_invariant : forall i m l r im im',
  In r l -> bundle_eqb (mkB i m l im) (mkB i m (r :: l) im') = true.
Proof.
  intros i m l r im im' Hr. apply bundle_eqb_iff. cbn [brecs]. split; intros x Hx.
  - exists x. split; [right; exact Hx | apply rec_eqb_refl].
  - exists x. split; [destruct Hx as [->|Hx]; assumption | apply rec_eqb_refl].
Qed.

Corollary C04_missing_record_detected : forall a b r,
  In r (brecs a) -> (forall y, In y (brecs b) -> rec_eqb r y = false) ->
  bundle_eqb a b = false /\ bundle_eqb b a = false.
Proof.
  intros a b r Hr N.
  assert (X : bundle_eqb a b = false).
  { destruct (bundle_eqb a b) eqn:E; [|reflexivity]. apply bundle_eqb_iff in E. destruct E as [I1 _].
    destruct (I1 r Hr) as [y [Hy Ey]]. rewrite (N y Hy) in Ey. discriminate. }
  split; [exact X | rewrite bundle_eqb_sym; exact X].
Qed.

(* regression documentation: the two definitions the repository had before the
   repairs were not symmetric *)
Definition old_rec_eqb (a b : prec) : bool :=
  String.eqb (rkind a) (rkind b) &&
  match rid a with Some x => match rid b with Some y => qn_eqb x y | None => false end | None => true end &&
  subset_pairs (attributes a) (attributes b) && subset_pairs (attributes b) (attributes a).
Lemma C04_old_record_eq_refuted :
  let q := mkQn (mkNs "ex" "http://e/") "g" in
  old_rec_eqb (mkRec "Generation" None []) (mkRec "Generation" (Some q) []) = true /\
  old_rec_eqb (mkRec "Generation" (Some q) []) (mkRec "Generation" None []) = false.
Proof. split; vm_compute; reflexivity. Qed.
