(* C17 — writing to a file path is exact and all-or-nothing.
   Proof over the step model of IO.v: the serialisation is an arbitrary list of
   chunks (any number of write calls), the fault may hit any write call or the final
   move.  Atomicity of the rename itself is an assumption about the platform. *)
From Coq Require Import String List Arith.
From Prov Require Import Str StrProofs IO IOProofs IOLinks IOLinksProofs.
Import ListNotations.
Open Scope string_scope.

(* a name that is not a file: URL and has no network location is used verbatim,
   whatever URL syntax it contains *)
Theorem C17_path_verbatim : forall name p,
  dest_path name = Some p ->
  String.eqb (lower (fst (split_scheme name))) "file" = false -> p = name.
Proof. exact dest_path_verbatim. Qed.
Print Assumptions C17_path_verbatim.

Theorem C17_exact : forall fs name tmp cs path fs' ok,
  dest_path name = Some path -> tmp <> path -> lookup tmp fs = None ->
  serialize_to fs name tmp cs NoFault = (fs', ok) ->
  ok = true /\ lookup path fs' = Some (cat cs) /\
  (forall p, p <> path -> lookup p fs' = lookup p fs).
Proof. exact serialize_exact. Qed.
Print Assumptions C17_exact.

Theorem C17_atomic : forall fs name tmp cs path f fs' ok,
  dest_path name = Some path -> tmp <> path ->
  (f = FaultAtMove \/ exists k, f = FaultAtWrite k /\ k < length cs) ->
  serialize_to fs name tmp cs f = (fs', ok) ->
  ok = false /\ lookup path fs' = lookup path fs /\
  (forall p, p <> tmp -> lookup p fs' = lookup p fs).
Proof. exact serialize_atomic. Qed.
Print Assumptions C17_atomic.

Theorem C17_refused_writes_nothing : forall fs name tmp cs f,
  dest_path name = None -> serialize_to fs name tmp cs f = (fs, true).
Proof. exact serialize_refused. Qed.

(* names with URL syntax are local names (the defect repaired in /repo: the parsed
   path used to be taken for every name) *)
Example C17_names :
  map dest_path ["a#b.json"; "c d?e;f.json"; "x:y.json"; "dir/sub.json"; "/abs/p q.xml";
                 "file:///tmp/x#frag"; "FILE:/tmp/y;p"; "http://host/x"; "//host/share"]
  = [Some "a#b.json"; Some "c d?e;f.json"; Some "x:y.json"; Some "dir/sub.json"; Some "/abs/p q.xml";
     Some "/tmp/x"; Some "/tmp/y"; None; None].
Proof. vm_compute. reflexivity. Qed.

(* non-vacuity of the atomicity theorem: a pre-existing file, a fault at the 2nd write *)
Example C17_atomic_computes :
  serialize_to [("out.json", "OLD")] "out.json" "tmp1" ["{"; "half"; "}"] (FaultAtWrite 1)
  = ([("out.json", "OLD"); ("tmp1", "{")], false).
Proof. vm_compute. reflexivity. Qed.

(* the behaviour before the repair, as documentation: taking the parsed path *)
Lemma C17_old_path_refuted :
  let old_path name := url_path (snd (split_netloc (snd (split_scheme name)))) in
  map old_path ["a#b.json"; "c d?e;f.json"; "x:y.json"] = ["a"; "c d"; "y.json"].
Proof. vm_compute. reflexivity. Qed.

(* ------------------------------------------------------------------ destinations that are symbolic links (IOLinks.v)
   The same protocol over a file system whose entries are files or links, reading a name follows links, and the last
   step is os.rename (temp file and destination on one file system), which replaces the destination's entry. *)
Theorem C17_links_exact : forall fs name tmp cs path fs' ok,
  dest_path name = Some path -> tmp <> path -> lget fs tmp = None ->
  serialize_to_l fs name tmp cs NoFault = (fs', ok) ->
  ok = true /\ lget fs' path = Some (EFile (cat cs)) /\ (forall fuel, lread fuel fs' path = Some (cat cs)) /\
  (forall p, p <> path -> lget fs' p = lget fs p).
Proof. exact serialize_links_exact. Qed.
Print Assumptions C17_links_exact.

Theorem C17_links_target_kept : forall fs name tmp cs path q fs' ok,
  dest_path name = Some path -> tmp <> path -> lget fs tmp = None ->
  lget fs path = Some (ELink q) -> q <> path ->
  serialize_to_l fs name tmp cs NoFault = (fs', ok) ->
  lget fs' path = Some (EFile (cat cs)) /\ lget fs' q = lget fs q.
Proof. exact serialize_links_target_kept. Qed.
Print Assumptions C17_links_target_kept.

Theorem C17_links_atomic : forall fs name tmp cs path f fs' ok,
  dest_path name = Some path -> tmp <> path ->
  (f = FaultAtMove \/ exists k, f = FaultAtWrite k /\ k < length cs) ->
  serialize_to_l fs name tmp cs f = (fs', ok) ->
  ok = false /\ (forall p, p <> tmp -> lget fs' p = lget fs p).
Proof. exact serialize_links_atomic. Qed.
Print Assumptions C17_links_atomic.

(* non-vacuity: the destination is a link to a file beside it; afterwards the name is a file holding the document,
   the file the link led to keeps its old content *)
Example C17_links_compute :
  serialize_to_l [("sub/out.json", ELink "sub/data.json"); ("sub/data.json", EFile "OLD")] "sub/out.json" "tmp1"
                 ["{"; "doc"; "}"] NoFault
  = ([("sub/out.json", EFile "{doc}"); ("sub/data.json", EFile "OLD")], true).
Proof. vm_compute. reflexivity. Qed.

(* ------------------------------------------------------------------ temp file and destination on different file systems
   (IOLinks.serialize_to_lx): os.rename fails with EXDEV, shutil.move copies — through the links at the destination —
   and removes the temp file.  After a successful call the named path reads as the whole serialisation, the one entry
   that changed is the file the chain of links ends at (r: the destination itself when it is a file or absent; created
   when the last link dangles), the links stay links.  After a failed call — a write call, the move, or a chain of links
   that does not end — nothing but the temp entry differs.  (A copy failing half-way is not in the model: DESIGN.md.) *)
Theorem C17_xdev_exact : forall fuel fs name tmp cs path r fs' ok,
  dest_path name = Some path -> lget fs tmp = None ->
  lresolve fuel (lset tmp (EFile (cat cs)) fs) path = Some r -> r <> tmp ->
  serialize_to_lx fuel fs name tmp cs NoFault = (fs', ok) ->
  ok = true /\ lget fs' r = Some (EFile (cat cs)) /\ lread fuel fs' path = Some (cat cs) /\
  (forall p, p <> r -> lget fs' p = lget fs p).
Proof. exact serialize_xdev_exact. Qed.
Print Assumptions C17_xdev_exact.

(* the same with the premise over the tree before the call: r is where the destination's chain of links ends then *)
Theorem C17_xdev_exact_before : forall fuel fs name tmp cs path r fs' ok,
  dest_path name = Some path -> lget fs tmp = None ->
  lresolve fuel fs path = Some r -> r <> tmp ->
  serialize_to_lx fuel fs name tmp cs NoFault = (fs', ok) ->
  ok = true /\ lget fs' r = Some (EFile (cat cs)) /\ lread fuel fs' path = Some (cat cs) /\
  (forall p, p <> r -> lget fs' p = lget fs p).
Proof. exact serialize_xdev_exact_before. Qed.
Print Assumptions C17_xdev_exact_before.

Theorem C17_xdev_link_kept : forall fuel fs name tmp cs path q r fs' ok,
  dest_path name = Some path -> lget fs tmp = None ->
  lget fs path = Some (ELink q) ->
  lresolve fuel (lset tmp (EFile (cat cs)) fs) path = Some r -> r <> tmp ->
  serialize_to_lx fuel fs name tmp cs NoFault = (fs', ok) ->
  lget fs' path = Some (ELink q) /\ lread fuel fs' path = Some (cat cs).
Proof. exact serialize_xdev_link_kept. Qed.
Print Assumptions C17_xdev_link_kept.

Theorem C17_xdev_atomic : forall fuel fs name tmp cs path f fs' ok,
  dest_path name = Some path ->
  (f = FaultAtMove \/ (exists k, f = FaultAtWrite k /\ k < length cs) \/
   (f = NoFault /\ lresolve fuel (lset tmp (EFile (cat cs)) fs) path = None)) ->
  serialize_to_lx fuel fs name tmp cs f = (fs', ok) ->
  ok = false /\ (forall p, p <> tmp -> lget fs' p = lget fs p).
Proof. exact serialize_xdev_atomic. Qed.
Print Assumptions C17_xdev_atomic.

(* non-vacuity: a link to a link to a file; a dangling link; a loop *)
Example C17_xdev_compute :
  serialize_to_lx 40 [("sub/out.json", ELink "sub/l2"); ("sub/l2", ELink "sub/data.json"); ("sub/data.json", EFile "OLD")]
                  "sub/out.json" "tmp1" ["{"; "doc"; "}"] NoFault
  = ([("sub/out.json", ELink "sub/l2"); ("sub/l2", ELink "sub/data.json"); ("sub/data.json", EFile "{doc}")], true)
  /\ serialize_to_lx 40 [("sub/out.json", ELink "sub/nothing")] "sub/out.json" "tmp1" ["{"; "doc"; "}"] NoFault
  = ([("sub/out.json", ELink "sub/nothing"); ("sub/nothing", EFile "{doc}")], true)
  /\ snd (serialize_to_lx 40 [("a.json", ELink "b"); ("b", ELink "a.json")] "a.json" "tmp1" ["x"] NoFault) = false.
Proof. vm_compute. repeat split. Qed.
