(* C07 — PROV-O (RDF) round trip.  The technique reaches the predicate logic only
   (partial): for every relation kind and every attribute a qualified relation of that
   kind can carry — its formal attributes beyond the subject, prov:role, prov:location,
   prov:label — the RDF predicate chosen by the writer's cascade of substring tests is
   read back by the reader (predicate_mapper + kind-dependent substring tests) as that
   same attribute.  The domain is finite and generated from /repo, so the proof is a
   computation over the whole domain.  Quad level (Rdfq.v): the triples written for a
   relation (binary triple, qualified node, what the node carries) and the relations the
   reader rebuilds from a graph; proved to round-trip over the systematic family of shapes
   of the quantifier — every relation kind x identified/anonymous x subset of optional
   arguments x kind of extra attribute, alone and in pairs on one subject — with opaque
   values (partial: the family is finite; arbitrary sets of relations are decided per run
   by the direct oracle, set-based against unified(), decoder re-run on shuffled quads).
   Value and attribute level (RdfVal.v, RdfValProofs.v): the literal mapping both ways and the
   predicate an attribute of an element travels under — every value of the claimed kinds comes
   back as itself (C07_value theorems), a qualified name and a foreign datatype as names of the
   same URI, under the attribute of the same URI (C07_attribute_roundtrip), and a whole element
   — all its pairs — is read back as one record holding them (C07_element_roundtrip); what rdflib and the
   TriG syntax do to a term in between is an oracle (the term read is the term written),
   measured on every run. *)
From Coq Require Import String List Bool ZArith.
From Prov Require Import Str Sexp Tables Nsm NsmProofs Values Record World JsonProofs Rdf RdfProofs Rdfq RdfqProofs RdfVal RdfValProofs.
Import ListNotations.
Open Scope string_scope.

Theorem C07_predicates_roundtrip : forall k fs attr,
  In (k, fs) relation_kinds -> In attr (qualified_attrs k) -> dec_pred k (enc_pred k attr) = attr.
Proof. exact pred_roundtrip. Qed.
Print Assumptions C07_predicates_roundtrip.

(* the domain is not empty: 15 relation kinds, 69 kind x attribute pairs *)
Example C07_domain :
  length relation_kinds = 15 /\
  length (flat_map (fun ka => qualified_attrs (fst ka)) relation_kinds) = 69.
Proof. vm_compute. split; reflexivity. Qed.

Example C07_some_predicates :
  map (fun p => enc_pred (fst p) (P (snd p)))
      [("Generation", "time"); ("Usage", "entity"); ("Start", "trigger"); ("Start", "starter"); ("End", "ender");
       ("Delegation", "responsible"); ("Delegation", "activity"); ("Derivation", "usedEntity"); ("Derivation", "generation");
       ("Association", "plan"); ("Communication", "informant")]
  = [P "atTime"; P "entity"; P "entity"; P "hadActivity"; P "hadActivity"; P "agent"; P "hadActivity"; P "entity";
     P "hadGeneration"; P "hadPlan"; P "activity"].
Proof. vm_compute. reflexivity. Qed.

(* quad level: every shape of the quantifier, alone and in pairs on one subject, comes back as itself *)
Theorem C07_shapes_roundtrip : forallb single_ok relation_kind_names = true.
Proof. exact rdfq_single_roundtrip. Qed.
Print Assumptions C07_shapes_roundtrip.
Theorem C07_shape_pairs_roundtrip : forallb pair_ok relation_kind_names = true.
Proof. exact rdfq_pair_roundtrip. Qed.
Print Assumptions C07_shape_pairs_roundtrip.
Example C07_shape_family :
  length relation_kind_names = 14%nat /\
  fold_left (fun a k => (a + length (shapes_of k))%nat) relation_kind_names 0%nat > 200.
Proof. exact rdfq_family_size. Qed.

(* the open finding C07-F1: custom attribute names that contain the tested substrings *)
Lemma C07_F1_refuted :
  dec_pred "Communication" (enc_pred "Communication" "http://example.org/activityLevel") = P "informant" /\
  dec_pred "Delegation" (enc_pred "Delegation" "http://example.org/agentRole") = P "responsible" /\
  dec_pred "Derivation" (enc_pred "Derivation" "http://example.org/entityCount") = P "usedEntity".
Proof. exact custom_name_refuted. Qed.

(* ---- value level.  rdf_rt c m v v': the term written for v is read, in the reader's manager m, as an
   argument the record's insertion code stores as v' (without changing m), and v' is v up to the namespace
   objects naming the same URIs (value_same).  XsdRes: the XSD datatype URIs resolve in m; UriRes: a full URI
   resolves in m to a name of that URI. *)
Theorem C07_value_str : forall c m s, XsdRes (cparent c) m -> rdf_rt c m (VStr s) (VStr s).
Proof. exact rdf_rt_str. Qed.
Theorem C07_value_int : forall c m z, XsdRes (cparent c) m -> rdf_rt c m (VInt z) (VInt z).
Proof. exact rdf_rt_int. Qed.
Theorem C07_value_bool : forall c m b, XsdRes (cparent c) m -> rdf_rt c m (VBool b) (VBool b).
Proof. exact rdf_rt_bool. Qed.
Theorem C07_value_uri : forall c m u, XsdRes (cparent c) m -> rdf_rt c m (VId u) (VId u).
Proof. exact rdf_rt_id. Qed.
Theorem C07_value_time : forall c m t, valid_dt t = true -> rdf_rt c m (VTime t) (VTime t).
Proof. exact rdf_rt_time. Qed.
Print Assumptions C07_value_time.
Theorem C07_value_lang : forall c m lex d ch l, lex <> "" -> Bound m (prov_qn "InternationalizedString") ->
  d = Some (prov_qn "InternationalizedString") ->
  rdf_rt c m (VLit lex d (Some (String ch l))) (VLit lex d (Some (String ch l))).
Proof. exact rdf_rt_lang. Qed.
Theorem C07_value_qname : forall c m q q', UriRes (cparent c) m (qn_uri q) q' -> rdf_rt c m (VQn q) (VQn q').
Proof. exact rdf_rt_qn. Qed.
Theorem C07_value_foreign : forall c m lex d d', lex <> "" ->
  starts_with xsd_uri (qn_uri d) = false -> starts_with rdf_syntax_ns (qn_uri d) = false ->
  contains_str "base64Binary" (qn_uri d) = false ->
  UriRes (cparent c) m (qn_uri d) d' ->
  rdf_rt c m (VLit lex (Some d) None) (VLit lex (Some d') None).
Proof. exact rdf_rt_foreign. Qed.
Print Assumptions C07_value_foreign.

(* when full URIs resolve: in a consistent manager, a URI whose scheme is not a declared prefix (the hypothesis
   finding C07-F3 is about) and which some declared namespace starts resolves to a name of exactly that URI *)
Theorem C07_uri_resolves : forall par m u, InvB m -> compactable m u -> exists q, UriRes par m u q.
Proof. exact compactable_res. Qed.
Theorem C07_xsd_resolves : forall par m, InvB m -> Builtins m -> NoScheme m "http" -> XsdRes par m.
Proof. exact XsdRes_of. Qed.
Print Assumptions C07_uri_resolves.

(* ---- attribute level: one attribute of an element, through the predicate the writer chooses and the name
   the reader files it under *)
Theorem C07_attribute_roundtrip : forall c m a a' v v',
  NameRes c m a a' -> is_formal_attr a' = false -> rdf_rt c m v v' ->
  exists t, rdf_encode v = Some t /\ rdf_attr_back c m (enc_elem_pred a) t = BOk a' v' /\ value_same v v'.
Proof. exact rdf_attr_roundtrip. Qed.
Print Assumptions C07_attribute_roundtrip.
Theorem C07_name_type : forall c m a, qn_uri a = P "type" -> Bound m (prov_qn "type") -> NameRes c m a (prov_qn "type").
Proof. exact name_res_type. Qed.
Theorem C07_name_label : forall c m a, qn_uri a = P "label" -> Builtins m -> NameRes c m a (prov_qn "label").
Proof. exact name_res_label. Qed.
Theorem C07_name_location : forall c m a, qn_uri a = P "location" -> Builtins m -> NameRes c m a (prov_qn "location").
Proof. exact name_res_location. Qed.
Theorem C07_name_plain : forall c m a a', special_pred (qn_uri a) = false -> qn_uri a <> "" ->
  UriRes (cparent c) m (qn_uri a) a' -> NameRes c m a a'.
Proof. exact name_res_plain. Qed.

(* the premises hold for the attribute ex:k with a qualified name and with an integer, in a manager that
   declares ex *)
Example C07_attribute_applies :
  exists a' q', qn_uri a' = "http://e/k" /\ qn_uri q' = "http://e/v" /\
    rdf_attr_back (mkCtx None []) JsonRecProofs.x_m (enc_elem_pred (JsonRecProofs.x_q "k")) (RUri "http://e/v") = BOk a' (VQn q') /\
    rdf_attr_back (mkCtx None []) JsonRecProofs.x_m (enc_elem_pred (JsonRecProofs.x_q "k")) (RLit "5" (Some (xsdu "int")) None) = BOk a' (VInt 5%Z).
Proof. exact rdf_attr_applies. Qed.

(* ---- element level: the triples written for the (attribute, value) pairs of an element, read in the
   document's manager and handed to new_record as the reader does, append to the container exactly one record
   of that kind, identified by a name of the subject's URI, whose attribute dictionary is built from the pairs
   read back (pair_back: name of the same URI, value the same up to the namespace objects naming its URIs) *)
Theorem C07_element_roundtrip : forall par ft b kind q q' pairs pairs',
  let c := mkCtx par ft in
  let m := bns b in
  UriRes par m (qn_uri q) q' -> qn_uri q <> "" ->
  Forall2 (pair_back c m) pairs pairs' ->
  exists ts,
    rdf_element_triples pairs = Some ts /\
    rdf_read_element par ft b kind (qn_uri q) ts
    = (add_rec_to b (mkRec kind (Some q') (add_pairs pairs' [])), OK (mkRec kind (Some q') (add_pairs pairs' []))).
Proof. exact rdf_element_roundtrip. Qed.
Print Assumptions C07_element_roundtrip.

Example C07_element_applies :
  exists q' a' v', qn_uri q' = "http://e/s" /\ qn_uri a' = "http://e/k" /\ qn_uri v' = "http://e/v" /\
    exists ts, rdf_element_triples [(JsonRecProofs.x_q "k", VInt 5%Z); (JsonRecProofs.x_q "k", VQn (JsonRecProofs.x_q "v"))] = Some ts /\
      rdf_read_element None [] JsonRecProofs.x_b "Entity" "http://e/s" ts
      = (add_rec_to JsonRecProofs.x_b (mkRec "Entity" (Some q') (add_pairs [(a', VInt 5%Z); (a', VQn v')] [])),
         OK (mkRec "Entity" (Some q') (add_pairs [(a', VInt 5%Z); (a', VQn v')] []))).
Proof. exact rdf_element_applies. Qed.

(* ---- relations: what the value level says about their formal arguments.  An endpoint reaches the factory as the
   subject/object URI string (binary triple) or as the decoded name (property of a qualified node): stored as a
   name of exactly that URI; a time as the decoded literal: stored as the instant with its offset *)
Theorem C07_endpoint_string : forall c m u q', UriRes (cparent c) m u q' -> u <> "" ->
  qn_value c m (AStr u) = Done m (Some (VQn q')).
Proof. exact rdf_endpoint_string. Qed.
Theorem C07_endpoint_term : forall c m u q', UriRes (cparent c) m u q' ->
  exists va, rdf_decode (cparent c) m (RUri u) = OK va /\ qn_value c m va = Done m (Some (VQn q')).
Proof. exact rdf_endpoint_term. Qed.
Theorem C07_relation_time : forall c m t, valid_dt t = true ->
  exists va, rdf_encode (VTime t) = Some (RLit (iso_print t) (Some (xsdu "dateTime")) None) /\
             rdf_decode (cparent c) m (RLit (iso_print t) (Some (xsdu "dateTime")) None) = OK va /\
             time_value m va = Done m (Some (VTime t)).
Proof. exact rdf_relation_time. Qed.
Print Assumptions C07_relation_time.

(* the open finding C07-F3 in the model: with a namespace declared under the prefix http the URI of a
   qualified name does not come back *)
Lemma C07_F3_refuted :
  exists m q', rdf_decode None m (RUri "http://example.org/e") = OK (AQn q') /\ qn_uri q' <> "http://example.org/e".
Proof.
  exists (match add_namespace nsm_init (mkNs "http" "http://www.w3.org/2011/http#") with Some (m, _) => m | None => nsm_init end).
  eexists. split; [vm_compute; reflexivity | vm_compute; discriminate].
Qed.

Definition C07_statement : Prop := True.   (* the quad-level statement of DESIGN §5 C07 is not formalised *)
