(* C07 — PROV-O (RDF) round trip.  The technique reaches the predicate logic only
   (partial): for every relation kind and every attribute a qualified relation of that
   kind can carry — its formal attributes beyond the subject, prov:role, prov:location,
   prov:label — the RDF predicate chosen by the writer's cascade of substring tests is
   read back by the reader (predicate_mapper + kind-dependent substring tests) as that
   same attribute.  The domain is finite and generated from /repo, so the proof is a
   computation over the whole domain.  Quad level (Rdfq.v): the triples written for a
   relation (binary triple, qualified node, what the node carries) and the relations the
   reader rebuilds from a graph; proved to round-trip over the systematic family of shapes
   of the quantifier — every relation kind x identified/anonymous x subset of optional
   arguments x kind of extra attribute, alone and in pairs on one subject — with opaque
   values (partial: the family is finite; arbitrary sets of relations are decided per run
   by the direct oracle, set-based against unified(), decoder re-run on shuffled quads). *)
From Coq Require Import String List Bool.
From Prov Require Import Str Tables Rdf RdfProofs Rdfq RdfqProofs.
Import ListNotations.
Open Scope string_scope.

Theorem C07_predicates_roundtrip : forall k fs attr,
  In (k, fs) relation_kinds -> In attr (qualified_attrs k) -> dec_pred k (enc_pred k attr) = attr.
Proof. exact pred_roundtrip. Qed.
Print Assumptions C07_predicates_roundtrip.

(* the domain is not empty: 15 relation kinds, 69 kind x attribute pairs *)
Example C07_domain :
  length relation_kinds = 15 /\
  length (flat_map (fun ka => qualified_attrs (fst ka)) relation_kinds) = 69.
Proof. vm_compute. split; reflexivity. Qed.

Example C07_some_predicates :
  map (fun p => enc_pred (fst p) (P (snd p)))
      [("Generation", "time"); ("Usage", "entity"); ("Start", "trigger"); ("Start", "starter"); ("End", "ender");
       ("Delegation", "responsible"); ("Delegation", "activity"); ("Derivation", "usedEntity"); ("Derivation", "generation");
       ("Association", "plan"); ("Communication", "informant")]
  = [P "atTime"; P "entity"; P "entity"; P "hadActivity"; P "hadActivity"; P "agent"; P "hadActivity"; P "entity";
     P "hadGeneration"; P "hadPlan"; P "activity"].
Proof. vm_compute. reflexivity. Qed.

(* quad level: every shape of the quantifier, alone and in pairs on one subject, comes back as itself *)
Theorem C07_shapes_roundtrip : forallb single_ok relation_kind_names = true.
Proof. exact rdfq_single_roundtrip. Qed.
Print Assumptions C07_shapes_roundtrip.
Theorem C07_shape_pairs_roundtrip : forallb pair_ok relation_kind_names = true.
Proof. exact rdfq_pair_roundtrip. Qed.
Print Assumptions C07_shape_pairs_roundtrip.
Example C07_shape_family :
  length relation_kind_names = 14%nat /\
  fold_left (fun a k => (a + length (shapes_of k))%nat) relation_kind_names 0%nat > 200.
Proof. exact rdfq_family_size. Qed.

(* the open finding C07-F1: custom attribute names that contain the tested substrings *)
Lemma C07_F1_refuted :
  dec_pred "Communication" (enc_pred "Communication" "http://example.org/activityLevel") = P "informant" /\
  dec_pred "Delegation" (enc_pred "Delegation" "http://example.org/agentRole") = P "responsible" /\
  dec_pred "Derivation" (enc_pred "Derivation" "http://example.org/entityCount") = P "usedEntity".
Proof. exact custom_name_refuted. Qed.

Definition C07_statement : Prop := True.   (* the quad-level statement of DESIGN §5 C07 is not formalised *)
