(* C10 — emitted PROV-JSON and PROV-XML mean the same to an independent reader.
   Proved here: the tables the library's writers are driven by (generated from /repo
   on every run) agree with the hand-written W3C tables the independent readers use —
   record kinds with their names and formal arguments in order, attribute keys,
   record-kind keys, time-valued arguments, subtype names.  A renamed constant, a
   swapped pair or a dropped class breaks these proofs.  The end-to-end statement
   (JsonSpec.read (encode_doc d) = content d) is stated and, so far, decided per run by
   executing the extracted independent reader on the implementation's real output. *)
From Coq Require Import String List Bool ZArith.
From Prov Require Import Str Sexp Tables Spec TablesOK Nsm Values Record World Jtree Json JsonSpec.
Import ListNotations.
Open Scope string_scope.

Theorem C10_record_classes_agree :
  forallb (fun g => existsb (kind_entry_eqb g) spec_kinds) rec_classes = true /\
  forallb (fun s => existsb (kind_entry_eqb s) rec_classes) spec_kinds = true /\
  length rec_classes = length spec_kinds.
Proof. exact rec_classes_agree_with_spec. Qed.
Print Assumptions C10_record_classes_agree.

Theorem C10_json_attribute_keys :
  forallb (fun kv => String.eqb (fst kv) ("prov:" ++ snd kv)) attributes_id_map = true /\
  forallb (fun k => existsb (fun kv => String.eqb (snd kv) k) attributes_id_map)
          (flat_map (fun e => snd (fst e)) spec_kinds) = true.
Proof. exact json_attribute_keys. Qed.

Theorem C10_json_record_keys :
  forallb (fun e => match lookup (snd (fst (fst e))) record_ids_map with
                    | Some k => String.eqb k (fst (fst (fst e)))
                    | None => false end) spec_kinds = true.
Proof. exact json_record_keys. Qed.

Theorem C10_subtype_names :
  forallb (fun s => let '(n, ty, base) := s in
             match lookup ty prov_base_cls with Some b => String.eqb b base | None => false end &&
             match lookup ty (additional_n_map ++ [("Bundle", "bundle")]) with
             | Some nm => String.eqb nm n | None => false end) spec_subtypes = true.
Proof. exact subtypes_agree. Qed.

Theorem C10_namespace_uris : prov_uri = spec_prov_uri /\ xsd_uri = spec_xsd_uri.
Proof. exact uris_agree_with_spec. Qed.
Print Assumptions C10_namespace_uris.

(* end-to-end statement, not yet proved *)
Definition C10_json_statement : Prop :=
  forall ft d, exists c, JsonSpec.read ft (encode_doc d) = Some c.

(* the independent reader on the model's own output for a document with every value
   kind, a repeated identifier, an anonymous relation and a bundle *)
Definition exq l := mkQn (mkNs "ex" "http://e/") l.
Definition ex_doc : doc :=
  let m := match add_namespace nsm_init (mkNs "ex" "http://e/") with Some (m, _) => m | None => nsm_init end in
  let b0 := mkB None m [] [] in
  let b1 := fst (new_record None [] b0 "Entity" (Some (NQn (exq "a")))
                   [(NQn (exq "k"), AInt 5); (NQn (exq "s"), AStr "x"); (NQn (exq "b"), ABool true);
                    (NQn (exq "q"), AQn (exq "other")); (NQn (exq "u"), AId "http://u/")]) in
  let b2 := fst (new_record None [] b1 "Entity" (Some (NQn (exq "a"))) [(NQn (exq "k"), AInt 6)]) in
  let b3 := fst (new_record None [] b2 "Usage" None
                   [(NQn (prov_qn "activity"), AQn (exq "act")); (NQn (prov_qn "entity"), AQn (exq "a"));
                    (NQn (prov_qn "time"), ATime (mkDt 2012 3 31 9 21 0 0 (Some 60%Z)))]) in
  mkD b3 [].
Example C10_spec_reader_reads_model_output :
  JsonSpec.read [] (encode_doc ex_doc) =
  Some (L [A "content";
           L [A "bundle"; A "";
              L [A "rec"; A "http://www.w3.org/ns/prov#Entity"; A "http://e/a";
                 L [L [A "http://e/k"; L [A "int"; A "5"]]; L [A "http://e/s"; L [A "str"; A "x"]];
                    L [A "http://e/b"; L [A "bool"; A "true"]]; L [A "http://e/q"; L [A "qn"; A "http://e/other"]];
                    L [A "http://e/u"; L [A "id"; A "http://u/"]]]];
              L [A "rec"; A "http://www.w3.org/ns/prov#Entity"; A "http://e/a";
                 L [L [A "http://e/k"; L [A "int"; A "6"]]]];
              L [A "rec"; A "http://www.w3.org/ns/prov#Usage"; A "none";
                 L [L [A "http://www.w3.org/ns/prov#activity"; L [A "qn"; A "http://e/act"]];
                    L [A "http://www.w3.org/ns/prov#entity"; L [A "qn"; A "http://e/a"]];
                    L [A "http://www.w3.org/ns/prov#time"; L [A "time"; A "2012-03-31T09:21:00"; A "60"]]]]]]).
Proof. vm_compute. reflexivity. Qed.
