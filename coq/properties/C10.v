(* C10 — emitted PROV-JSON and PROV-XML mean the same to an independent reader.
   Proved here: the tables the library's writers are driven by (generated from /repo
   on every run) agree with the hand-written W3C tables the independent readers use —
   record kinds with their names and formal arguments in order, attribute keys,
   record-kind keys, time-valued arguments, subtype names.  A renamed constant, a
   swapped pair or a dropped class breaks these proofs.  End to end at value level: what
   the independent readers (JsonSpec.read_literal, XmlSpec.read_value / read_child) recover
   from what the model of the library's writers emits for an attribute value is the strict
   content of that value, for every value kind and both values of force_types; and at
   record level for PROV-JSON: the object written for a record is read by JsonSpec.read_record
   as that record (kind, identifier URI, every value of every attribute, in order), and at
   container level for PROV-JSON: JsonSpec.read_container of what the writer emits for a
   container is the list of its records' contents in the grouped order (C10_json_container).  Record
   level for PROV-XML (C10_xml_record): the element the model of the writer builds for a record — tied to
   serialize_bundle by a per-record element correspondence on every run — is read by XmlSpec.read_record as the
   record: its children are in schema order, each is read as its pair, a subtype element name gives back the
   prov:type it stands for.  The
   document level (bundles) of both formats (JsonSpec.read (encode_doc d) = content d) is stated and decided per run
   by executing the extracted readers on the implementation's real output. *)
From Coq Require Import String List Bool ZArith.
From Prov Require Import Str Sexp Tables Spec TablesOK Nsm NsmProofs Values Record World Jtree Json JsonProofs JsonSpec Xml XmlProofs XmlSpec SpecProofs JsonRecProofs SpecRecProofs JsonContProofs SpecContProofs XmlLabel XmlRec XmlRecProofs XmlScope XmlDocProofs JsonBundleProofs SpecDocProofs.
Import ListNotations.
Open Scope string_scope.

Theorem C10_record_classes_agree :
  forallb (fun g => existsb (kind_entry_eqb g) spec_kinds) rec_classes = true /\
  forallb (fun s => existsb (kind_entry_eqb s) rec_classes) spec_kinds = true /\
  length rec_classes = length spec_kinds.
Proof. exact rec_classes_agree_with_spec. Qed.
Print Assumptions C10_record_classes_agree.

Theorem C10_json_attribute_keys :
  forallb (fun kv => String.eqb (fst kv) ("prov:" ++ snd kv)) attributes_id_map = true /\
  forallb (fun k => existsb (fun kv => String.eqb (snd kv) k) attributes_id_map)
          (flat_map (fun e => snd (fst e)) spec_kinds) = true.
Proof. exact json_attribute_keys. Qed.

Theorem C10_json_record_keys :
  forallb (fun e => match lookup (snd (fst (fst e))) record_ids_map with
                    | Some k => String.eqb k (fst (fst (fst e)))
                    | None => false end) spec_kinds = true.
Proof. exact json_record_keys. Qed.

Theorem C10_subtype_names :
  forallb (fun s => let '(n, ty, base) := s in
             match lookup ty prov_base_cls with Some b => String.eqb b base | None => false end &&
             match lookup ty (additional_n_map ++ [("Bundle", "bundle")]) with
             | Some nm => String.eqb nm n | None => false end) spec_subtypes = true.
Proof. exact subtypes_agree. Qed.

Theorem C10_namespace_uris : prov_uri = spec_prov_uri /\ xsd_uri = spec_xsd_uri.
Proof. exact uris_agree_with_spec. Qed.
Print Assumptions C10_namespace_uris.

(* ---- end to end at value level: PROV-JSON *)
Theorem C10_json_str : forall ft t s, JsonSpec.read_literal ft t (encode_value (VStr s)) = Some (content_value (VStr s)).
Proof. exact spec_json_str. Qed.
Theorem C10_json_bool : forall ft t b, JsonSpec.read_literal ft t (encode_value (VBool b)) = Some (content_value (VBool b)).
Proof. exact spec_json_bool. Qed.
Theorem C10_json_int : forall ft t z, Std t -> JsonSpec.read_literal ft t (encode_value (VInt z)) = Some (content_value (VInt z)).
Proof. exact spec_json_int. Qed.
Theorem C10_json_float : forall ft t r iv g, Std t -> lookup r ft = Some (Some (r, iv, g)) ->
  JsonSpec.read_literal ft t (encode_value (VFloat r iv g)) = Some (content_value (VFloat r iv g)).
Proof. exact spec_json_float. Qed.
Theorem C10_json_time : forall ft t tm, Std t -> valid_dt tm = true ->
  JsonSpec.read_literal ft t (encode_value (VTime tm)) = Some (content_value (VTime tm)).
Proof. exact spec_json_time. Qed.
Print Assumptions C10_json_time.
Theorem C10_json_id : forall ft t u, Std t -> JsonSpec.read_literal ft t (encode_value (VId u)) = Some (content_value (VId u)).
Proof. exact spec_json_id. Qed.
Theorem C10_json_qn : forall ft t q, Std t ->
  ns_prefix (qn_ns q) <> "" -> contains_char colon (ns_prefix (qn_ns q)) = false ->
  lookup (ns_prefix (qn_ns q)) t = Some (ns_uri (qn_ns q)) ->
  JsonSpec.read_literal ft t (encode_value (VQn q)) = Some (content_value (VQn q)).
Proof. exact spec_json_qn. Qed.
Theorem C10_json_lang : forall ft t lex c l,
  JsonSpec.read_literal ft t (encode_value (VLit lex (Some (prov_qn "InternationalizedString")) (Some (String c l))))
  = Some (content_value (VLit lex (Some (prov_qn "InternationalizedString")) (Some (String c l)))).
Proof. exact spec_json_lang. Qed.
Theorem C10_json_foreign : forall ft t lex d, Std t ->
  ns_prefix (qn_ns d) <> "" -> contains_char colon (ns_prefix (qn_ns d)) = false ->
  lookup (ns_prefix (qn_ns d)) t = Some (ns_uri (qn_ns d)) ->
  starts_with spec_xsd_uri (qn_uri d) = false -> starts_with spec_prov_uri (qn_uri d) = false ->
  JsonSpec.read_literal ft t (encode_value (VLit lex (Some d) None)) = Some (content_value (VLit lex (Some d) None)).
Proof. exact spec_json_foreign. Qed.
Print Assumptions C10_json_foreign.

(* ---- end to end at value level: PROV-XML, both values of force_types *)
Theorem C10_xml_str : forall ft scope fl a s, XStd scope -> is_qname_attr a = false ->
  spec_xml_value ft scope fl a (VStr s) = Some (content_value (VStr s)).
Proof. exact spec_xml_str. Qed.
Theorem C10_xml_int : forall ft scope fl a z, XStd scope -> plain_attr a ->
  spec_xml_value ft scope fl a (VInt z) = Some (content_value (VInt z)).
Proof. exact spec_xml_int. Qed.
Theorem C10_xml_bool : forall ft scope fl a b, XStd scope -> plain_attr a ->
  spec_xml_value ft scope fl a (VBool b) = Some (content_value (VBool b)).
Proof. exact spec_xml_bool. Qed.
Theorem C10_xml_float : forall ft scope fl a r iv g, XStd scope -> plain_attr a ->
  lookup r ft = Some (Some (r, iv, g)) ->
  spec_xml_value ft scope fl a (VFloat r iv g) = Some (content_value (VFloat r iv g)).
Proof. exact spec_xml_float. Qed.
Theorem C10_xml_time : forall ft scope fl a tm, XStd scope -> plain_attr a -> valid_dt tm = true ->
  spec_xml_value ft scope fl a (VTime tm) = Some (content_value (VTime tm)).
Proof. exact spec_xml_time. Qed.
Print Assumptions C10_xml_time.
Theorem C10_xml_id : forall ft scope fl a u, XStd scope -> plain_attr a ->
  spec_xml_value ft scope fl a (VId u) = Some (content_value (VId u)).
Proof. exact spec_xml_id. Qed.
Theorem C10_xml_qn : forall ft scope fl a q, XStd scope -> is_qname_attr a = false ->
  ns_prefix (qn_ns q) <> "" -> contains_char colon (ns_prefix (qn_ns q)) = false ->
  lookup (ns_prefix (qn_ns q)) scope = Some (ns_uri (qn_ns q)) ->
  String.eqb (ns_uri (qn_ns q)) XmlSpec.xsd_ns = false ->
  spec_xml_value ft scope fl a (VQn q) = Some (content_value (VQn q)).
Proof. exact spec_xml_qn. Qed.
Theorem C10_xml_lang : forall ft scope fl a lex c l, is_qname_attr a = false ->
  spec_xml_value ft scope fl a (VLit lex (Some (prov_qn "InternationalizedString")) (Some (String c l)))
  = Some (content_value (VLit lex (Some (prov_qn "InternationalizedString")) (Some (String c l)))).
Proof. exact spec_xml_lang. Qed.
(* (no exclusion of prov:InternationalizedString any more: since the repair c04dcec the writer types an untagged literal
   of that datatype like any other foreign literal) *)
Theorem C10_xml_foreign : forall ft scope fl a lex d, is_qname_attr a = false ->
  ns_prefix (qn_ns d) <> "" -> contains_char colon (ns_prefix (qn_ns d)) = false ->
  lookup (ns_prefix (qn_ns d)) scope = Some (ns_uri (qn_ns d)) ->
  String.eqb (ns_uri (qn_ns d)) XmlSpec.xsd_ns = false ->
  spec_xml_value ft scope fl a (VLit lex (Some d) None) = Some (content_value (VLit lex (Some d) None)).
Proof. exact spec_xml_foreign. Qed.
Theorem C10_xml_ref : forall ft scope fl l formals q, XStd scope ->
  is_qname_attr (prov_qn l) = true -> existsb (String.eqb l) formals = true ->
  existsb (String.eqb l) spec_time_args = false ->
  ns_prefix (qn_ns q) <> "" -> contains_char colon (ns_prefix (qn_ns q)) = false ->
  lookup (ns_prefix (qn_ns q)) scope = Some (ns_uri (qn_ns q)) ->
  String.eqb (ns_uri (qn_ns q)) XmlSpec.xsd_ns = false ->
  read_child ft formals (child_of scope (prov_qn l) (xml_emit fl (prov_qn l) (VQn q)))
  = Some (L [A (spec_prov_uri ++ l); content_value (VQn q)]).
Proof. exact spec_xml_ref. Qed.
Print Assumptions C10_xml_ref.
Theorem C10_xml_formal_time : forall ft scope fl l formals tm,
  is_qname_attr (prov_qn l) = false -> is_time_attr (prov_qn l) = true ->
  existsb (String.eqb l) formals = true -> existsb (String.eqb l) spec_time_args = true ->
  valid_dt tm = true ->
  read_child ft formals (child_of scope (prov_qn l) (xml_emit fl (prov_qn l) (VTime tm)))
  = Some (L [A (spec_prov_uri ++ l); content_value (VTime tm)]).
Proof. exact spec_xml_formal_time. Qed.
(* every formal argument of every kind falls under C10_xml_ref or C10_xml_formal_time *)
(* ---- record level, PROV-JSON.  attr_spec: the attribute's name resolves in the reader's prefix table to
   the name's URI and is (is not) one of the kind's formal arguments exactly when the library treats it as
   a reference / time; its values are ones the value-level theorems cover.  record_content: kind URI,
   identifier, then for each attribute holding a value each (attribute URI, value content), in order. *)
Theorem C10_json_record : forall ft t kind formals id r ic,
  NoDup (member_names (rattrs r)) -> Forall (attr_spec ft t formals) (rattrs r) ->
  id_content t id = Some ic -> kind <> "Membership" ->
  JsonSpec.read_record ft t kind formals id (encode_record_obj r) = Some [record_content kind ic r].
Proof. exact spec_json_record. Qed.
Print Assumptions C10_json_record.

Example C10_json_record_applies :
  JsonSpec.read_record [] x_t "Usage" ["activity"; "entity"; "time"] "ex:u" (encode_record_obj x_r)
  = Some [record_content "Usage" (A "http://e/u") x_r].
Proof. exact spec_json_record_applies. Qed.

(* ---- container level, PROV-JSON.  spec_ok: the record's kind label is a key of the specification's table, not
   "prefix"/"bundle", the record is not a membership, its attributes are attr_spec, its identifier string
   resolves in the reader's table to the identifier's URI.  The hypothesis on read_prefixes says which table
   the reader has after the prefix block.  grouped: the order in which the record maps list the records. *)
Theorem C10_json_container : forall ft base b t,
  read_prefixes base (match encode_prefixes (bns b) with [] => None | ps => Some (JObj ps) end) = Some t ->
  Forall (spec_ok ft t) (brecs b) ->
  read_container ft base (encode_container b) = Some (t, map content_rec (grouped (brecs b))).
Proof. exact spec_json_container. Qed.
Print Assumptions C10_json_container.

Example C10_json_container_applies :
  read_container [] builtin_ptable (encode_container y_b) = Some (x_t, map content_rec (grouped (brecs y_b))).
Proof. exact spec_json_container_applies. Qed.

(* ---- record level, PROV-XML.  xml_record: element name (record_label), children ordered as sorted_attributes
   orders them, one child per pair as xml_emit writes it.  PairXml: read_child reads the child back as the pair
   (pairxml_value / pairxml_ref / pairxml_time derive it from the value-level theorems above).  canon_prov: names of
   the PROV namespace are written with that namespace and their local name. *)
Theorem C10_xml_children_in_schema_order : forall fl scope kind pairs,
  NoDup (formal_attrs kind ++ five) -> Forall (fun kv => canon_prov (fst kv)) pairs ->
  schema_order (formal_attrs kind) (map (xml_child fl scope) (sorted_pairs kind pairs)) = true.
Proof. exact children_ordered. Qed.
Print Assumptions C10_xml_children_in_schema_order.

Theorem C10_xml_record : forall ft fl scope kind ident pairs label rest x ic,
  lookup kind prov_base_cls = Some kind -> kind <> "Membership" ->
  NoDup (formal_attrs kind ++ five) ->
  record_label kind pairs = Some (label, rest) ->
  xml_record fl scope kind ident pairs = Some x ->
  Forall (fun kv => canon_prov (fst kv)) rest ->
  Forall (PairXml ft fl scope (formal_attrs kind)) rest ->
  match ident with
  | Some q => resolve_uri scope (qn_str q) = Some (qn_uri q) /\ ic = A (qn_uri q)
  | None => ic = A "none"
  end ->
  exists sub,
    XmlSpec.kind_by_name label = Some (kind, formal_attrs kind, sub) /\
    (sub = None /\ rest = pairs \/ exists l, sub = Some l /\ derive_label kind pairs = Some (l, rest)) /\
    XmlSpec.read_record ft x
    = Some [L [A "rec"; A (spec_prov_uri ++ kind); ic;
               L (map pair_content (sorted_pairs kind rest) ++ sub_content sub)]].
Proof. exact xml_record_read. Qed.
Print Assumptions C10_xml_record.

Example C10_xml_record_applies :
  exists x, xml_record false w_scope "Agent" (Some (w_q "g")) w_pairs = Some x /\
    XmlSpec.read_record [] x
    = Some [L [A "rec"; A (spec_prov_uri ++ "Agent"); A "http://e/g";
               L [L [A (spec_prov_uri ++ "label"); L [A "str"; A "lab"]];
                  L [A "http://e/k"; L [A "int"; sx_Z 5]];
                  L [A (spec_prov_uri ++ "type"); L [A "qn"; A (spec_prov_uri ++ "Person")]]]]].
Proof. exact xml_record_read_applies. Qed.

Example C10_formals_covered :
  forallb (fun k => forallb (fun l =>
      if existsb (String.eqb l) spec_time_args
      then negb (is_qname_attr (prov_qn l)) && is_time_attr (prov_qn l)
      else is_qname_attr (prov_qn l)) (snd (fst k))) spec_kinds = true.
Proof. exact spec_formals_covered. Qed.

(* container-level end-to-end statement, not yet proved *)
Definition C10_json_statement : Prop :=
  forall ft d, exists c, JsonSpec.read ft (encode_doc d) = Some c.

(* the independent reader on the model's own output for a document with every value
   kind, a repeated identifier, an anonymous relation and a bundle *)
Definition exq l := mkQn (mkNs "ex" "http://e/") l.
Definition ex_doc : doc :=
  let m := match add_namespace nsm_init (mkNs "ex" "http://e/") with Some (m, _) => m | None => nsm_init end in
  let b0 := mkB None m [] [] in
  let b1 := fst (new_record None [] b0 "Entity" (Some (NQn (exq "a")))
                   [(NQn (exq "k"), AInt 5); (NQn (exq "s"), AStr "x"); (NQn (exq "b"), ABool true);
                    (NQn (exq "q"), AQn (exq "other")); (NQn (exq "u"), AId "http://u/")]) in
  let b2 := fst (new_record None [] b1 "Entity" (Some (NQn (exq "a"))) [(NQn (exq "k"), AInt 6)]) in
  let b3 := fst (new_record None [] b2 "Usage" None
                   [(NQn (prov_qn "activity"), AQn (exq "act")); (NQn (prov_qn "entity"), AQn (exq "a"));
                    (NQn (prov_qn "time"), ATime (mkDt 2012 3 31 9 21 0 0 (Some 60%Z)))]) in
  mkD b3 [].
Example C10_spec_reader_reads_model_output :
  JsonSpec.read [] (encode_doc ex_doc) =
  Some (L [A "content";
           L [A "bundle"; A "";
              L [A "rec"; A "http://www.w3.org/ns/prov#Entity"; A "http://e/a";
                 L [L [A "http://e/k"; L [A "int"; A "5"]]; L [A "http://e/s"; L [A "str"; A "x"]];
                    L [A "http://e/b"; L [A "bool"; A "true"]]; L [A "http://e/q"; L [A "qn"; A "http://e/other"]];
                    L [A "http://e/u"; L [A "id"; A "http://u/"]]]];
              L [A "rec"; A "http://www.w3.org/ns/prov#Entity"; A "http://e/a";
                 L [L [A "http://e/k"; L [A "int"; A "6"]]]];
              L [A "rec"; A "http://www.w3.org/ns/prov#Usage"; A "none";
                 L [L [A "http://www.w3.org/ns/prov#activity"; L [A "qn"; A "http://e/act"]];
                    L [A "http://www.w3.org/ns/prov#entity"; L [A "qn"; A "http://e/a"]];
                    L [A "http://www.w3.org/ns/prov#time"; L [A "time"; A "2012-03-31T09:21:00"; A "60"]]]]]]).
Proof. vm_compute. reflexivity. Qed.

(* ---- PROV-XML, document level.  xml_document: the whole tree the model of serialize() builds — the document
   element with the prefix map of XmlScope.nsmap_of, one element per record, then one bundleContent per bundle with
   prov:id, its own prefix map and its records (tied to the tree the implementation writes on every run).  rec_reads:
   the element written for a record in its container's scope is read by the specification as c (C10_xml_record gives
   it: C10_xml_record_reads); bundle_reads: the bundle's prov:id resolves, in the bundle's scope, to u and its records
   read as rcs.  Then the specification's reader reads the tree as the document's content: its records in order, then
   every bundle under the URI of its identifier. *)
Theorem C10_xml_record_reads : forall ft fl scope r label rest ic,
  lookup (rkind r) prov_base_cls = Some (rkind r) -> rkind r <> "Membership" ->
  NoDup (formal_attrs (rkind r) ++ five) ->
  record_label (rkind r) (attributes r) = Some (label, rest) ->
  Forall (fun kv => canon_prov (fst kv)) rest ->
  Forall (PairXml ft fl scope (formal_attrs (rkind r))) rest ->
  match rid r with
  | Some q => resolve_uri scope (qn_str q) = Some (qn_uri q) /\ ic = A (qn_uri q)
  | None => ic = A "none"
  end ->
  exists sub, rec_reads ft fl scope r
    (L [A "rec"; A (spec_prov_uri ++ rkind r); ic; L (map pair_content (sorted_pairs (rkind r) rest) ++ sub_content sub)]).
Proof. exact record_reads. Qed.

Theorem C10_xml_document : forall ft fl d cs bcs,
  let dm := bns (dmain d) in
  Forall2 (rec_reads ft fl (nsmap_of dm dm)) (brecs (dmain d)) cs ->
  Forall2 (fun kb bc => bundle_reads ft fl dm (snd kb) bc) (dbundles d) bcs ->
  exists x, xml_document fl d = Some x /\
            XmlSpec.read ft x = Some (L (A "content" :: L (A "bundle" :: A "" :: cs) :: bcs)).
Proof. exact xml_document_read. Qed.
Print Assumptions C10_xml_document.

Example C10_xml_document_applies :
  exists x, xml_document false xd_doc = Some x /\
    XmlSpec.read [] x
    = Some (L [A "content";
               L [A "bundle"; A ""; L [A "rec"; A (spec_prov_uri ++ "Entity"); A "http://e/e";
                                       L [L [A "http://e/k"; L [A "int"; A "5"]]]]];
               L [A "bundle"; A "http://e/b"; L [A "rec"; A (spec_prov_uri ++ "Agent"); A "http://e/ag"; L []]]]).
Proof. exact xml_document_applies. Qed.

(* ---- PROV-JSON, document level: the specification's reader applied to the whole tree the library writes — the main
   container's members, then the "bundle" map with one member per bundle — recovers the document's records (grouped
   order) and every bundle's records under the URI its key denotes in the bundle's scope (bundle_spec: the bundle's
   prefix block read on top of the document's table gives the table the bundle's records meet spec_ok under, and the
   key resolves there).  Keys of the bundle map pairwise different (the situation of finding C10-F4 otherwise). *)
Theorem C10_json_document : forall ft d t xs,
  read_prefixes builtin_ptable (pblock (dmain d)) = Some t ->
  Forall (spec_ok ft t) (brecs (dmain d)) ->
  NoDup (map (fun kb => bkey (snd kb)) (dbundles d)) ->
  Forall2 (fun kb x => bundle_spec ft t (snd kb) x) (dbundles d) xs ->
  JsonSpec.read ft (encode_doc d)
  = Some (L (A "content" :: L (A "bundle" :: A "" :: map content_rec (grouped (brecs (dmain d))))
              :: map (fun kbx => bundle_content (snd (fst kbx)) (snd kbx)) (combine (dbundles d) xs))).
Proof. exact spec_json_document. Qed.
Print Assumptions C10_json_document.

Example C10_json_document_applies :
  JsonSpec.read [] (encode_doc z_doc)
  = Some (L (A "content" :: L (A "bundle" :: A "" :: map content_rec (grouped (brecs y_b)))
             :: [L [A "bundle"; A "http://e/b1"; L [A "rec"; A (spec_prov_uri ++ "Entity"); A "http://e/e"; L []]]])).
Proof. exact spec_json_document_applies. Qed.
