(* C05 — records stay in normal form: formal attributes single-valued, typed,
   normalised.  Statements only; proofs in theories/RecordProofs.v. *)
From Coq Require Import String List ZArith.
From Prov Require Import Str Sexp Tables Nsm NsmProofs Values Record RecordProofs SingleProofs IsoProofs TimeProofs IdemProofs World Interp InterpProofs ReaddProofs GoodProofs NormalWorld.
Import ListNotations.
Open Scope string_scope.

(* Normal r: every PROV formal attribute of r holds at most one value; reference-
   valued ones hold qualified names, time-valued ones hold datetimes. *)

(* any call of add_attributes outside the not-claimed collection path keeps the
   normal form — whether it returns or raises (what was added before the exception
   stays in the record, as in the Python loop) *)
Theorem C05_add_preserves : forall c m r l,
  Normal r -> names_collection l = false ->
  match add_attributes c m r l with
  | ADone _ r' => Normal r'
  | AFail _ r' _ => Normal r'
  | AOOD => True
  end.
Proof. exact add_attributes_normal. Qed.
Print Assumptions C05_add_preserves.

(* constructors and factories build normal records *)
Theorem C05_constructor_normal : forall c m k i l m' r,
  names_collection l = false -> new_prec c m k i l = Done m' r -> Normal r.
Proof. exact new_prec_normal. Qed.
Print Assumptions C05_constructor_normal.

(* a second, different value of a formal attribute is refused with ProvException and
   the record is unchanged; the same value again is a no-op *)
Theorem C05_second_value_refused_same_noop : forall c m r n a attr v m1 m2 e0 rest,
  names_collection [(n, a)] = false -> a <> ANone ->
  resolve_o c m n = Done m1 (Some attr) -> is_formal_attr attr = true ->
  (if is_qname_attr attr then qn_value c m1 a
   else if is_time_attr attr then time_value m1 a else auto_conv c m1 a) = Done m2 (Some v) ->
  attr_get attr (rattrs r) = e0 :: rest ->
  add_attributes c m r [(n, a)] = if py_eq v e0 then ADone m2 r else AFail m2 r EProv.
Proof. exact second_value. Qed.
Print Assumptions C05_second_value_refused_same_noop.

(* other attributes accumulate a set of values; nothing else in the record changes *)
Theorem C05_others_accumulate : forall c m r n a attr v m1 m2,
  a <> ANone ->
  resolve_o c m n = Done m1 (Some attr) -> is_formal_attr attr = false ->
  auto_conv c m1 a = Done m2 (Some v) ->
  exists r', add_attributes c m r [(n, a)] = ADone m2 r' /\
    rkind r' = rkind r /\ rid r' = rid r /\
    (forall x, attr_get x (rattrs r') =
               if qn_eqb x attr then set_add v (attr_get attr (rattrs r)) else attr_get x (rattrs r)).
Proof. exact other_accumulates. Qed.
Print Assumptions C05_others_accumulate.

(* set_time keeps the normal form *)
Theorem C05_set_time_normal : forall d k t,
  NormalD d -> is_time_attr k = true -> NormalD (attr_put k [VTime t] d).
Proof. exact NormalD_put_time. Qed.
Print Assumptions C05_set_time_normal.

(* entry-path independence: a typed literal of a natively supported datatype with
   the canonical lexical form is stored as the value a direct assignment stores;
   for every int of any size (xsd:int, xsd:long), every string, URI, boolean; for
   floats under the oracle law float(repr x) = x.  xsd:dateTime: C05_entry_path_datetime_partial *)
Theorem C05_entry_path_int : forall c m z pfx l,
  lookup l xsd_parsers = Some "int" ->
  auto_conv c m (ALit (str_of_Z z) (Some (mkQn (mkNs pfx xsd_uri) l)) None) = Done m (Some (VInt z)).
Proof. exact entry_path_int. Qed.
Print Assumptions C05_entry_path_int.
Theorem C05_entry_path_string : forall c m s pfx l,
  lookup l xsd_parsers = Some "str" ->
  auto_conv c m (ALit s (Some (mkQn (mkNs pfx xsd_uri) l)) None) = Done m (Some (VStr s)).
Proof. exact entry_path_string. Qed.
Theorem C05_entry_path_anyuri : forall c m s pfx l,
  lookup l xsd_parsers = Some "identifier" ->
  auto_conv c m (ALit s (Some (mkQn (mkNs pfx xsd_uri) l)) None) = Done m (Some (VId s)).
Proof. exact entry_path_anyuri. Qed.
Theorem C05_entry_path_bool : forall c m (b : bool) pfx l,
  lookup l xsd_parsers = Some "bool" ->
  auto_conv c m (ALit (if b then "true" else "false") (Some (mkQn (mkNs pfx xsd_uri) l)) None)
    = Done m (Some (VBool b)).
Proof. exact entry_path_bool. Qed.
Theorem C05_entry_path_double : forall c m r iv g pfx l,
  lookup l xsd_parsers = Some "float" ->
  lookup r (cft c) = Some (Some (r, iv, g)) ->
  auto_conv c m (ALit r (Some (mkQn (mkNs pfx xsd_uri) l)) None) = Done m (Some (VFloat r iv g)).
Proof. exact entry_path_double. Qed.
Print Assumptions C05_entry_path_double.

(* the generated parser table really has these datatypes *)
Example C05_tables_cover :
  lookup "int" xsd_parsers = Some "int" /\ lookup "long" xsd_parsers = Some "int" /\
  lookup "double" xsd_parsers = Some "float" /\ lookup "boolean" xsd_parsers = Some "bool" /\
  lookup "string" xsd_parsers = Some "str" /\ lookup "anyURI" xsd_parsers = Some "identifier" /\
  lookup "dateTime" xsd_parsers = Some "datetime".
Proof. vm_compute. repeat split. Qed.

(* xsd:dateTime: a Literal carrying the isoformat() text of any valid datetime is converted to that datetime *)
Theorem C05_entry_path_datetime : forall c m t pfx l, lookup l xsd_parsers = Some "datetime" -> valid_dt t = true ->
  auto_conv c m (ALit (iso_print t) (Some (mkQn (mkNs pfx xsd_uri) l)) None) = Done m (Some (VTime t)).
Proof. exact entry_path_datetime_print. Qed.
Print Assumptions C05_entry_path_datetime.
Example C05_entry_path_datetime_nonvacuous :
  forallb valid_dt
    [mkDt 2012 3 31 9 21 0 0 None; mkDt 1999 12 31 23 59 59 999999 (Some 330%Z);
     mkDt 2024 2 29 0 0 0 500 (Some (-480)%Z); mkDt 1 1 1 0 0 0 0 None;
     mkDt 9999 12 31 23 59 59 1 (Some 0%Z)] = true.
Proof. vm_compute. reflexivity. Qed.

(* normalisation is idempotent on stored values: re-inserting what a record holds (add_record, update,
   flattened, unified, copy) gives the same value, names and datatypes keeping their URI, and never drops or
   refuses it *)
Theorem C05_normalisation_idempotent : forall c m v,
  InvU m -> stored (cft c) v ->
  match auto_conv c m (value_to_arg v) with
  | Done m' (Some v') => same_value v v' /\ InvU m'
  | Done _ None => False
  | Fail _ _ => False
  | OOD => True
  end.
Proof. exact auto_conv_stored. Qed.
Print Assumptions C05_normalisation_idempotent.
Theorem C05_reference_idempotent : forall c m q,
  InvU m ->
  match qn_value c m (value_to_arg (VQn q)) with
  | Done m' (Some v') => same_value (VQn q) v' /\ InvU m'
  | Done _ None => False
  | Fail _ _ => False
  | OOD => True
  end.
Proof. exact qn_value_stored. Qed.
Example C05_stored_examples :
  stored [] (VLit "abc" (Some (xsd_qn "dateTime")) None) /\
  stored [] (VLit "x" (Some (mkQn (mkNs "ex" "http://e/") "T")) None) /\
  stored [] (VLit "hi" (Some (prov_qn "InternationalizedString")) (Some "en")) /\
  ~ stored [] (VLit "5" (Some (xsd_qn "int")) None).
Proof. exact stored_examples. Qed.

(* world level: in every world the interpreter can reach — records arriving through every path: new_record, the
   factories, element methods, add_attributes, set_time, add_asserted_type, add_record, update, add_bundle,
   flattened, unified, graph and PROV-JSON round trips — every attribute value of every record is in the stored form
   normalisation produces and of the kind its attribute demands (a qualified name under a reference attribute, a
   datetime under a time attribute) *)
Theorem C05_reachable_records_normalised : forall ft ops r p,
  get_rec (wrun ft ops) r = Some p -> good_rec (wft (wrun ft ops)) p.
Proof. exact reachable_record_good. Qed.
Print Assumptions C05_reachable_records_normalised.

(* non-vacuity: a normal record with a formal value; the hypotheses of the refusal
   theorem are met and it computes to a refusal *)
Definition ex_ctx : actx := mkCtx None [].
Definition ex_rec : prec :=
  mkRec "Generation" None [(prov_qn "entity", [VQn (mkQn (mkNs "ex" "http://e/") "e1")])].
Example C05_refusal_computes :
  add_attributes ex_ctx nsm_init ex_rec
    [(NQn (prov_qn "entity"), AQn (mkQn (mkNs "ex" "http://e/") "e2"))]
  = AFail (match add_namespace nsm_init (mkNs "ex" "http://e/") with Some (m, _) => m | None => nsm_init end)
          ex_rec EProv.
Proof. vm_compute. reflexivity. Qed.

(* finding C05-F1, as repaired in /repo (the exemption of the membership compatibility path covers prov:entity only):
   the call that used to store a second prov:collection value is refused, the record is left as it was *)
Example C05_F1_repaired :
  add_attributes ex_ctx nsm_init
     (mkRec "Membership" None [(prov_qn "collection", [VQn (mkQn (mkNs "ex" "http://e/") "c")])])
     [(NQn (prov_qn "collection"), AQn (mkQn (mkNs "ex" "http://e/") "c2"))]
  = AFail (match add_namespace nsm_init (mkNs "ex" "http://e/") with Some (m, _) => m | None => nsm_init end)
          (mkRec "Membership" None [(prov_qn "collection", [VQn (mkQn (mkNs "ex" "http://e/") "c")])]) EProv.
Proof. vm_compute. reflexivity. Qed.

(* with the repair the premise "the call does not name prov:collection" of the theorems above is gone: whatever the
   call names and however it ends, every formal attribute other than prov:entity holds at most one value, of the kind it
   demands, and every value under prov:entity is a qualified name *)
Theorem C05_single_valued_any_call : forall c m r l,
  NormalE r ->
  match add_attributes c m r l with
  | ADone _ r' => NormalE r'
  | AFail _ r' _ => NormalE r'
  | AOOD => True
  end.
Proof. exact add_attributes_normalE. Qed.
Print Assumptions C05_single_valued_any_call.

Theorem C05_constructed_single_valued : forall c m k i l m' r, new_prec c m k i l = Done m' r -> NormalE r.
Proof. exact new_prec_normalE. Qed.
Print Assumptions C05_constructed_single_valued.

(* a second, different value of a formal attribute other than prov:entity is refused with ProvException in any call —
   also one that names prov:collection — and the record is as before *)
Theorem C05_second_value_refused_any_call : forall c ic m d n a rest attr v m1 m2 e0 tl,
  a <> ANone ->
  resolve_o c m n = Done m1 (Some attr) -> is_formal_attr attr = true -> is_prov_name "entity" attr = false ->
  (if is_qname_attr attr then qn_value c m1 a
   else if is_time_attr attr then time_value m1 a else auto_conv c m1 a) = Done m2 (Some v) ->
  attr_get attr d = e0 :: tl -> py_eq v e0 = false ->
  add_attrs_loop c ic m d ((n, a) :: rest) = (m2, d, LFail EProv).
Proof. exact second_value_any_call. Qed.
Print Assumptions C05_second_value_refused_any_call.

(* ------------------------------------------------------------------ the statement of C05 itself, at world level
   "After any sequence of record construction and attribute additions, every PROV formal attribute of a record holds at
   most one value, reference-valued ones hold qualified names and time-valued ones hold datetimes."  The history may hold
   any call of the interpreter: those of the quantifier — new_record, the typed factories and element methods,
   add_attributes (pair lists; the harness turns dictionaries into them), set_time, add_asserted_type — and every other
   one (namespace calls, bundles, reading and exporting calls, add_record, update, flattened, unified, a document from
   records, add_bundle of a document, the graph round trip, PROV-JSON deserialisation).  The members of a collection
   (prov:entity of a membership, the compatibility path the property does not claim) may be several; each is a
   qualified name. *)
Theorem C05_reachable_single_valued : forall ft ops r p, get_rec (wrun ft ops) r = Some p -> NormalE p.
Proof. exact reachable_record_single_valued. Qed.
Print Assumptions C05_reachable_single_valued.

Theorem C05_reachable_at_most_one_value : forall ft ops r p a,
  get_rec (wrun ft ops) r = Some p ->
  is_formal_attr a = true -> is_prov_name "entity" a = false -> length (attr_get a (rattrs p)) <= 1.
Proof.
  intros ft ops r p a G F E. eapply NormalE_formal_single; [eapply reachable_record_single_valued; eassumption | exact F | exact E].
Qed.
Print Assumptions C05_reachable_at_most_one_value.

(* non-vacuity: a generation built by new_record, given its time by add_attributes, then offered another time (refused):
   prov:time holds one value *)
Example C05_reachable_applies :
  let ops := [ONewDoc; OAddNs (CDoc 0) "ex" "http://e/";
              ONewRecord (CDoc 0) "Generation" (Some (NStr "ex:g")) [(NQn (prov_qn "entity"), WA (AStr "ex:e"))];
              OAddAttrs (RRef (CDoc 0) 0) [(NQn (prov_qn "time"), WA (AStr "2012-03-31T09:21:00"))];
              OAddAttrs (RRef (CDoc 0) 0) [(NQn (prov_qn "time"), WA (AStr "2012-03-31T09:22:00"))]] in
  option_map (fun p => map (fun kv => (qn_local (fst kv), length (snd kv))) (rattrs p)) (get_rec (wrun [] ops) (RRef (CDoc 0) 0))
  = Some [("entity", 1); ("time", 1)].
Proof. vm_compute. reflexivity. Qed.
