(* C02 — PROV-XML round trip.  Proved at value level, for both values of force_types:
   what serialize_bundle emits for an attribute value (text, xsi:type, xml:lang,
   prov:ref) and _extract_attributes rebuilds from it is, after normalisation on
   insertion, the same value with the same Python kind — strings (prov:label
   included), ints, booleans, floats (under the float-oracle law), URIs,
   language-tagged strings, and references of formal attributes — and, at record level,
   for the choice of the element name: a subtype element stands for exactly one prov:type
   pair of the record, which the reader puts back (theorems C02_element_name_...); and for
   the whole record (C02_record_roundtrip): the element the model of the writer builds for a
   record, read by the model of the library's reader (names resolved in the scope of the
   element that carries them, then normalised by new_record), gives back a record of the
   same class and identifier that holds exactly the values of the pairs the writer was
   given (C02_roundtrip_values_sound / _complete).  Both models are tied to the code on
   every run by per-record correspondences (written element, records read).  nsmap
   generation and bundles are not modelled: decided per run by the strict-content
   round-trip oracle (partial). *)
From Coq Require Import String List ZArith.
From Prov Require Import Str Sexp Tables Nsm NsmProofs Values Record World JsonProofs XmlSpec Xml XmlProofs IsoProofs TimeProofs XmlLabel XmlLabelProofs XmlRec XmlRead IdemProofs JsonRecProofs XmlRecProofs XmlReadProofs Scope ScopeProofs XmlScope XmlScopeProofs.
Import ListNotations.
Open Scope string_scope.

Theorem C02_value_str : forall ft c m a s, Builtins m ->
  is_qname_attr a = false -> is_time_attr a = false ->
  xml_reinsert ft c m a (VStr s) = Done m (Some (VStr s)).
Proof. exact xml_value_str. Qed.
Print Assumptions C02_value_str.

Theorem C02_value_int : forall ft c m a z, Builtins m -> plain_attr a ->
  xml_reinsert ft c m a (VInt z) = Done m (Some (VInt z)).
Proof. exact xml_value_int. Qed.
Print Assumptions C02_value_int.

Theorem C02_value_bool : forall ft c m a b, Builtins m -> plain_attr a ->
  xml_reinsert ft c m a (VBool b) = Done m (Some (VBool b)).
Proof. exact xml_value_bool. Qed.

Theorem C02_value_float : forall ft c m a r iv g, Builtins m -> plain_attr a ->
  lookup r (cft c) = Some (Some (r, iv, g)) ->
  xml_reinsert ft c m a (VFloat r iv g) = Done m (Some (VFloat r iv g)).
Proof. exact xml_value_float. Qed.

Theorem C02_value_uri : forall ft c m a u, Builtins m -> plain_attr a ->
  xml_reinsert ft c m a (VId u) = Done m (Some (VId u)).
Proof. exact xml_value_uri. Qed.

Theorem C02_value_lang : forall ft c m a lex ch l, Builtins m ->
  is_qname_attr a = false -> is_time_attr a = false ->
  xml_reinsert ft c m a (VLit lex (Some (prov_qn "InternationalizedString")) (Some (String ch l)))
  = Done m (Some (VLit lex (Some (prov_qn "InternationalizedString")) (Some (String ch l)))).
Proof. exact xml_value_lang. Qed.

Theorem C02_value_ref : forall ft c m a q, Builtins m -> is_qname_attr a = true ->
  Bound m q -> printable q ->
  xml_reinsert ft c m a (VQn q) = Done m (Some (VQn q)).
Proof. exact xml_value_ref. Qed.
Print Assumptions C02_value_ref.

(* what the writer decides, on the grid attribute class x value kind x force_types *)
Definition exq l := mkQn (mkNs "ex" "http://e/") l.
(* datetimes: typed xsd:dateTime on ordinary attributes, plain text on prov:time /
   prov:startTime / prov:endTime (as repaired: no other attribute loses the type) *)
Theorem C02_value_time : forall ft c m a t, Builtins m -> plain_attr a -> valid_dt t = true ->
  xml_reinsert ft c m a (VTime t) = Done m (Some (VTime t)).
Proof. exact xml_value_time. Qed.
Print Assumptions C02_value_time.
Theorem C02_value_formal_time : forall ft c m a t, is_qname_attr a = false -> is_time_attr a = true ->
  valid_dt t = true -> xml_reinsert ft c m a (VTime t) = Done m (Some (VTime t)).
Proof. exact xml_value_formal_time. Qed.
Example C02_formal_time_attrs : forall l, In l ["time"; "startTime"; "endTime"] ->
  is_qname_attr (prov_qn l) = false /\ is_time_attr (prov_qn l) = true.
Proof. exact formal_time_attrs. Qed.

Example C02_decisions :
  map (fun p => let '(ft, a, v) := p in let x := xml_emit ft a v in (x_text x, x_type x, x_ref x))
      [(false, exq "k", VStr "s"); (true, exq "k", VStr "s"); (false, prov_qn "type", VStr "s");
       (false, prov_qn "label", VStr "s"); (true, prov_qn "label", VStr "s"); (false, exq "k", VInt 5);
       (false, exq "k", VBool true); (false, prov_qn "type", VQn (prov_qn "Person"));
       (false, prov_qn "entity", VQn (exq "e")); (false, exq "k", VStr "prov:x"); (true, exq "k", VStr "prov:x")]
  = [(Some "s", None, None); (Some "s", Some "xsd:string", None); (Some "s", Some "xsd:string", None);
     (Some "s", None, None); (Some "s", None, None); (Some "5", Some "xsd:int", None);
     (Some "true", Some "xsd:boolean", None); (Some "prov:Person", Some "xsd:QName", None);
     (None, None, Some "ex:e"); (Some "prov:x", None, None); (Some "prov:x", None, None)].
Proof. vm_compute. reflexivity. Qed.

(* datetimes and qualified-name values: sampled *)
Example C02_value_time_qname_samples :
  let m := match add_namespace nsm_init (mkNs "ex" "http://e/") with Some (m, _) => m | None => nsm_init end in
  forallb (fun v => match xml_reinsert false (mkCtx None []) m (exq "k") v, xml_reinsert true (mkCtx None []) m (exq "k") v with
                    | Done _ (Some v1), Done _ (Some v2) => andb (set_same v v1) (set_same v v2)
                    | _, _ => false end)
    [VTime (mkDt 2012 3 31 9 21 0 0 None); VTime (mkDt 1999 12 31 23 59 59 999999 (Some 330%Z));
     VQn (exq "other"); VLit "---30" (Some (xsd_qn "gDay")) None; VLit "yes" (Some (xsd_qn "boolean")) None] = true.
Proof. vm_compute. reflexivity. Qed.

(* ---- the element name (subtype elements): for every record class and every attribute list,
   the writer takes out exactly one pair — a prov:type whose value is the qualified name of a
   subtype of the record's class — or none, and the reader's treatment of the element name
   restores the class and that type.  No other pair is touched (in particular not a URI value
   or a second qualified name with the same URI). *)
Theorem C02_element_name_conserves : forall kind attrs n r,
  lookup kind prov_base_cls = Some kind ->
  record_label kind attrs = Some (n, r) ->
  (r = attrs /\ read_label n = Some (kind, None)) \/
  (exists l pre k q post,
     read_label n = Some (kind, Some l) /\
     attrs = (pre ++ (k, VQn q) :: post)%list /\ r = (pre ++ post)%list /\
     qn_uri k = qn_uri (prov_qn "type") /\ qn_uri q = qn_uri (prov_qn l)).
Proof. exact record_label_conserves. Qed.
Print Assumptions C02_element_name_conserves.

Theorem C02_element_name_total : forall kind attrs, lookup kind prov_base_cls = Some kind ->
  record_label kind attrs <> None.
Proof. exact record_label_total. Qed.

(* no subtype element is chosen unless some prov:type pair names a subtype of the class *)
Theorem C02_element_name_plain : forall kind attrs, derive_label kind attrs = None ->
  forall k v, In (k, v) attrs -> is_prov_name "type" k = true -> subtype_local kind v = None.
Proof. exact derive_label_none. Qed.

(* ---- the whole record.  child_ok: the child's tag resolves, in the element's scope, to the attribute name, which
   is bound in the container's manager, and the child is read as an argument that normalises to the value (xrt:
   xrt_str, xrt_int, xrt_bool, xrt_float, xrt_id, xrt_time, xrt_formal_time, xrt_qn, xrt_ref, xrt_lang).  put_all:
   what add_attributes builds from the pairs in the order of the children.  final_attrs: plus the asserted type of a
   subtype element. *)
Theorem C02_record_roundtrip : forall par ft fl prefix_of b scope kind ident pairs label rest x d',
  let c := mkCtx par ft in
  let m := bns b in
  lookup kind prov_base_cls = Some kind -> kind <> "Membership" -> Builtins m ->
  record_label kind pairs = Some (label, rest) ->
  xml_record fl scope kind ident pairs = Some x ->
  Forall (child_ok fl c m prefix_of scope) (sorted_pairs kind rest) ->
  match ident with Some q => scoped scope q /\ Bound m q | None => is_element kind = false end ->
  put_all (has_collection (sorted_pairs kind rest)) (sorted_pairs kind rest) [] = Some d' ->
  exists sub b',
    read_label label = Some (kind, sub) /\
    xml_read_record par ft prefix_of b x = (b', OK tt) /\
    bns b' = m /\ bid b' = bid b /\
    brecs b' = (brecs b ++ [mkRec kind ident (final_attrs sub d')])%list.
Proof. exact xml_record_roundtrip. Qed.
Print Assumptions C02_record_roundtrip.

Theorem C02_roundtrip_values_sound : forall kind rest sub d' x w,
  put_all (has_collection (sorted_pairs kind rest)) (sorted_pairs kind rest) [] = Some d' ->
  In w (attr_get x (final_attrs sub d')) ->
  (exists kv, In kv rest /\ qn_eqb x (fst kv) = true /\ w = snd kv) \/
  (exists ty, sub = Some ty /\ qn_eqb x (prov_qn "type") = true /\ w = VQn (prov_qn ty)).
Proof. exact roundtrip_values_sound. Qed.

Theorem C02_roundtrip_values_complete : forall kind rest sub d' kv,
  put_all (has_collection (sorted_pairs kind rest)) (sorted_pairs kind rest) [] = Some d' ->
  In kv rest ->
  exists w, In w (attr_get (fst kv) (final_attrs sub d')) /\
            (w = snd kv \/ set_same (snd kv) w = true \/ py_eq (snd kv) w = true).
Proof. exact roundtrip_values_complete. Qed.

(* all value kinds at once for an ordinary attribute: every value a record can hold after normalisation (stored; in
   reachable worlds that is every value, GoodProofs) whose names the element's scope and the container declare *)
Theorem C02_value_any_stored : forall fl c m scope a v, XScope scope -> Builtins m -> plain_attr a ->
  IdemProofs.stored (cft c) v -> xvalue_ok c m scope v -> xrt fl c m scope a v.
Proof. exact xrt_of_stored. Qed.
Print Assumptions C02_value_any_stored.

Example C02_record_roundtrip_applies :
  exists x b', xml_record false w_scope "Agent" (Some (w_q "g")) w_pairs = Some x /\
    xml_read_record None [] v_prefix v_b x = (b', OK tt) /\
    brecs b' = [mkRec "Agent" (Some (w_q "g"))
                  [(prov_qn "label", [VStr "lab"]); (w_q "k", [VInt 5]); (prov_qn "type", [VQn (prov_qn "Person")])]].
Proof. exact xml_record_roundtrip_applies. Qed.

(* ---- a whole container: the elements written for its records (each as in C02_record_roundtrip: rec_back collects that
   theorem's premises and names the record read back), read one after the other by the loop of deserialize_subtree,
   append exactly those records, in order, to the container; its manager and identifier are untouched *)
Theorem C02_container_roundtrip : forall par ft fl prefix_of scope (items : list (string * option qname * list (qname * value) * xnode * prec)) b,
  Builtins (bns b) ->
  Forall (fun it => match it with (kind, ident, pairs, x, r') =>
                      rec_back par ft fl prefix_of (bns b) scope kind ident pairs x r' end) items ->
  exists b', xml_read_records par ft prefix_of b (map (fun it => snd (fst it)) items) = (b', OK tt) /\
             bns b' = bns b /\ bid b' = bid b /\
             brecs b' = (brecs b ++ map (fun it => snd it) items)%list.
Proof. exact xml_container_roundtrip. Qed.
Print Assumptions C02_container_roundtrip.

(* ---- the scope of a container's element (XmlScope.nsmap_of: the prefix map serialize_bundle attaches to the document
   element and to each bundleContent element; tied to lxml's nsmap of the written elements on every run).  What a
   container's manager binds is read back, in that scope, as exactly the name — the premise `scoped scope q` of
   C02_record_roundtrip.  InvR (registered namespaces and prefix table agree; registered prefixes are never prov, xsd,
   xsi) holds for every manager of every namespace history (C02_reachable_managers_registered). *)
Theorem C02_scope_own : forall dm bm n l, InvR dm -> InvR bm ->
  tbound bm n -> lookup (ns_prefix n) default_namespaces = None ->
  contains_char colon (ns_prefix n) = false -> plain_uri (ns_uri n) ->
  scoped (nsmap_of dm bm) (mkQn n l).
Proof. exact scope_own. Qed.
Print Assumptions C02_scope_own.

(* a name of the enclosing document inside a bundle that does not register that prefix itself (a bundle that does is
   the situation of finding C02-F1) *)
Theorem C02_scope_inherited : forall dm bm n l, InvR dm -> InvR bm ->
  tbound dm n -> lookup (ns_prefix n) default_namespaces = None -> lookup (ns_prefix n) (regd bm) = None ->
  contains_char colon (ns_prefix n) = false -> plain_uri (ns_uri n) ->
  scoped (nsmap_of dm bm) (mkQn n l).
Proof. exact scope_inherited. Qed.

Theorem C02_scope_prov : forall dm bm l, InvR dm -> InvR bm -> scoped (nsmap_of dm bm) (prov_qn l).
Proof. exact scope_prov. Qed.
Theorem C02_scope_xsd : forall dm bm l, InvR dm -> InvR bm -> scoped (nsmap_of dm bm) (xsd_qn l).
Proof. exact scope_xsd. Qed.

Theorem C02_scope_default_own : forall dm bm n l, dflt bm = Some n -> ns_prefix n = "" -> contains_char colon l = false ->
  scoped (nsmap_of dm bm) (mkQn n l).
Proof. exact scope_default_own. Qed.
Theorem C02_scope_default_inherited : forall dm bm n l, InvR bm ->
  dflt bm = None -> lookup "" (regd bm) = None -> dflt dm = Some n -> ns_prefix n = "" -> contains_char colon l = false ->
  scoped (nsmap_of dm bm) (mkQn n l).
Proof. exact scope_default_inherited. Qed.
Print Assumptions C02_scope_default_inherited.

(* and binds xsd as PROV-XML writes it: the premise XScope of the value-level theorems holds in the scope of every container *)
Theorem C02_scope_xsd_bound : forall dm bm, InvR dm -> InvR bm -> XScope (nsmap_of dm bm).
Proof. exact nsmap_XScope. Qed.

Theorem C02_reachable_managers_registered : forall ops, SAll InvR (srun ops).
Proof. exact srun_SAll_InvR. Qed.
Theorem C02_reachable_scope_own : forall ops t m dm n l,
  get_mgr (srun ops) t = Some m -> get_mgr (srun ops) None = Some dm ->
  tbound m n -> lookup (ns_prefix n) default_namespaces = None ->
  contains_char colon (ns_prefix n) = false -> plain_uri (ns_uri n) ->
  scoped (nsmap_of dm m) (mkQn n l).
Proof. exact reachable_scope_own. Qed.
Print Assumptions C02_reachable_scope_own.

Example C02_scope_applies :
  let s := srun [OAddNs None "ex" "http://e/"; ONewBundle; OAddNs (Some 0) "ex2" "http://e2/"] in
  exists dm bm, get_mgr s None = Some dm /\ get_mgr s (Some 0) = Some bm /\
    scoped (nsmap_of dm bm) (mkQn (mkNs "ex2" "http://e2/") "x") /\
    scoped (nsmap_of dm bm) (mkQn (mkNs "ex" "http://e/") "y") /\
    scoped (nsmap_of dm dm) (mkQn (mkNs "ex" "http://e/") "y").
Proof. exact scope_applies. Qed.
