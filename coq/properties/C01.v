(* C01 — PROV-JSON round trip.  Proved at value level: every stored value of every
   natively handled kind survives encode_json_representation ->
   decode_json_representation -> normalisation on insertion unchanged (same Python
   kind, datatype, language, URI); at attribute level: an attribute with any number of
   values comes back as exactly those values in that order; and at record level: the
   object written for a record is read back, in a container declaring the record's
   names, as a record of the same kind and identifier whose every attribute holds the
   same values (C01_record_roundtrip, C01_record_same_attributes); at container level: the
   record maps the writer builds (kind label -> identifier string -> object or array of
   objects, anonymous identifiers included) are read back as exactly one record per
   written record, in the grouped order, each with its kind, identifier and attribute
   values (C01_container_roundtrip, C01_grouped_is_permutation), and so is a bundle-free
   document (C01_document_roundtrip_flat); the prefix block of a plain manager — registered
   namespaces under pairwise different prefixes, none a built-in prefix or the word
   "default", pairwise different URIs, optionally a default namespace — re-creates those
   bindings (C01_prefix_block), so that for such a bundle-free document no hypothesis about
   the reader's manager is left (C01_document_roundtrip_plain); documents with bundles:
   each bundle is read in the scope its own prefix block and the document's manager give
   and attached under the URI its key denotes there (C01_document_roundtrip), provided the
   keys are pairwise different strings and denote pairwise different URIs.  Open: managers
   that are not plain, bundle keys that denote another URI in the bundle's scope or collide
   (findings C01-F1..F4 live exactly there) — decided per run by the correspondence and the
   strict-content round trip oracle (partial). *)
From Coq Require Import String List ZArith Bool Permutation.
From Prov Require Import Str Sexp Tables Nsm NsmProofs Values Record World Jtree Json JsonProofs IsoProofs TimeProofs JsonRecProofs JsonContProofs JsonPrefixProofs JsonDocProofs JsonBundleProofs IdemProofs Interp InterpProofs JsonValueProofs.
Import ListNotations.
Open Scope string_scope.

(* reinsert c m v: what the value v becomes after being written and read back into a
   container whose namespace manager is m *)
Theorem C01_value_str : forall c m s, reinsert c m (VStr s) = Done m (Some (VStr s)).
Proof. exact json_value_roundtrip_str. Qed.
Theorem C01_value_bool : forall c m b, reinsert c m (VBool b) = Done m (Some (VBool b)).
Proof. exact json_value_roundtrip_bool. Qed.
(* ints of any size stay ints (not floats, not booleans) *)
Theorem C01_value_int : forall c m z, Builtins m -> reinsert c m (VInt z) = Done m (Some (VInt z)).
Proof. exact json_value_roundtrip_int. Qed.
Print Assumptions C01_value_int.
(* floats stay the same float, under the oracle law float(repr x) = x *)
Theorem C01_value_float : forall c m r iv g, Builtins m ->
  lookup r (cft c) = Some (Some (r, iv, g)) ->
  reinsert c m (VFloat r iv g) = Done m (Some (VFloat r iv g)).
Proof. exact json_value_roundtrip_float. Qed.
Theorem C01_value_uri : forall c m u, Builtins m -> reinsert c m (VId u) = Done m (Some (VId u)).
Proof. exact json_value_roundtrip_id. Qed.
(* qualified-name values bound in the container (C03c) come back with the same URI,
   the same prefix and the same local part *)
Theorem C01_value_qname : forall c m q, Builtins m -> Bound m q -> printable q ->
  reinsert c m (VQn q) = Done m (Some (VQn q)).
Proof. exact json_value_roundtrip_qn. Qed.
Print Assumptions C01_value_qname.
Theorem C01_value_lang : forall c m lex ch l, Builtins m ->
  reinsert c m (VLit lex (Some (prov_qn "InternationalizedString")) (Some (String ch l)))
  = Done m (Some (VLit lex (Some (prov_qn "InternationalizedString")) (Some (String ch l)))).
Proof. exact json_value_roundtrip_lang. Qed.
Print Assumptions C01_value_lang.

(* the decoder only ever builds well-formed documents *)
(* datetimes: isoformat() -> the ISO reader gives the datetime back, for every valid
   datetime (years 1..9999, microseconds, offsets of whole minutes) *)
Theorem C01_iso_roundtrip : forall t, valid_dt t = true -> iso_parse (iso_print t) = Some t.
Proof. exact iso_roundtrip. Qed.
Print Assumptions C01_iso_roundtrip.
Theorem C01_value_time : forall c m t, Builtins m -> valid_dt t = true ->
  reinsert c m (VTime t) = Done m (Some (VTime t)).
Proof. exact json_value_roundtrip_time. Qed.
Print Assumptions C01_value_time.

Theorem C01_decoded_wellformed : forall ft t nd, decode_doc ft t = OK nd ->
  WorldProofs.DCoh nd /\ StrProofs.uniq (dbundles nd).
Proof. exact decode_doc_inv. Qed.
Print Assumptions C01_decoded_wellformed.

(* ---- all value kinds at once.  stored: what a record can hold after normalisation (a typed literal stays a Literal
   only when the library does not convert its datatype); value_ok: the value's names are declared in the reading
   container and printable, its datetime valid, its float in the table.  And in every reachable world every value of
   every record is stored (GoodProofs), so only value_ok is left as a condition. *)
Theorem C01_value_any_stored : forall c m v, Builtins m -> stored (cft c) v -> value_ok c m v -> rt c m v.
Proof. exact rt_of_stored. Qed.
Print Assumptions C01_value_any_stored.

Theorem C01_value_reachable : forall ft ops cr b r k vs v c m,
  let w := InterpProofs.wrun ft ops in
  World.get_cont w cr = Some b -> In r (brecs b) -> In (k, vs) (rattrs r) -> In v vs ->
  cft c = wft w -> Builtins m -> value_ok c m v -> rt c m v.
Proof. exact reachable_value_roundtrip. Qed.
Print Assumptions C01_value_reachable.

(* ---- attribute level: one member per attribute; n values come back as n (attribute, value)
   arguments, in order, each normalising to the value written *)
Theorem C01_attribute_roundtrip : forall c m a v vs,
  is_qname_attr a = false -> is_time_attr a = false -> Forall (rt c m) (v :: vs) ->
  exists j l, encode_attr (a, v :: vs) = [(qn_str a, j)] /\
              decode_values (cparent c) m (NQn a) (unwrap j) = OK l /\
              Forall2 (carried c m a) l (v :: vs).
Proof. exact json_attr_roundtrip. Qed.
Print Assumptions C01_attribute_roundtrip.

(* ---- record level.  attr_good: the attribute's name is declared in the reading container and
   is read back as itself, its values are round-trippable (the C01_value theorems), formal attributes hold
   one reference or time.  live: the record's attributes that hold a value, formal ones first. *)
Theorem C01_record_roundtrip : forall par ft b kind rec_id idq r,
  let c := mkCtx par ft in
  let m := bns b in
  NoDup (member_names (rattrs r)) -> NoDup (map key_uri (rattrs r)) ->
  Forall (attr_good c m) (rattrs r) -> Forall (fun kv => set_distinct (snd kv)) (rattrs r) ->
  resolve_o c m (NStr rec_id) = Done m idq ->
  (is_element kind = false \/ idq <> None) ->
  decode_elements par ft b kind rec_id [encode_record_obj r]
  = (add_rec_to (with_ns b m) (mkRec kind idq (live (rattrs r))), OK tt).
Proof. exact json_record_roundtrip. Qed.
Print Assumptions C01_record_roundtrip.

Theorem C01_record_same_attributes : forall attrs x,
  NoDup (map key_uri attrs) -> attr_get x (live attrs) = attr_get x attrs.
Proof. exact live_same_attributes. Qed.

(* the premises hold for a concrete record with a two-valued attribute, a reference, a type and an
   emptied attribute *)
Example C01_record_roundtrip_applies :
  decode_elements None [] x_b "Usage" "ex:u" [encode_record_obj x_r]
  = (add_rec_to (with_ns x_b x_m) (mkRec "Usage" (Some (x_q "u")) (live (rattrs x_r))), OK tt).
Proof. exact json_record_roundtrip_applies. Qed.

(* ---- container level.  rec_ok par ft m r: r's kind has a label that reads back as the kind, its attributes
   are attr_good in manager m (C01_record_roundtrip), its identifier — if any — is declared in m and printable; an
   anonymous record is not an element.  grouped rs: rs ordered by kind label, then identifier string, each in
   order of first appearance (the order in which the reader meets them).  renorm r: r with its attributes that
   hold a value, formal ones first.  The hypothesis on the prefix block says what manager m the reader has after
   reading it. *)
Theorem C01_container_roundtrip : forall par ft b0 b m,
  match encode_prefixes (bns b) with
  | [] => m = bns b0
  | ps => decode_prefixes (bns b0) ps = OK m
  end ->
  Forall (rec_ok par ft m) (brecs b) ->
  decode_container par ft b0 (encode_container b)
  = (add_all (with_ns b0 m) (map renorm (grouped (brecs b))), OK tt).
Proof. exact json_container_roundtrip. Qed.
Print Assumptions C01_container_roundtrip.

(* no record is lost, duplicated or invented by the grouping *)
Theorem C01_grouped_is_permutation : forall rs, Permutation (grouped rs) rs.
Proof. exact grouped_perm. Qed.

Theorem C01_document_roundtrip_flat : forall ft d m,
  dbundles d = [] ->
  match encode_prefixes (bns (dmain d)) with
  | [] => m = nsm_init
  | ps => decode_prefixes nsm_init ps = OK m
  end ->
  Forall (rec_ok None ft m) (brecs (dmain d)) ->
  decode_doc ft (encode_doc d)
  = OK (mkD (add_all (with_ns (bundle_init None) m) (map renorm (grouped (brecs (dmain d))))) []).
Proof. exact json_doc_roundtrip_flat. Qed.
Print Assumptions C01_document_roundtrip_flat.

(* ---- the prefix block.  plain_regs l: the namespaces l have pairwise different prefixes and URIs, no prefix is
   built in (prov, xsd, xsi) or the word "default", every URI is acceptable to Namespace().  after l: the
   built-in table followed by l in order; with_default adds the default namespace. *)
Theorem C01_prefix_block : forall m l,
  regd m = map reg_entry l -> plain_regs l ->
  match dflt m with Some d => uri_ok (ns_uri d) = true | None => True end ->
  decode_prefixes nsm_init (encode_prefixes m) = OK (with_default (after l) (dflt m)).
Proof. exact decode_encode_prefixes. Qed.
Print Assumptions C01_prefix_block.

Theorem C01_prefix_block_binds : forall l d q, plain_regs l -> In (qn_ns q) l -> ns_prefix (qn_ns q) <> "" ->
  Bound (with_default (after l) d) q.
Proof. exact plain_names_bound. Qed.

Theorem C01_document_roundtrip_plain : forall ft d l,
  dbundles d = [] ->
  regd (bns (dmain d)) = map reg_entry l -> plain_regs l ->
  match dflt (bns (dmain d)) with Some x => uri_ok (ns_uri x) = true | None => True end ->
  let m := with_default (after l) (dflt (bns (dmain d))) in
  Forall (rec_ok None ft m) (brecs (dmain d)) ->
  decode_doc ft (encode_doc d)
  = OK (mkD (add_all (with_ns (bundle_init None) m) (map renorm (grouped (brecs (dmain d))))) []).
Proof. exact json_doc_roundtrip_plain. Qed.
Print Assumptions C01_document_roundtrip_plain.

Example C01_document_roundtrip_plain_applies :
  decode_doc [] (encode_doc (mkD y_b []))
  = OK (mkD (add_all (with_ns (bundle_init None) x_m) (map renorm (grouped (brecs y_b)))) []).
Proof. exact json_doc_roundtrip_plain_applies. Qed.

(* ---- documents with bundles.  bundle_ok ft pm b x: x records what the reader does with bundle b below a document
   whose manager is pm — the manager br_m its prefix block gives, in which b's records are rec_ok; the identifier
   br_q its key resolves to there; the manager and identifier after homing it (br_m2, br_q2).  read_bundle: the
   bundle as read, keyed by the URI of br_q2. *)
Theorem C01_document_roundtrip : forall ft d m xs,
  dbundles d <> [] ->
  match encode_prefixes (bns (dmain d)) with
  | [] => m = nsm_init
  | ps => decode_prefixes nsm_init ps = OK m
  end ->
  Forall (rec_ok None ft m) (brecs (dmain d)) ->
  NoDup (map (fun kb => bkey (snd kb)) (dbundles d)) ->
  Forall2 (bundle_ok ft m) (map snd (dbundles d)) xs ->
  NoDup (map (fun x => qn_uri (br_q2 x)) xs) ->
  decode_doc ft (encode_doc d)
  = OK (mkD (add_all (with_ns (bundle_init None) m) (map renorm (grouped (brecs (dmain d)))))
            (map (fun bx => read_bundle (fst bx) (snd bx)) (combine (map snd (dbundles d)) xs))).
Proof. exact json_doc_roundtrip. Qed.
Print Assumptions C01_document_roundtrip.

Example C01_document_roundtrip_applies :
  decode_doc [] (encode_doc z_doc)
  = OK (mkD (add_all (with_ns (bundle_init None) x_m) (map renorm (grouped (brecs y_b))))
            [read_bundle z_bundle z_read]).
Proof. exact json_doc_roundtrip_applies. Qed.

(* the premises hold for a container with a repeated identifier, an anonymous relation and a multi-valued
   attribute; the grouped order is computed *)
Example C01_container_roundtrip_applies :
  decode_container None [] (bundle_init None) (encode_container y_b)
  = (add_all (with_ns (bundle_init None) x_m) (map renorm (grouped (brecs y_b))), OK tt) /\
  map (fun r => (rkind r, option_map qn_str (rid r))) (grouped (brecs y_b))
  = [("Entity", Some "ex:e"); ("Entity", Some "ex:e"); ("Usage", Some "ex:u"); ("Usage", None)].
Proof. exact json_container_roundtrip_applies. Qed.

(* full statement (not yet proved): for every well-formed, unambiguous, JSON-expressible
   document, decoding any member-permutation of its encoding gives a document with the
   same strict content *)
Definition C01_statement : Prop :=
  forall ft d, WorldProofs.DCoh d ->
    exists d', decode_doc ft (encode_doc d) = OK d' /\
      map (fun r => (rkind r, option_map qn_uri (rid r))) (brecs (dmain d')) =
      map (fun r => (rkind r, option_map qn_uri (rid r))) (brecs (dmain d)).

(* datetimes: sampled only (see C05_entry_path_datetime_partial) *)
Example C01_value_time_samples :
  forallb (fun t => match reinsert (mkCtx None []) nsm_init (VTime t) with
                    | Done _ (Some (VTime t')) => andb (time_eqb t t') match dtz t, dtz t' with
                                                                   | Some a, Some b => Z.eqb a b | None, None => true | _, _ => false end
                    | _ => false end)
    [mkDt 2012 3 31 9 21 0 0 None; mkDt 1999 12 31 23 59 59 999999 (Some 330%Z);
     mkDt 2024 2 29 0 0 0 500 (Some (-480)%Z); mkDt 1 1 1 0 0 0 0 None] = true.
Proof. vm_compute. reflexivity. Qed.

(* a whole document computes through the round trip *)
Definition exq l := mkQn (mkNs "ex" "http://e/") l.
Example C01_document_roundtrip_computes :
  let b := fst (new_record None [] (fst (new_record None [] (bundle_init None) "Entity" (Some (NQn (exq "a")))
                   [(NQn (exq "k"), AInt 5); (NQn (exq "k"), AStr "x")])) "Usage" None
                   [(NQn (prov_qn "activity"), AQn (exq "act")); (NQn (prov_qn "entity"), AQn (exq "a"))]) in
  match decode_doc [] (encode_doc (mkD b [])) with
  | OK d' => map (fun r => (rkind r, option_map qn_uri (rid r), rattrs r)) (brecs (dmain d'))
  | _ => []
  end = map (fun r => (rkind r, option_map qn_uri (rid r), rattrs r)) (brecs b).
Proof. vm_compute. reflexivity. Qed.

(* the open findings in the model *)
Lemma C01_F3_refuted :
  match add_namespace nsm_init (mkNs "default" "http://e/") with
  | Some (m, _) =>
      match decode_doc [] (encode_doc (mkD (mkB None m [] []) [])) with
      | OK d' => (regd (bns (dmain d')), option_map ns_uri (dflt (bns (dmain d'))))
      | _ => ([], None)
      end
  | None => ([], None)
  end = ([], Some "http://e/").
Proof. vm_compute. reflexivity. Qed.
