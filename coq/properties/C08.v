(* C08 — unified() merges exactly the records sharing an identifier.
   Proved here: the source is left unchanged, the result is a new document, and
   unification is the identity when no two records share kind and identifier, and the
   grouping half of the merge specification: one record per (kind, identifier) group and
   every anonymous record, in first-occurrence order; and the attribute half: a merged
   record holds exactly the images of its group's attribute values; and idempotence: the
   records unified() returns are a fixed point of unification, and in the document it returns
   no container has anything left to merge; and "raises exactly on conflict", both halves: a raise is a
   ProvException and comes with a conflict (C08_raises_only_on_conflict), and a conflict on any formal attribute
   other than prov:entity between any two records of a group makes unified() raise (C08_conflict_always_raises). *)
From Coq Require Import String List Arith ZArith.
From Prov Require Import Str Sexp Tables Nsm Values Record World Interp InterpProofs NsmProofs RecordProofs UnifyProofs UnifyIdemProofs UnifyDocProofs Derive IdemProofs ReaddProofs GoodProofs ConflictProofs SingleProofs NormalWorld ConverseProofs.
Import ListNotations.
Open Scope string_scope.

(* unified() never changes any existing document — neither content nor namespaces —
   whether it returns or raises *)
Theorem C08_source_unchanged : forall w d t,
  d < length (wdocs w) ->
  nth_error (wdocs (fst (step w (OUnified t)))) d = nth_error (wdocs w) d.
Proof. intros w d t L. apply step_frame; [exact L | cbn [target]; discriminate]. Qed.
Print Assumptions C08_source_unchanged.

(* groups of one: records that share neither kind nor identifier with another record
   are emitted as they are, in order *)
Theorem C08_no_reuse_identity : forall ft b,
  (forall r, In r (brecs b) -> rid r <> None -> filter (same_group r) (brecs b) = [r]) ->
  unified_records ft b = OK (brecs b).
Proof. exact no_reuse_identity. Qed.
Print Assumptions C08_no_reuse_identity.

(* grouping: the result holds, in first-occurrence order, exactly one record per (kind, identifier)
   group of the source and every anonymous record — nothing is dropped, nothing is duplicated, records of
   different kinds that share an identifier stay apart (as repaired) *)
Theorem C08_grouping : forall ft b u, unified_records ft b = OK u ->
  map rkey u = map rkey (fst (first_fold (brecs b))).
Proof. exact unified_keys. Qed.
Print Assumptions C08_grouping.

(* attributes: every record of the result is a record of the source as it was, or the merge of its group —
   it holds the images (same Python kind, lexical form, language; names and datatypes keep their URI) of the
   attribute values of the group's first record and of its other members and nothing else; a value is absent
   only where it coincides, as an element of a Python set, with one that is kept.  Hypothesis: the source
   records are in the stored form normalisation produces (good_rec; C05) *)
Theorem C08_attributes : forall ft b u,
  (forall r, In r (brecs b) -> good_rec ft r) ->
  unified_records ft b = OK u ->
  Forall2 (fun r o => o = r \/ merged_of r (tl (filter (same_group r) (brecs b))) o) (fst (first_fold (brecs b))) u.
Proof. exact unified_attributes. Qed.
Print Assumptions C08_attributes.
Example C08_good_rec_example :
  let exq l := mkQn (mkNs "ex" "http://e/") l in
  let r0 := mkRec "Generation" (Some (exq "g"))
              [(prov_qn "entity", [VQn (exq "e")]); (prov_qn "time", [VTime (mkDt 2012 3 31 9 21 0 0 None)]);
               (exq "k", [VInt 5%Z; VQn (exq "v"); VLit "abc" (Some (xsd_qn "dateTime")) None])] in
  forall p, In p (attributes r0) -> good_pair [] p.
Proof. exact good_pairs_example. Qed.

(* the same without hypothesis for every container of every reachable world *)
Theorem C08_attributes_reachable : forall ft ops c b u,
  let w := wrun ft ops in
  get_cont w c = Some b -> unified_records (wft w) b = OK u ->
  Forall2 (fun r o => o = r \/ merged_of r (tl (filter (same_group r) (brecs b))) o) (fst (first_fold (brecs b))) u.
Proof. exact reachable_unified_attributes. Qed.
Print Assumptions C08_attributes_reachable.

(* ---- idempotence.  Records: what unified_records returns is returned unchanged — same records, same
   order — by unifying any container that holds it.  Document: in the document unified() returns, the
   main container and every bundle are fixed points. *)
Theorem C08_idempotent_records : forall ft b u, unified_records ft b = OK u ->
  forall ft' i m idx, unified_records ft' (mkB i m u idx) = OK u.
Proof. exact unified_idempotent. Qed.
Print Assumptions C08_idempotent_records.

Theorem C08_idempotent_document : forall ft dd nd, doc_unified ft dd = OK nd ->
  forall ft', unified_records ft' (dmain nd) = OK (brecs (dmain nd)) /\
              forall k b, In (k, b) (dbundles nd) -> unified_records ft' b = OK (brecs b).
Proof. exact doc_unified_idempotent. Qed.
Print Assumptions C08_idempotent_document.

(* ---- "raises ProvException when two records with the same identifier disagree on a single-valued formal
   attribute": the only-if half, for every reachable container.  When unifying raises, the exception is
   ProvException and two records q1 q2 of one (kind, identifier) group hold, under the same formal
   attribute, values that are not equal (conflict q1 q2; q1 = q2 when one record alone holds two). *)
Theorem C08_raises_only_on_conflict : forall ft ops c b e,
  let w := wrun ft ops in
  get_cont w c = Some b -> unified_records (wft w) b = Raise e ->
  e = EProv /\ group_conflict (brecs b).
Proof. exact reachable_unified_raises. Qed.
Print Assumptions C08_raises_only_on_conflict.

(* ---- the if half: every strict conflict raises.  sconflict q1 q2: under a formal attribute other than prov:entity
   (the members of a collection, which the library lets accumulate and unites — C08_membership_members_united), q1 and
   q2 hold values that are not equal (Python ==).  In every reachable container, when two records of one (kind,
   identifier) group conflict — whichever two: neither need be the first of its group, and the first need not hold the
   attribute at all — unified() does not return: it raises ProvException.  (OutOfDomain is the model declining to say:
   World.formal_single, a record holding two members re-added; the walk's fuel is the length of the list plus one and
   never runs out.)  With C08_raises_only_on_conflict this is "raises exactly on conflict". *)
Theorem C08_no_conflict_when_returns : forall ft b u,
  (forall r, In r (brecs b) -> good_rec ft r) -> (forall r, In r (brecs b) -> NormalE r) ->
  unified_records ft b = OK u -> ~ group_sconflict (brecs b).
Proof. exact unified_returns_no_conflict. Qed.
Print Assumptions C08_no_conflict_when_returns.

Theorem C08_conflict_always_raises : forall ft ops c b,
  let w := wrun ft ops in
  get_cont w c = Some b -> group_sconflict (brecs b) ->
  unified_records (wft w) b = Raise EProv \/ unified_records (wft w) b = OutOfDomain.
Proof. exact reachable_conflict_raises. Qed.
Print Assumptions C08_conflict_always_raises.

(* prov:entity as well, outside memberships: econflict q1 q2 is a disagreement under ANY formal attribute; in a group
   none of whose records names prov:collection and all of whose records are strictly single-valued (generations,
   usages, derivations, ... — every relation that names an entity), such a disagreement makes unified() raise too *)
Theorem C08_conflict_always_raises_any_attribute : forall ft ops c b,
  let w := wrun ft ops in
  get_cont w c = Some b -> group_econflict (brecs b) ->
  unified_records (wft w) b = Raise EProv \/ unified_records (wft w) b = OutOfDomain.
Proof. exact reachable_econflict_raises. Qed.
Print Assumptions C08_conflict_always_raises_any_attribute.

Definition ex_gen_conflict : list prec :=
  let exq l := mkQn (mkNs "ex" "http://e/") l in
  [mkRec "Generation" (Some (exq "g")) [(prov_qn "entity", [VQn (exq "e1")])];
   mkRec "Generation" (Some (exq "g")) [(prov_qn "entity", [VQn (exq "e2")])]].
Example C08_generation_entity_conflict_is_conflict : group_econflict ex_gen_conflict.
Proof.
  exists (nth 0 ex_gen_conflict (mkRec "" None [])), (nth 0 ex_gen_conflict (mkRec "" None [])),
         (nth 1 ex_gen_conflict (mkRec "" None [])).
  do 5 (split; [vm_compute; auto|]).
  split.
  - intros x Hx _. assert (T : forall l, typed (prov_qn "entity") (VQn (mkQn (mkNs "ex" "http://e/") l))).
    { intros l. split; [intros _; exact Logic.I | vm_compute; discriminate]. }
    destruct Hx as [<-|[<-|[]]]; (split; [vm_compute; reflexivity | apply Normal_single_pair; apply T]).
  - exists (prov_qn "entity"), (VQn (mkQn (mkNs "ex" "http://e/") "e1")), (VQn (mkQn (mkNs "ex" "http://e/") "e2")).
    repeat (split; [vm_compute; auto|]). vm_compute. reflexivity.
Qed.

(* the same for ProvDocument.unified() on any document of any reachable world: it returns only when neither the
   document's own records nor the records of any of its bundles hold a strict conflict *)
Theorem C08_document_returns_no_conflict : forall ft ops d dd nd,
  let w := wrun ft ops in
  get_doc w d = Some dd -> doc_unified (wft w) dd = OK nd ->
  ~ group_sconflict (brecs (dmain dd)) /\ forall k b, In (k, b) (dbundles dd) -> ~ group_sconflict (brecs b).
Proof. exact reachable_doc_unified_no_conflict. Qed.
Print Assumptions C08_document_returns_no_conflict.

Theorem C08_document_returns_no_conflict_any_attribute : forall ft ops d dd nd,
  let w := wrun ft ops in
  get_doc w d = Some dd -> doc_unified (wft w) dd = OK nd ->
  ~ group_econflict (brecs (dmain dd)) /\ forall k b, In (k, b) (dbundles dd) -> ~ group_econflict (brecs b).
Proof. exact reachable_doc_unified_no_econflict. Qed.
Print Assumptions C08_document_returns_no_conflict_any_attribute.

(* ProvBundle.unified() on any container of any reachable world *)
Theorem C08_bundle_returns_no_conflict : forall ft ops c b nb,
  let w := wrun ft ops in
  get_cont w c = Some b -> bundle_unified (wft w) b = OK nb ->
  ~ group_sconflict (brecs b) /\ ~ group_econflict (brecs b).
Proof. exact reachable_bundle_unified_no_conflict. Qed.
Print Assumptions C08_bundle_returns_no_conflict.

(* the hypotheses are met and the conclusion is the first disjunct: three activities under one identifier, the first
   without prov:startTime, the second and third with different ones *)
Definition ex_late_conflict : list prec :=
  let exq l := mkQn (mkNs "ex" "http://e/") l in
  [mkRec "Activity" (Some (exq "a")) [(exq "k", [VInt 1%Z])];
   mkRec "Activity" (Some (exq "a")) [(prov_qn "startTime", [VTime (mkDt 2012 3 31 9 21 0 0 None)])];
   mkRec "Activity" (Some (exq "a")) [(prov_qn "startTime", [VTime (mkDt 2013 6 6 12 30 0 0 None)])]].
Example C08_late_conflict_is_conflict : group_sconflict ex_late_conflict.
Proof.
  exists (nth 0 ex_late_conflict (mkRec "" None [])), (nth 1 ex_late_conflict (mkRec "" None [])),
         (nth 2 ex_late_conflict (mkRec "" None [])).
  repeat (split; [vm_compute; auto|]).
  exists (prov_qn "startTime"), (VTime (mkDt 2012 3 31 9 21 0 0 None)), (VTime (mkDt 2013 6 6 12 30 0 0 None)).
  repeat (split; [vm_compute; auto|]). vm_compute. reflexivity.
Qed.
Example C08_late_conflict_raises : unified_records [] (mkB None nsm_init ex_late_conflict []) = Raise EProv.
Proof. vm_compute. reflexivity. Qed.

(* memberships: the prov:collection half of finding C08-F1 is repaired in /repo together with C05-F1
   (C08_membership_conflict_raises below); memberships that disagree on their member only are merged and their members
   united (C08_membership_members_united) — the open, narrowed C08-F1, outside sconflict by definition *)

(* merging computes: two entities and an agent on one identifier, an anonymous
   relation; the agent survives (repaired grouping), attribute sets are united *)
Definition exq l := mkQn (mkNs "ex" "http://e/") l.
Definition ex_b : bundle :=
  mkB None nsm_init
      [mkRec "Entity" (Some (exq "x")) [(exq "k", [VInt 1%Z])];
       mkRec "Agent" (Some (exq "x")) [(exq "k", [VInt 9%Z])];
       mkRec "Usage" None [(prov_qn "activity", [VQn (exq "a")])];
       mkRec "Entity" (Some (exq "x")) [(exq "k", [VInt 2%Z]); (exq "j", [VStr "s"])]] [].
Example C08_merge_computes :
  match unified_records [] ex_b with
  | OK u => map (fun r => (rkind r, option_map qn_uri (rid r), map (fun kv => (qn_local (fst kv), snd kv)) (rattrs r))) u
  | _ => []
  end =
  [("Entity", Some "http://e/x", [("k", [VInt 1%Z; VInt 2%Z]); ("j", [VStr "s"])]);
   ("Agent", Some "http://e/x", [("k", [VInt 9%Z])]);
   ("Usage", None, [("activity", [VQn (exq "a")])])].
Proof. vm_compute. reflexivity. Qed.

(* a conflict on a formal attribute raises ProvException *)
Example C08_conflict_raises :
  unified_records []
    (mkB None nsm_init
       [mkRec "Generation" (Some (exq "g")) [(prov_qn "entity", [VQn (exq "e1")])];
        mkRec "Generation" (Some (exq "g")) [(prov_qn "entity", [VQn (exq "e2")])]] [])
  = Raise EProv.
Proof. vm_compute. reflexivity. Qed.

(* finding C08-F1 as repaired: two memberships under one identifier that disagree on the collection are a conflict like
   any other; disagreeing on the member is not — the members are united *)
Example C08_membership_conflict_raises :
  unified_records []
    (mkB None nsm_init
       [mkRec "Membership" (Some (exq "m")) [(prov_qn "collection", [VQn (exq "c1")]); (prov_qn "entity", [VQn (exq "e")])];
        mkRec "Membership" (Some (exq "m")) [(prov_qn "collection", [VQn (exq "c2")]); (prov_qn "entity", [VQn (exq "e")])]] [])
  = Raise EProv.
Proof. vm_compute. reflexivity. Qed.

Example C08_membership_members_united :
  match unified_records []
    (mkB None nsm_init
       [mkRec "Membership" (Some (exq "m")) [(prov_qn "collection", [VQn (exq "c1")]); (prov_qn "entity", [VQn (exq "e1")])];
        mkRec "Membership" (Some (exq "m")) [(prov_qn "collection", [VQn (exq "c1")]); (prov_qn "entity", [VQn (exq "e2")])]] [])
  with
  | OK [r] => map (fun kv => (qn_local (fst kv), length (snd kv))) (rattrs r)
  | _ => []
  end = [("collection", 1); ("entity", 2)].
Proof. vm_compute. reflexivity. Qed.
