(* C08 placeholder *)
From Prov Require Import World.
