(* C12 — derived documents share no mutable state with their sources.
   In the model a world is a list of document *values*; the theorems say that a
   call changes at most its target document and that deriving calls only append.
   That the Python objects behave like these values is what the correspondence run
   and the frame oracle of this check establish on the implementation. *)
From Coq Require Import String List Arith.
From Prov Require Import Str Sexp Tables Nsm Values Record World Interp InterpProofs Alias AliasProofs AliasTyped.
Import ListNotations.
Open Scope string_scope.

(* every document other than the call's target is exactly as before — content,
   record order, namespaces, default namespace, bundles — whatever the call returns
   or raises.  Deriving calls (unified, flattened, document from records) have no
   target at all. *)
Theorem C12_frame : forall w o d,
  d < length (wdocs w) -> Some d <> target o ->
  nth_error (wdocs (fst (step w o))) d = nth_error (wdocs w) d.
Proof. exact step_frame. Qed.
Print Assumptions C12_frame.

(* no call removes a document: handles stay valid, deriving calls append *)
Theorem C12_handles_stable : forall w o, length (wdocs w) <= length (wdocs (fst (step w o))).
Proof. exact step_length. Qed.
Print Assumptions C12_handles_stable.

(* consequence: any sequence of calls that never targets document d leaves it
   unchanged — "later modification of the derived object never changes the source,
   and vice versa" *)
Theorem C12_independent : forall ops w d,
  d < length (wdocs w) -> Forall (fun o => Some d <> target o) ops ->
  nth_error (wdocs (fold_left (fun w o => fst (step w o)) ops w)) d = nth_error (wdocs w) d.
Proof.
  induction ops as [|o ops IH]; intros w d L F; cbn [fold_left]; [reflexivity|].
  inversion F as [|? ? Ho Hr]; subst.
  rewrite IH; [apply step_frame; assumption | | exact Hr].
  eapply Nat.lt_le_trans; [exact L | apply step_length].
Qed.
Print Assumptions C12_independent.

(* non-vacuity: unified() yields a new handle; mutating the result leaves the source as it was *)
Definition ex_w : world :=
  wrun [] [ONewDoc; OAddNs (CDoc 0) "ex" "http://e/";
           ONewRecord (CDoc 0) "Entity" (Some (NStr "ex:a")) [];
           ONewRecord (CDoc 0) "Entity" (Some (NStr "ex:a")) []].
Example C12_unified_fresh :
  snd (step ex_w (OUnified 0)) = RHandle 1 /\
  nth_error (wdocs (fst (step (fst (step ex_w (OUnified 0))) (OAddNs (CDoc 1) "zz" "http://z/")))) 0
    = nth_error (wdocs ex_w) 0.
Proof. split; vm_compute; reflexivity. Qed.

(* ------------------------------------------------------------------ the object graph (Alias.v)
   The theorems above are about document values; these are about the objects: a store of managers, records and
   bundles that point at each other, in which every call allocates and links exactly as model.py does.  Inv says every
   stored pointer leads to an object allocated for the same document; it holds after any sequence of calls. *)
Theorem C12_objects_owned : forall ops, Inv (arun ops).
Proof. exact arun_inv. Qed.
Print Assumptions C12_objects_owned.

(* no object — manager, record, bundle — is reached from two different documents, after any sequence of calls
   (deriving calls, update, add_bundle of a document, deserialisation included) *)
Theorem C12_no_shared_object : forall ops i j di dj l,
  hdl (arun ops) i = Some di -> hdl (arun ops) j = Some dj -> di <> dj ->
  In l (reach (arun ops) di) -> ~ In l (reach (arun ops) dj).
Proof.
  intros ops i j di dj l Hi Hj. apply separation; [apply arun_inv | eapply nth_error_In; exact Hi | eapply nth_error_In; exact Hj].
Qed.
Print Assumptions C12_no_shared_object.

(* a call — whatever it is, whether it returns or raises half-way — leaves every object reached from a document that is
   not its target as it was, write counters included, and the document keeps its handle *)
Theorem C12_object_frame : forall ops o h b,
  hdl (arun ops) h = Some b -> wtarget (arun ops) o <> Some b ->
  observe (astep (arun ops) o) b = observe (arun ops) b /\ hdl (astep (arun ops) o) h = Some b.
Proof. intros ops o h b. apply call_frame, arun_inv. Qed.
Print Assumptions C12_object_frame.

(* any later history that never targets the document *)
Theorem C12_object_independent : forall ops later h b,
  hdl (arun ops) h = Some b -> avoids (arun ops) later b ->
  observe (fold_left astep later (arun ops)) b = observe (arun ops) b /\ hdl (fold_left astep later (arun ops)) h = Some b.
Proof. intros ops later h b. apply independent, arun_inv. Qed.
Print Assumptions C12_object_independent.

(* the result of a deriving call (deserialisation, unified, flattened, a document built from records) is either no new
   handle at all — flattened() of a bundle-free document "returning the same document", a handle that does not exist —
   or a document no earlier handle denotes; with C12_no_shared_object: it shares nothing with any of them *)
Theorem C12_derived_is_new : forall ops o, deriving o = true ->
  astep (arun ops) o = arun ops \/
  (adocs (astep (arun ops) o) = (adocs (arun ops) ++ [anext (arun ops)])%list /\ ~ In (anext (arun ops)) (adocs (arun ops))).
Proof. intros ops o. apply derived_is_new, arun_inv. Qed.
Print Assumptions C12_derived_is_new.

Theorem C12_flattened_with_bundles_is_new : forall ops i d s ss,
  hdl (arun ops) i = Some d -> subs_of (arun ops) d = s :: ss ->
  adocs (astep (arun ops) (AFlattened i)) = (adocs (arun ops) ++ [anext (arun ops)])%list.
Proof. intros ops i d s ss. apply flattened_with_bundles_is_new, arun_inv. Qed.
Print Assumptions C12_flattened_with_bundles_is_new.

(* the pointers lead where the code takes them to lead, after any sequence of calls: a bundle's manager pointer to a
   manager, every record a container lists was made for that container (its _bundle), every bundle a document lists
   is a plain bundle whose manager's parent is the document's manager, handles are documents *)
Theorem C12_pointers_typed : forall ops, Typed (arun ops).
Proof. exact arun_typed. Qed.
Print Assumptions C12_pointers_typed.

(* hence add_attributes / set_time / add_asserted_type on a record write that record and the manager of the container
   that lists it — objects of the record's own document *)
Theorem C12_record_change_writes_own_container : forall ops i s r d b x,
  hdl (arun ops) i = Some d -> cont (arun ops) d s = Some b -> nth_error (recs_of (arun ops) b) r = Some x ->
  exists v, aget (arun ops) x = Some (ORec b v) /\
  astep (arun ops) (ATouchRec i s r) =
    match ns_of (arun ops) b with Some m => bump m (bump x (arun ops)) | None => bump x (arun ops) end.
Proof. intros ops i s r d b x. apply touch_rec_writes_own_container, arun_typed. Qed.
Print Assumptions C12_record_change_writes_own_container.

(* record copy: c = r.copy() followed by changes of c leaves r — and every other record, bundle and manager but the
   manager of the container that lists r (where the copy's names are validated) — as it was; no container lists c *)
Theorem C12_copy_leaves_source : forall ops i s r d b x,
  hdl (arun ops) i = Some d -> cont (arun ops) d s = Some b -> nth_error (recs_of (arun ops) b) r = Some x ->
  aget (astep (arun ops) (ACopyTouch i s r)) x = aget (arun ops) x /\
  (forall l, l < anext (arun ops) -> ns_of (arun ops) b <> Some l ->
             aget (astep (arun ops) (ACopyTouch i s r)) l = aget (arun ops) l) /\
  adocs (astep (arun ops) (ACopyTouch i s r)) = adocs (arun ops).
Proof. intros ops i s r d b x. apply copy_touch_leaves_source; [apply arun_inv | apply arun_typed]. Qed.
Print Assumptions C12_copy_leaves_source.

(* non-vacuity: a document with a bundle and records; unified() and update() into another document; then records,
   attributes and declarations on the results: the source is observed as before, and the three documents reach 7, 7
   and 9 objects with nothing in common *)
Definition ex_ops : list aop :=
  [ANewDoc; ANewBundle 0; AAddRecs 0 None 2; AAddRecs 0 (Some 0) 1; AUnified 0 1 [1]; ANewDoc; AUpdate 2 0 [None]].
Definition ex_later : list aop :=
  [AAddRecs 1 (Some 0) 1; ATouchRec 1 None 0; ATouchNs 2 (Some 0); ANewBundle 2; ATouchRec 2 (Some 0) 0].
Example C12_objects_compute :
  avoids (arun ex_ops) ex_later 0 /\
  observe (fold_left astep ex_later (arun ex_ops)) 0 = observe (arun ex_ops) 0 /\
  map (fun d => length (reach (fold_left astep ex_later (arun ex_ops)) d)) (adocs (fold_left astep ex_later (arun ex_ops))) = [7; 7; 9] /\
  map sh_shared (shapes (fold_left astep ex_later (arun ex_ops))) = [[]; [0]; [0; 0]].
Proof. vm_compute. repeat split; intros E; discriminate E. Qed.
