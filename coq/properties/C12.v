(* C12 — derived documents share no mutable state with their sources.
   In the model a world is a list of document *values*; the theorems say that a
   call changes at most its target document and that deriving calls only append.
   That the Python objects behave like these values is what the correspondence run
   and the frame oracle of this check establish on the implementation. *)
From Coq Require Import String List Arith.
From Prov Require Import Str Sexp Tables Nsm Values Record World Interp InterpProofs.
Import ListNotations.
Open Scope string_scope.

(* every document other than the call's target is exactly as before — content,
   record order, namespaces, default namespace, bundles — whatever the call returns
   or raises.  Deriving calls (unified, flattened, document from records) have no
   target at all. *)
Theorem C12_frame : forall w o d,
  d < length (wdocs w) -> Some d <> target o ->
  nth_error (wdocs (fst (step w o))) d = nth_error (wdocs w) d.
Proof. exact step_frame. Qed.
Print Assumptions C12_frame.

(* no call removes a document: handles stay valid, deriving calls append *)
Theorem C12_handles_stable : forall w o, length (wdocs w) <= length (wdocs (fst (step w o))).
Proof. exact step_length. Qed.
Print Assumptions C12_handles_stable.

(* consequence: any sequence of calls that never targets document d leaves it
   unchanged — "later modification of the derived object never changes the source,
   and vice versa" *)
Theorem C12_independent : forall ops w d,
  d < length (wdocs w) -> Forall (fun o => Some d <> target o) ops ->
  nth_error (wdocs (fold_left (fun w o => fst (step w o)) ops w)) d = nth_error (wdocs w) d.
Proof.
  induction ops as [|o ops IH]; intros w d L F; cbn [fold_left]; [reflexivity|].
  inversion F as [|? ? Ho Hr]; subst.
  rewrite IH; [apply step_frame; assumption | | exact Hr].
  eapply Nat.lt_le_trans; [exact L | apply step_length].
Qed.
Print Assumptions C12_independent.

(* non-vacuity: unified() yields a new handle; mutating the result leaves the source as it was *)
Definition ex_w : world :=
  wrun [] [ONewDoc; OAddNs (CDoc 0) "ex" "http://e/";
           ONewRecord (CDoc 0) "Entity" (Some (NStr "ex:a")) [];
           ONewRecord (CDoc 0) "Entity" (Some (NStr "ex:a")) []].
Example C12_unified_fresh :
  snd (step ex_w (OUnified 0)) = RHandle 1 /\
  nth_error (wdocs (fst (step (fst (step ex_w (OUnified 0))) (OAddNs (CDoc 1) "zz" "http://z/")))) 0
    = nth_error (wdocs ex_w) 0.
Proof. split; vm_compute; reflexivity. Qed.
