(* C12 placeholder *)
From Prov Require Import Interp.
