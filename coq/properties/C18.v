(* C18 placeholder *)
From Prov Require Import World.
