(* C18 — identifier lookup and typed listing always agree with the record list.
   Statements only; proofs in theories/WorldProofs.v, InterpProofs.v. *)
From Coq Require Import String List.
From Prov Require Import Str Sexp Tables Nsm Values Record World Interp WorldProofs InterpProofs.
Import ListNotations.
Open Scope string_scope.

(* the identifier map and the record list are two separate fields of the model,
   updated only where the Python code updates them; their agreement is an invariant
   of every API call — factories, new_record, add_record, update, add_bundle,
   constructor records, unified, flattened, attribute mutators — hence of every
   reachable world *)
Theorem C18_step_coherent : forall w o, WCoh w -> WCoh (fst (step w o)).
Proof. exact step_coherent. Qed.
Print Assumptions C18_step_coherent.

Theorem C18_reachable_coherent : forall ft ops, WCoh (wrun ft ops).
Proof. exact reachable_coherent. Qed.
Print Assumptions C18_reachable_coherent.

(* get_record(x) returns exactly the records whose identifier URI is the URI x
   denotes, in insertion order (x in any spelling the resolver accepts) *)
Theorem C18_get_record : forall w c b x m q,
  get_cont w c = Some b -> Coherent b ->
  resolve (parent_ns w c) (bns b) x = OK (m, Some q) ->
  snd (step w (OGetRecord c (Some x))) = RRecs (filter (has_uri (qn_uri q)) (brecs b)).
Proof. exact get_record_spec. Qed.
Print Assumptions C18_get_record.

(* get_records(cls) returns exactly the instances of cls (generated class hierarchy) *)
Theorem C18_get_records : forall w c b cls,
  get_cont w c = Some b ->
  snd (step w (OGetRecords c cls)) =
  RRecs (match cls with None => brecs b | Some cn => filter (instance_of cn) (brecs b) end).
Proof. exact get_records_spec. Qed.
Print Assumptions C18_get_records.

(* the class hierarchy used by instance_of is the generated one: ProvMention is a
   ProvSpecialization, every class is a ProvRecord *)
Example C18_hierarchy :
  instance_of "ProvSpecialization" (mkRec "Mention" None []) = true /\
  instance_of "ProvRelation" (mkRec "Mention" None []) = true /\
  instance_of "ProvElement" (mkRec "Mention" None []) = false /\
  forallb (fun e => instance_of "ProvRecord" (mkRec (fst (fst e)) None [])) rec_class_names = true.
Proof. vm_compute. repeat split. Qed.

(* non-vacuity: a reachable world with repeated identifiers; lookup computes *)
Definition ex_ops : list op :=
  [ONewDoc; OAddNs (CDoc 0) "ex" "http://e/";
   ONewRecord (CDoc 0) "Entity" (Some (NStr "ex:a")) [];
   ONewRecord (CDoc 0) "Agent" (Some (NStr "ex:b")) [];
   ONewRecord (CDoc 0) "Entity" (Some (NQn (mkQn (mkNs "zz" "http://e/") "a"))) []].
Example C18_lookup_computes :
  snd (step (wrun [] ex_ops) (OGetRecord (CDoc 0) (Some (NStr "http://e/a")))) =
  RRecs [mkRec "Entity" (Some (mkQn (mkNs "ex" "http://e/") "a")) [];
         mkRec "Entity" (Some (mkQn (mkNs "ex" "http://e/") "a")) []].
Proof. vm_compute. reflexivity. Qed.
