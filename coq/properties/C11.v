(* C11 — reading foreign PROV-JSON is stable under re-serialisation.
   Proved: whatever tree the decoder accepts — no well-formedness hypothesis on the
   input — the document it builds is well formed (coherent identifier maps, unique
   bundle keys), so it is a reachable document to which the C01 value-level round
   trip theorems apply; every record it builds has an attribute dictionary keyed by pairwise different URIs whose value lists are sets
   (C11_json_decoded_shape) and holds only values in stored form, each of which is written and re-loaded as itself
   (C11_json_decoded_values_reload); the decoder's refusals are computed Examples; and what the
   writer emits for a container is read back record by record
   (C11_written_container_reloads); for PROV-XML, record level: the element written for a record
   is loaded as that record (C11_written_xml_record_reloads).  Stability of whole documents and agreement with the specification reader are decided per run
   (correspondence + oracle over generated and mutated corpus trees). *)
From Coq Require Import String List ZArith.
From Prov Require Import Str StrProofs Sexp Tables Nsm NsmProofs Values Record RecordProofs World WorldProofs Jtree Json JsonProofs JsonSpec JsonRecProofs JsonContProofs
  Xml XmlProofs XmlLabel XmlLabelProofs XmlRec XmlRead XmlRecProofs XmlReadProofs IdemProofs GoodProofs JsonValueProofs ShapeProofs KindProofs JsonPrefixProofs JsonStableProofs XmlReadDoc XmlReadDocProofs SingleProofs NormalWorld StrictProofs.
Import ListNotations.
Open Scope string_scope.

Theorem C11_json_decoded_wellformed : forall ft t nd, decode_doc ft t = OK nd -> DCoh nd /\ uniq (dbundles nd).
Proof. exact decode_doc_inv. Qed.
Print Assumptions C11_json_decoded_wellformed.

(* ---- what the reader builds, for EVERY tree it accepts (no hypothesis on the input): in every record of the document and
   of its bundles the attribute dictionary has keys of pairwise different URIs and value lists that are sets — two of
   the premises (rec_ok) under which C01 / C11_written_container_reloads show that writing a container and loading the
   result gives it again; for documents that were themselves loaded from a text they are theorems *)
Theorem C11_json_decoded_shape : forall ft t nd, decode_doc ft t = OK nd ->
  forall b r, In b (doc_containers nd) -> In r (brecs b) ->
  NoDup (map key_uri (rattrs r)) /\ Forall (fun kv => set_distinct (snd kv)) (rattrs r).
Proof. exact decoded_records_shape. Qed.
Print Assumptions C11_json_decoded_shape.

(* the invariant behind it: add_attributes keeps that shape whichever way it ends (completed, refused half-way) *)
Theorem C11_add_attributes_keeps_shape : forall c m r l, ShapeR r ->
  match add_attributes c m r l with
  | ADone _ r' => ShapeR r'
  | AFail _ r' _ => ShapeR r'
  | AOOD => True
  end.
Proof. exact add_attributes_shape. Qed.

(* every value of every record the reader built — whatever spelling the foreign text used for it — is in stored form
   (decode_doc_DGood), so it is written and loaded again as itself as soon as the names it mentions are bound and
   printable in the container's manager and its float is in the float table (value_ok: exactly the situations of the open
   findings C01-F1..F3 are excluded): "writing d and loading the result gives d again" at value level, for all of d *)
Theorem C11_json_decoded_values_reload : forall ft t nd, decode_doc ft t = OK nd ->
  forall b r a vs v, In b (doc_containers nd) -> In r (brecs b) -> In (a, vs) (rattrs r) -> In v vs ->
  forall c m, cft c = ft -> Builtins m -> value_ok c m v -> rt c m v.
Proof. exact decoded_values_roundtrip. Qed.
Print Assumptions C11_json_decoded_values_reload.

(* the kind of every record of a loaded document is one the writer can name: the PROV-N name of the kind is a key of the
   record maps that stands for that kind again, and it is never Bundle *)
Theorem C11_json_decoded_kinds : forall ft t nd, decode_doc ft t = OK nd ->
  forall b r, In b (doc_containers nd) -> In r (brecs b) -> kind_ok (rkind r).
Proof. exact decoded_records_kind. Qed.

(* ---- "loading it yields a document d such that writing d and loading the result gives d again", PROV-JSON, documents
   without bundles.  For every tree t the reader accepts: the structural premises of the round-trip theorem hold for the
   document d it builds (kinds, dictionary shape, stored values of the kind the attribute demands: theorems above), so d,
   written and loaded again, is the same records — each with its kind, identifier and all attribute values, in the order the
   writer groups them (C01_grouped_is_permutation) — as soon as: the manager of d is plain (registered namespaces l under
   pairwise different prefixes and URIs, none a built-in prefix or the word "default"); every record's formal attributes
   hold one value each (Normal: two can only come from the membership path of finding C05-F1); and the names of d re-read as
   themselves in the manager m the prefix block gives, values are value_ok there (names_ok: what findings C01-F1..F3 are
   about; times valid, floats in the float table).  The premises speak about d, not about t. *)
Theorem C11_json_stable : forall ft t d l,
  decode_doc ft t = OK d -> dbundles d = [] ->
  regd (bns (dmain d)) = map reg_entry l -> plain_regs l ->
  match dflt (bns (dmain d)) with Some x => uri_ok (ns_uri x) = true | None => True end ->
  let m := with_default (after l) (dflt (bns (dmain d))) in
  Forall Normal (brecs (dmain d)) ->
  Forall (names_ok (mkCtx None ft) m) (brecs (dmain d)) ->
  decode_doc ft (encode_doc d)
  = OK (mkD (add_all (with_ns (bundle_init None) m) (map renorm (grouped (brecs (dmain d))))) []).
Proof. exact json_stable_flat. Qed.
Print Assumptions C11_json_stable.

(* since finding C05-F1 is repaired, "one value per formal attribute" is a theorem about every loaded document for every
   formal attribute but the members of a collection (C11_json_decoded_single_valued: NormalWorld.decode_doc_DNormal);
   what is left of the premise is that no membership record lists two members *)
Theorem C11_json_decoded_single_valued : forall ft t d b r,
  decode_doc ft t = OK d -> In b (dmain d :: map snd (dbundles d)) -> In r (brecs b) -> NormalE r.
Proof. exact decoded_records_normalE. Qed.
Print Assumptions C11_json_decoded_single_valued.

Theorem C11_json_stable_members : forall ft t d l,
  decode_doc ft t = OK d -> dbundles d = [] ->
  regd (bns (dmain d)) = map reg_entry l -> plain_regs l ->
  match dflt (bns (dmain d)) with Some x => uri_ok (ns_uri x) = true | None => True end ->
  let m := with_default (after l) (dflt (bns (dmain d))) in
  Forall (fun r => length (attr_get (prov_qn "entity") (rattrs r)) <= 1) (brecs (dmain d)) ->
  Forall (names_ok (mkCtx None ft) m) (brecs (dmain d)) ->
  decode_doc ft (encode_doc d)
  = OK (mkD (add_all (with_ns (bundle_init None) m) (map renorm (grouped (brecs (dmain d))))) []).
Proof.
  intros ft t d l H NB R P D m FE FO.
  apply (json_stable_flat ft t d l H NB R P D); [|exact FO].
  rewrite Forall_forall in *. intros r Hr.
  apply NormalE_single_member_Normal; [|exact (FE r Hr)].
  apply (decoded_records_normalE ft t d (dmain d) r H); [left; reflexivity | exact Hr].
Qed.
Print Assumptions C11_json_stable_members.

(* ... and that, too, is a theorem about every document the reader builds (StrictProofs.v): the reader collects the formal
   attributes of an element in a dictionary keyed by name, takes the first member of a several-member membership for
   the record itself and makes one further membership record per further member, so new_record never gets two
   arguments that can denote prov:entity, and a call of add_attributes leaves at most one more prov:entity value per
   such argument (loop_ent_bound).  Every record of every loaded document is in strict normal form ... *)
Theorem C11_json_decoded_normal : forall ft t d b r,
  decode_doc ft t = OK d -> In b (dmain d :: map snd (dbundles d)) -> In r (brecs b) -> Normal r.
Proof. exact decoded_records_normal. Qed.
Print Assumptions C11_json_decoded_normal.

(* ... and the stability theorem stands without any premise about the values of d: what is left are the plain manager and
   the boundness of d's names in it (what findings C01-F1..F3 are about) *)
Theorem C11_json_stable_loaded : forall ft t d l,
  decode_doc ft t = OK d -> dbundles d = [] ->
  regd (bns (dmain d)) = map reg_entry l -> plain_regs l ->
  match dflt (bns (dmain d)) with Some x => uri_ok (ns_uri x) = true | None => True end ->
  let m := with_default (after l) (dflt (bns (dmain d))) in
  Forall (names_ok (mkCtx None ft) m) (brecs (dmain d)) ->
  decode_doc ft (encode_doc d)
  = OK (mkD (add_all (with_ns (bundle_init None) m) (map renorm (grouped (brecs (dmain d))))) []).
Proof.
  intros ft t d l H NB R P D m FO.
  apply (json_stable_flat ft t d l H NB R P D); [|exact FO].
  rewrite Forall_forall. intros r Hr.
  apply (decoded_records_normal ft t d (dmain d) r H); [left; reflexivity | exact Hr].
Qed.
Print Assumptions C11_json_stable_loaded.

(* any record meeting the parts is a record the round-trip theorems apply to *)
Theorem C11_record_ok_of_parts : forall par ft m r,
  Builtins m -> kind_ok (rkind r) -> GoodR ft r -> ShapeR r -> Normal r -> names_ok (mkCtx par ft) m r ->
  rec_ok par ft m r.
Proof. exact rec_ok_of_parts. Qed.

(* the premises are satisfiable: a foreign tree (a multi-valued attribute as an array, an attribute-less record) loaded,
   written and loaded again *)
Example C11_json_stable_applies :
  decode_doc [] t0 = OK d0 /\
  decode_doc [] (encode_doc d0)
  = OK (mkD (add_all (with_ns (bundle_init None) (with_default (after [exns]) None)) (map renorm (grouped (brecs (dmain d0))))) []).
Proof. exact json_stable_flat_applies. Qed.

(* the same for PROV-XML: XmlReadDoc.xml_read_document models the library's reader above record level (a fresh document;
   prov:other skipped; a bundleContent child becomes document.bundle(identifier read in the element's scope) and its
   children; record elements by XmlRead.xml_read_record) and is tied per run to ProvDocument.deserialize on whole foreign
   and library-written texts (the document built, with every table of its managers).  Whatever tree it accepts: the
   bundles sit under pairwise different URIs, and every record's dictionary has the set shape *)
Theorem C11_xml_decoded_shape : forall ft prefix_of t nd, xml_read_document ft prefix_of t = OK nd ->
  uniq (dbundles nd) /\
  forall b r, In b (doc_containers nd) -> In r (brecs b) ->
    NoDup (map key_uri (rattrs r)) /\ Forall (fun kv => set_distinct (snd kv)) (rattrs r).
Proof. exact xml_read_document_ok. Qed.
Print Assumptions C11_xml_decoded_shape.

(* a container element holding record elements only is read by the record loop of C02_container_roundtrip *)
Theorem C11_xml_container_is_record_loop : forall par ft prefix_of xs b,
  Forall (fun x => elem_is "other" x = false /\ elem_is "bundleContent" x = false) xs ->
  xml_read_elems par ft prefix_of b xs = xml_read_records par ft prefix_of b xs.
Proof. exact read_elems_records. Qed.

(* forms the library's writer never produces *)
Definition obj := JObj.
Definition pfx : string * jv := ("prefix", obj [("ex", JStr "http://e/")]).
(* a single value wrapped in an array; a formal attribute wrapped in an array *)
Example C11_wrapped_values :
  match decode_doc [] (obj [pfx; ("used", obj [("_:id1", obj [("prov:activity", JArr [JStr "ex:a"]);
                                                           ("ex:k", JArr [JInt 5])])])]) with
  | OK d => map (fun r => (rkind r, rattrs r)) (brecs (dmain d))
  | _ => []
  end = [("Usage", [(prov_qn "activity", [VQn (mkQn (mkNs "ex" "http://e/") "a")]);
                    (mkQn (mkNs "ex" "http://e/") "k", [VInt 5])])].
Proof. vm_compute. reflexivity. Qed.

(* a membership listing several entities becomes one membership per entity *)
Example C11_membership_expansion :
  match decode_doc [] (obj [pfx; ("hadMember", obj [("_:id1", obj [("prov:collection", JStr "ex:c");
                                                               ("prov:entity", JArr [JStr "ex:e1"; JStr "ex:e2"])])])]) with
  | OK d => map (fun r => (rkind r, map (fun kv => (qn_local (fst kv), snd kv)) (rattrs r))) (brecs (dmain d))
  | _ => []
  end = [("Membership", [("collection", [VQn (mkQn (mkNs "ex" "http://e/") "c")]); ("entity", [VQn (mkQn (mkNs "ex" "http://e/") "e1")])]);
         ("Membership", [("collection", [VQn (mkQn (mkNs "ex" "http://e/") "c")]); ("entity", [VQn (mkQn (mkNs "ex" "http://e/") "e2")])])].
Proof. vm_compute. reflexivity. Qed.

(* the documented refusal: a formal attribute with several values *)
Example C11_multivalue_refused :
  decode_doc [] (obj [pfx; ("used", obj [("_:id1", obj [("prov:activity", JArr [JStr "ex:a"; JStr "ex:b"])])])])
  = Raise EJson.
Proof. vm_compute. reflexivity. Qed.

(* record arrays for repeated identifiers *)
Example C11_record_array :
  match decode_doc [] (obj [pfx; ("entity", obj [("ex:a", JArr [obj [("ex:k", JInt 1)]; obj [("ex:k", JInt 2)]])])]) with
  | OK d => length (brecs (dmain d))
  | _ => 0
  end = 2.
Proof. vm_compute. reflexivity. Qed.

(* "writing d and loading the result gives d again", PROV-JSON, container level: what the writer emits for a
   container whose records are rec_ok in the manager the prefix block re-creates is read back as one record per
   written record (grouped order), each with its kind, identifier and every attribute value *)
Theorem C11_written_container_reloads : forall par ft b0 b m,
  match encode_prefixes (bns b) with
  | [] => m = bns b0
  | ps => decode_prefixes (bns b0) ps = OK m
  end ->
  Forall (rec_ok par ft m) (brecs b) ->
  decode_container par ft b0 (encode_container b)
  = (add_all (with_ns b0 m) (map renorm (grouped (brecs b))), OK tt).
Proof. exact json_container_roundtrip. Qed.
Print Assumptions C11_written_container_reloads.

(* the same for PROV-XML, record level: the element the writer builds for a record (XmlRec.xml_record), loaded by
   the library's reader (XmlRead.xml_read_record), appends to the container exactly one record of the same kind and
   identifier holding the attribute dictionary the pairs build (final_attrs: the pair a subtype element name stands
   for comes back as the asserted type); the container's manager and identifier are untouched *)
Theorem C11_written_xml_record_reloads : forall par ft fl prefix_of b scope kind ident pairs label rest x d',
  let c := mkCtx par ft in
  let m := bns b in
  lookup kind prov_base_cls = Some kind -> kind <> "Membership" -> Builtins m ->
  record_label kind pairs = Some (label, rest) ->
  xml_record fl scope kind ident pairs = Some x ->
  Forall (child_ok fl c m prefix_of scope) (sorted_pairs kind rest) ->
  match ident with Some q => scoped scope q /\ Bound m q | None => is_element kind = false end ->
  put_all (has_collection (sorted_pairs kind rest)) (sorted_pairs kind rest) [] = Some d' ->
  exists sub b',
    read_label label = Some (kind, sub) /\
    xml_read_record par ft prefix_of b x = (b', OK tt) /\
    bns b' = m /\ bid b' = bid b /\
    brecs b' = (brecs b ++ [mkRec kind ident (final_attrs sub d')])%list.
Proof. exact xml_record_roundtrip. Qed.
Print Assumptions C11_written_xml_record_reloads.

(* not yet proved: the same with bundles (C01_document_roundtrip has the bundle side; its premises bundle_ok are not yet
   derived for loaded documents) and for PROV-XML above record level *)
