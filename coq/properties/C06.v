(* C06 — PROV-N output is well-formed and denotes the same document.
   Proved: string contents are recovered exactly for every byte string — quotes,
   newlines, backslashes — in both literal forms, at string level and at lexer level.
   The reader (ProvnSpec.v) is the executable specification of "denotes"; the whole-
   document statement is given below and decided per run by running the extracted
   reader on the implementation's text (partial). *)
From Coq Require Import String Ascii List ZArith.
From Prov Require Import Str Sexp Nsm Values Record World Provn ProvnSpec ProvnProofs.
Import ListNotations.
Open Scope string_scope.

Theorem C06_short_string_roundtrip : forall s rest,
  short_string (escape_provn s ++ String dq rest) = Some (s, rest).
Proof. exact short_string_escape. Qed.
Print Assumptions C06_short_string_roundtrip.

Theorem C06_long_string_roundtrip : forall s rest,
  long_string (escape_provn s ++ String dq (String dq (String dq rest))) = Some (s, rest).
Proof. exact long_string_escape. Qed.
Print Assumptions C06_long_string_roundtrip.

(* whatever the string, the printed literal lexes to exactly that string *)
Theorem C06_string_literal_lexes_back : forall s f, lex (S (S f)) (quote_str s) = Some [TStr s].
Proof. exact lex_quote_str. Qed.
Print Assumptions C06_string_literal_lexes_back.

Definition C06_statement : Prop :=
  forall d, exists c, ProvnSpec.read (doc_provn d) = Some c.

(* the printer and the reader on a document with every argument mask, an anonymous
   and an identified relation, a bundle with its own prefix, nasty strings *)
Definition exq l := mkQn (mkNs "ex" "http://e/") l.
Definition ex_m := match add_namespace nsm_init (mkNs "ex" "http://e/") with Some (m, _) => m | None => nsm_init end.
Definition ex_doc : doc :=
  mkD (mkB None ex_m
         [mkRec "Entity" (Some (exq "e1")) [(exq "s", [VStr "a""b\c"; VStr ("two" ++ String "010"%char "lines")])];
          mkRec "Usage" None [(prov_qn "activity", [VQn (exq "a1")])];
          mkRec "Generation" (Some (exq "g")) [(prov_qn "entity", [VQn (exq "e1")]);
                                              (prov_qn "time", [VTime (mkDt 2012%Z 3%Z 31%Z 9%Z 21%Z 0%Z 0%Z None)]);
                                              (exq "n", [VInt 7%Z; VBool true])]] [])
      [("http://e/b", mkB (Some (exq "b")) ex_m [mkRec "Agent" (Some (exq "ag")) []] [])].
Example C06_reader_reads_printer :
  ProvnSpec.read (doc_provn ex_doc) =
  Some (L [A "content";
           L [A "bundle"; A "";
              L [A "rec"; A "http://www.w3.org/ns/prov#Entity"; A "http://e/e1";
                 L [L [A "http://e/s"; L [A "str"; A "a""b\c"]];
                    L [A "http://e/s"; L [A "str"; A ("two" ++ String "010"%char "lines")]]]];
              L [A "rec"; A "http://www.w3.org/ns/prov#Usage"; A "none";
                 L [L [A "http://www.w3.org/ns/prov#activity"; L [A "qn"; A "http://e/a1"]]]];
              L [A "rec"; A "http://www.w3.org/ns/prov#Generation"; A "http://e/g";
                 L [L [A "http://www.w3.org/ns/prov#entity"; L [A "qn"; A "http://e/e1"]];
                    L [A "http://www.w3.org/ns/prov#time"; L [A "time"; A "2012-03-31T09:21:00"; A "none"]];
                    L [A "http://e/n"; L [A "int"; A "7"]]; L [A "http://e/n"; L [A "bool"; A "true"]]]]];
           L [A "bundle"; A "http://e/b"; L [A "rec"; A "http://www.w3.org/ns/prov#Agent"; A "http://e/ag"; L []]]]).
Proof. vm_compute. reflexivity. Qed.

(* the open finding C06-F3 in the model: a URI value with a quote does not parse *)
Lemma C06_F3_refuted :
  ProvnSpec.read (doc_provn (mkD (mkB None ex_m [mkRec "Entity" (Some (exq "e")) [(exq "k", [VId "http://x/a""b"])]] []) []))
  = None.
Proof. vm_compute. reflexivity. Qed.
