(* C06 — PROV-N output is well-formed and denotes the same document.
   Proved: string contents are recovered exactly for every byte string — quotes,
   newlines, backslashes — in both literal forms, at string level and at lexer level.
   The reader (ProvnSpec.v) is the executable specification of "denotes".  Value level:
   the tokens of a printed value read back as the value (C06_value theorems).  Record
   level (C06_record): the line printed for a record — name, optional identifier, the
   formal arguments in order with '-' for the absent ones, the bracketed attribute list —
   is cut by the specification's lexer into tokens which its expression parser reads as
   the record: kind, identifier URI, formal arguments, every other attribute value in
   order.  Document level (C06_document): the whole text printed for a document without
   bundles — the document / endDocument frame, the default and prefix declarations, the
   blank line, one line per record — is read by the specification's reader (with the fuel
   it derives from the text's length, C06_fuel_suffices) as exactly the document's
   records, in order, under the table its declarations build; with bundles
   (C06_document_bundles): each bundle's frame, declarations and record lines, one level
   deeper, are read as the bundle under the URI its identifier denotes with the bundle's own
   declarations in scope, after the document's records; containers may hold no declaration
   and no record (C06_empty_containers).  Not covered (partial): names the reader's table
   does not resolve (findings C06-F1..F3). *)
From Coq Require Import String Ascii List ZArith.
From Prov Require Import Str Sexp Spec Nsm Values Record World Provn ProvnSpec ProvnProofs IsoProofs SpecProofs ProvnSpecProofs ProvnRecProofs ProvnDocProofs ProvnBundleProofs.
Import ListNotations.
Open Scope string_scope.

Theorem C06_short_string_roundtrip : forall s rest,
  short_string (escape_provn s ++ String dq rest) = Some (s, rest).
Proof. exact short_string_escape. Qed.
Print Assumptions C06_short_string_roundtrip.

Theorem C06_long_string_roundtrip : forall s rest,
  long_string (escape_provn s ++ String dq (String dq (String dq rest))) = Some (s, rest).
Proof. exact long_string_escape. Qed.
Print Assumptions C06_long_string_roundtrip.

(* whatever the string, the printed literal lexes to exactly that string *)
Theorem C06_string_literal_lexes_back : forall s f, lex (S (S f)) (quote_str s) = Some [TStr s].
Proof. exact lex_quote_str. Qed.
Print Assumptions C06_string_literal_lexes_back.

Definition C06_statement : Prop :=
  forall d, exists c, ProvnSpec.read (doc_provn d) = Some c.

(* ---- end to end at value level: the tokens the independent reader's lexer cuts out of what the printer emits for
   an attribute value, followed by anything that can follow a value, and what read_literal makes of them, are the
   strict content of the value *)
Theorem C06_value_str : forall t s rest f toks, sep_start rest -> lex f rest = Some toks ->
  lex (S f) (provn_value (VStr s) ++ rest) = Some (TStr s :: toks) /\
  read_literal t (TStr s :: toks) = Some (content_value (VStr s), toks).
Proof. exact provn_spec_str. Qed.
Print Assumptions C06_value_str.
Theorem C06_value_int : forall t z rest f toks, nonword_start rest -> lex f rest = Some toks ->
  lex (S f) (provn_value (VInt z) ++ rest) = Some (TWord (str_of_Z z) :: toks) /\
  read_literal t (TWord (str_of_Z z) :: toks) = Some (content_value (VInt z), toks).
Proof. exact provn_spec_int. Qed.
Theorem C06_value_time : forall t tm rest f toks, PStd t -> valid_dt tm = true ->
  nonword_start rest -> lex f rest = Some toks ->
  lex (S (S (S (S (S f))))) (provn_value (VTime tm) ++ rest) = Some (TStr (iso_print tm) :: TPct :: TWord "xsd:dateTime" :: toks) /\
  read_literal t (TStr (iso_print tm) :: TPct :: TWord "xsd:dateTime" :: toks) = Some (content_value (VTime tm), toks).
Proof. exact provn_spec_time. Qed.
Print Assumptions C06_value_time.
Theorem C06_value_float : forall t r iv g rest f toks, PStd t -> safe r = true ->
  nonword_start rest -> lex f rest = Some toks ->
  lex (S (S (S (S (S f))))) (provn_value (VFloat r iv g) ++ rest) = Some (TStr r :: TPct :: TWord "xsd:double" :: toks) /\
  read_literal t (TStr r :: TPct :: TWord "xsd:double" :: toks) = Some (content_value (VFloat r iv g), toks).
Proof. exact provn_spec_float. Qed.
Theorem C06_value_bool : forall t b rest f toks, PStd t ->
  nonword_start rest -> lex f rest = Some toks ->
  lex (S (S (S (S (S f))))) (provn_value (VBool b) ++ rest)
    = Some (TStr (if b then "1" else "0") :: TPct :: TWord "xsd:boolean" :: toks) /\
  read_literal t (TStr (if b then "1" else "0") :: TPct :: TWord "xsd:boolean" :: toks) = Some (content_value (VBool b), toks).
Proof. exact provn_spec_bool. Qed.
(* a URI that needs no escaping; C06-F3 is the case of a URI holding a quote *)
Theorem C06_value_uri : forall t u rest f toks, PStd t -> safe u = true ->
  nonword_start rest -> lex f rest = Some toks ->
  lex (S (S (S (S (S f))))) (provn_value (VId u) ++ rest) = Some (TStr u :: TPct :: TWord "xsd:anyURI" :: toks) /\
  read_literal t (TStr u :: TPct :: TWord "xsd:anyURI" :: toks) = Some (content_value (VId u), toks).
Proof. exact provn_spec_id. Qed.
Theorem C06_value_qname : forall t q rest f toks, PStd t ->
  ns_prefix (qn_ns q) <> "" -> contains_char colon (ns_prefix (qn_ns q)) = false ->
  lookup (ns_prefix (qn_ns q)) t = Some (ns_uri (qn_ns q)) ->
  contains_char "'"%char (qn_str q) = false ->
  lex f rest = Some toks ->
  lex (S f) (provn_value (VQn q) ++ rest) = Some (TQn (qn_str q) :: toks) /\
  read_literal t (TQn (qn_str q) :: toks) = Some (content_value (VQn q), toks).
Proof. exact provn_spec_qn. Qed.
Theorem C06_value_lang : forall t lex0 c l rest f toks,
  wordy (String c l) = true -> nonword_start rest -> lex f rest = Some toks ->
  lex (S (S f)) (provn_value (VLit lex0 (Some (prov_qn "InternationalizedString")) (Some (String c l))) ++ rest)
    = Some (TStr lex0 :: TLang (String c l) :: toks) /\
  read_literal t (TStr lex0 :: TLang (String c l) :: toks)
    = Some (content_value (VLit lex0 (Some (prov_qn "InternationalizedString")) (Some (String c l))), toks).
Proof. exact provn_spec_lang. Qed.
Theorem C06_value_foreign : forall t lex0 d rest f toks, PStd t ->
  ns_prefix (qn_ns d) <> "" -> contains_char colon (ns_prefix (qn_ns d)) = false ->
  lookup (ns_prefix (qn_ns d)) t = Some (ns_uri (qn_ns d)) ->
  wordy (qn_str d) = true ->
  starts_with spec_xsd_uri (qn_uri d) = false ->
  nonword_start rest -> lex f rest = Some toks ->
  lex (S (S (S (S (S f))))) (provn_value (VLit lex0 (Some d) None) ++ rest) = Some (TStr lex0 :: TPct :: TWord (qn_str d) :: toks) /\
  read_literal t (TStr lex0 :: TPct :: TWord (qn_str d) :: toks) = Some (content_value (VLit lex0 (Some d) None), toks).
Proof. exact provn_spec_foreign. Qed.
Print Assumptions C06_value_foreign.

(* the printer and the reader on a document with every argument mask, an anonymous
   and an identified relation, a bundle with its own prefix, nasty strings *)
Definition exq l := mkQn (mkNs "ex" "http://e/") l.
Definition ex_m := match add_namespace nsm_init (mkNs "ex" "http://e/") with Some (m, _) => m | None => nsm_init end.
Definition ex_doc : doc :=
  mkD (mkB None ex_m
         [mkRec "Entity" (Some (exq "e1")) [(exq "s", [VStr "a""b\c"; VStr ("two" ++ String "010"%char "lines")])];
          mkRec "Usage" None [(prov_qn "activity", [VQn (exq "a1")])];
          mkRec "Generation" (Some (exq "g")) [(prov_qn "entity", [VQn (exq "e1")]);
                                              (prov_qn "time", [VTime (mkDt 2012%Z 3%Z 31%Z 9%Z 21%Z 0%Z 0%Z None)]);
                                              (exq "n", [VInt 7%Z; VBool true])]] [])
      [("http://e/b", mkB (Some (exq "b")) ex_m [mkRec "Agent" (Some (exq "ag")) []] [])].
Example C06_reader_reads_printer :
  ProvnSpec.read (doc_provn ex_doc) =
  Some (L [A "content";
           L [A "bundle"; A "";
              L [A "rec"; A "http://www.w3.org/ns/prov#Entity"; A "http://e/e1";
                 L [L [A "http://e/s"; L [A "str"; A "a""b\c"]];
                    L [A "http://e/s"; L [A "str"; A ("two" ++ String "010"%char "lines")]]]];
              L [A "rec"; A "http://www.w3.org/ns/prov#Usage"; A "none";
                 L [L [A "http://www.w3.org/ns/prov#activity"; L [A "qn"; A "http://e/a1"]]]];
              L [A "rec"; A "http://www.w3.org/ns/prov#Generation"; A "http://e/g";
                 L [L [A "http://www.w3.org/ns/prov#entity"; L [A "qn"; A "http://e/e1"]];
                    L [A "http://www.w3.org/ns/prov#time"; L [A "time"; A "2012-03-31T09:21:00"; A "none"]];
                    L [A "http://e/n"; L [A "int"; A "7"]]; L [A "http://e/n"; L [A "bool"; A "true"]]]]];
           L [A "bundle"; A "http://e/b"; L [A "rec"; A "http://www.w3.org/ns/prov#Agent"; A "http://e/ag"; L []]]]).
Proof. vm_compute. reflexivity. Qed.

(* the open finding C06-F3 in the model: a URI value with a quote does not parse *)
Lemma C06_F3_refuted :
  ProvnSpec.read (doc_provn (mkD (mkB None ex_m [mkRec "Entity" (Some (exq "e")) [(exq "k", [VId "http://x/a""b"])]] []) []))
  = None.
Proof. vm_compute. reflexivity. Qed.

(* ---- record level.  rec_name: the PROV-N name of the record's kind; formal_ok: an absent formal argument
   prints '-', a reference prints a name of word characters that resolves in the reader's table to its URI, a
   time prints its ISO form; pair_ok: an attribute name made of word characters that resolves to its URI and a value
   the value-level theorems cover (VSpec: vspec_str, vspec_int, vspec_time, vspec_bool, vspec_float, vspec_id,
   vspec_qn, vspec_lang, vspec_foreign).  The text may be followed by anything (rest). *)
Theorem C06_record : forall t r cs,
  word_ok (rec_name r) ->
  kind_by_name (rec_name r) = Some (rkind r, formal_attrs (rkind r), is_element (rkind r)) ->
  match rid r with
  | Some q => word_ok (qn_str q) /\ nresolve t (qn_str q) = Some (qn_uri q) /\ qn_str q <> "-"
  | None => is_element (rkind r) = false
  end ->
  (is_element (rkind r) = true \/ formal_attrs (rkind r) <> []) ->
  Forall2 (fun lv c => formal_ok t (fst lv) (snd lv) c) (combine (formal_attrs (rkind r)) (rec_fvals r)) cs ->
  Forall (pair_ok t) (rec_extras r) ->
  exists k body, forall rest f toks, lex f rest = Some toks ->
    lex (k + f) (record_provn r ++ rest) = Some (TWord (rec_name r) :: TLpar :: body ++ toks)%list /\
    forall fuel, length (rec_items0 r) + length (rec_fvals r) + length (rec_extras r) < fuel ->
      read_expr fuel t (rec_name r) (body ++ toks)
      = Some (L [A "rec"; A (spec_prov_uri ++ rkind r); rec_idc r; L (concat cs ++ map content_pair (rec_extras r))], toks).
Proof. exact provn_record. Qed.
Print Assumptions C06_record.

(* the attribute list alone, for any number of pairs *)
Theorem C06_attribute_list : forall t es, es <> [] -> Forall (pair_ok t) es ->
  exists k ts, forall rest f toks, lex f rest = Some toks ->
    lex (k + f) (concat_str ", " (map item_text es) ++ "]" ++ rest) = Some (ts ++ TRbr :: toks)%list /\
    forall fuel, length es <= fuel -> read_attrs fuel t (ts ++ TRbr :: toks) = Some (map content_pair es, toks).
Proof. exact attrs_spec. Qed.

(* the premises hold for a usage with an identifier, one present and two absent formal arguments, a
   two-valued attribute and a type *)
Example C06_record_applies :
  exists k body, forall rest f toks, lex f rest = Some toks ->
    lex (k + f) (record_provn p_r ++ rest) = Some (TWord "used" :: TLpar :: body ++ toks)%list /\
    forall fuel, 6 < fuel ->
      read_expr fuel p_t "used" (body ++ toks)
      = Some (L [A "rec"; A (spec_prov_uri ++ "Usage"); A "http://e/u";
                 L [L [A (spec_prov_uri ++ "activity"); L [A "qn"; A "http://e/a"]];
                    L [A "http://e/k"; L [A "int"; sx_Z 5]]; L [A "http://e/k"; L [A "str"; A "x"]];
                    L [A (spec_prov_uri ++ "type"); L [A "qn"; A "http://e/T"]]]], toks).
Proof. exact provn_record_applies. Qed.

(* ---- document level.  The fuel the reader takes from the length of the text is enough for the lexer on any
   text (every token consumes a character). *)
Theorem C06_fuel_suffices : forall f s l, lex f s = Some l -> lex (String.length s) s = Some l.
Proof. exact lex_enough. Qed.
Print Assumptions C06_fuel_suffices.

(* doc_text: the frame, the declarations ds (decl_good: a prefix of word characters, no '>' in a URI), the records.
   rec_spec_ok is the conjunction of C06_record's premises, under the table the declarations build. *)
Theorem C06_document_text : forall ds rs css,
  Forall decl_good ds ->
  Forall2 (rec_spec_ok (fold_left decl_apply ds builtin_ptable)) rs css -> rs <> [] ->
  ProvnSpec.read (doc_text ds rs) = Some (L (A "content" :: L (A "bundle" :: A "" :: conts rs css) :: [])).
Proof. exact provn_document. Qed.
Print Assumptions C06_document_text.

(* the printer's text is that text: any document without bundles, with a declaration and a record *)
Theorem C06_printer_text : forall d,
  dbundles d = [] -> decls_of (bns (dmain d)) <> [] -> brecs (dmain d) <> [] ->
  doc_provn d = doc_text (decls_of (bns (dmain d))) (brecs (dmain d)).
Proof. exact doc_provn_text. Qed.

Theorem C06_document : forall d css,
  dbundles d = [] -> decls_of (bns (dmain d)) <> [] -> brecs (dmain d) <> [] ->
  Forall decl_good (decls_of (bns (dmain d))) ->
  Forall2 (rec_spec_ok (fold_left decl_apply (decls_of (bns (dmain d))) builtin_ptable)) (brecs (dmain d)) css ->
  ProvnSpec.read (doc_provn d)
  = Some (L (A "content" :: L (A "bundle" :: A "" :: conts (brecs (dmain d)) css) :: [])).
Proof. exact provn_doc_provn. Qed.
Print Assumptions C06_document.

(* the premises hold for a document that declares a prefix and holds an entity and a usage *)
Example C06_document_applies :
  ProvnSpec.read (doc_provn pd_doc)
  = Some (L [A "content";
             L [A "bundle"; A "";
                L [A "rec"; A (spec_prov_uri ++ "Entity"); A "http://e/e"; L []];
                L [A "rec"; A (spec_prov_uri ++ "Usage"); A "http://e/u";
                   L [L [A (spec_prov_uri ++ "activity"); L [A "qn"; A "http://e/a"]];
                      L [A "http://e/k"; L [A "int"; sx_Z 5]]; L [A "http://e/k"; L [A "str"; A "x"]];
                      L [A (spec_prov_uri ++ "type"); L [A "qn"; A "http://e/T"]]]]]]).
Proof. exact provn_document_applies. Qed.

(* ---- documents with bundles.  doc_text_b: the document frame, the main container's body (declarations, blank
   line after them if there are any, record lines), then every bundle: "bundle <id>", its own body one level deeper,
   "endBundle".  bundle_ok: the identifier is a word that resolves, with the bundle's declarations applied on top of
   the document's table, to pb_uri; the bundle's records meet rec_spec_ok under that table. *)
Theorem C06_document_bundles_text : forall ds rs css bs,
  let t := fold_left decl_apply ds builtin_ptable in
  Forall decl_good ds -> Forall2 (rec_spec_ok t) rs css -> Forall (bundle_ok t) bs ->
  ProvnSpec.read (doc_text_b ds rs bs)
  = Some (L (A "content" :: L (A "bundle" :: A "" :: conts rs css) :: map bundle_cont bs)).
Proof. exact provn_document_bundles. Qed.
Print Assumptions C06_document_bundles_text.

(* the printer's text is that text, for every document (containers may be empty) *)
Theorem C06_printer_text_bundles : forall d pbs,
  Forall2 (fun kb pb => pb_matches (snd kb) pb) (dbundles d) pbs ->
  doc_provn d = doc_text_b (decls_of (bns (dmain d))) (brecs (dmain d)) pbs.
Proof. exact doc_provn_text_b. Qed.

Theorem C06_document_bundles : forall d css pbs,
  let ds := decls_of (bns (dmain d)) in
  let t := fold_left decl_apply ds builtin_ptable in
  Forall2 (fun kb pb => pb_matches (snd kb) pb) (dbundles d) pbs ->
  Forall decl_good ds -> Forall2 (rec_spec_ok t) (brecs (dmain d)) css -> Forall (bundle_ok t) pbs ->
  ProvnSpec.read (doc_provn d)
  = Some (L (A "content" :: L (A "bundle" :: A "" :: conts (brecs (dmain d)) css) :: map bundle_cont pbs)).
Proof. exact provn_doc_provn_bundles. Qed.
Print Assumptions C06_document_bundles.

Example C06_document_bundles_applies :
  ProvnSpec.read (doc_provn pdb_doc)
  = Some (L [A "content";
             L [A "bundle"; A "";
                L [A "rec"; A (spec_prov_uri ++ "Entity"); A "http://e/e"; L []];
                L [A "rec"; A (spec_prov_uri ++ "Usage"); A "http://e/u";
                   L [L [A (spec_prov_uri ++ "activity"); L [A "qn"; A "http://e/a"]];
                      L [A "http://e/k"; L [A "int"; sx_Z 5]]; L [A "http://e/k"; L [A "str"; A "x"]];
                      L [A (spec_prov_uri ++ "type"); L [A "qn"; A "http://e/T"]]]]];
             L [A "bundle"; A "http://e/b"; L [A "rec"; A (spec_prov_uri ++ "Agent"); A "http://e/ag"; L []]]]).
Proof. exact provn_document_bundles_applies. Qed.

(* every container may be empty *)
Example C06_empty_containers :
  ProvnSpec.read (doc_provn (mkD (mkB None pd_m [] []) [("http://e/b", mkB (Some (p_q "b")) nsm_init [] [])]))
  = Some (L [A "content"; L [A "bundle"; A ""]; L [A "bundle"; A "http://e/b"]]).
Proof. exact provn_empty_containers. Qed.
