(* C14 — graph conversion mirrors the document and converts back to its unified form.
   Statements only; proofs in theories/GraphProofs.v. *)
From Coq Require Import String List Arith.
From Prov Require Import Str Sexp Tables Nsm Values Record World Derive Graph GraphProofs WorldProofs IdemProofs ReaddProofs GraphBackProofs.
Import ListNotations.
Open Scope string_scope.

(* every edge carries one of the document's relations and is directed from the node of
   its first formal argument to the node of its second; nothing else is added, and no
   relation yields more than one edge *)
Theorem C14_edges : forall rels nm g,
  NMok nm -> Forall edge_spec (gedges g) ->
  Forall edge_spec (gedges (add_relations rels nm g)) /\
  (forall e, In e (gedges (add_relations rels nm g)) -> In e (gedges g) \/ In (snd e) rels) /\
  length (gedges (add_relations rels nm g)) <= length (gedges g) + length rels.
Proof. exact add_relations_edges. Qed.
Print Assumptions C14_edges.

(* with declared endpoints: exactly one edge per relation, in order *)
Theorem C14_edges_declared : forall rels nm g,
  (forall r, In r rels -> exists a1 q1 a2 q2 n1 n2,
      first_two r = Some ((a1, Some (VQn q1)), (a2, Some (VQn q2))) /\
      lookup (qn_uri q1) nm = Some n1 /\ lookup (qn_uri q2) nm = Some n2) ->
  map (fun e => snd e) (gedges (add_relations rels nm g)) = (map (fun e => snd e) (gedges g) ++ rels)%list.
Proof. exact add_relations_declared. Qed.
Print Assumptions C14_edges_declared.

(* every element node stays a node *)
Theorem C14_nodes_kept : forall rels nm g x,
  In x (gnodes g) -> In x (gnodes (add_relations rels nm g)).
Proof. exact add_relations_keeps_nodes. Qed.

(* converting back builds a well-formed, bundle-free document *)
Theorem C14_back_wellformed : forall ft g nd, graph_to_prov ft g = OK nd -> DCoh nd /\ dbundles nd = [].
Proof. exact graph_to_prov_coh. Qed.
Print Assumptions C14_back_wellformed.

(* document -> graph -> document, for every document on which both conversions succeed: the result is
   bundle-free and holds, in order, the images (same kind, identifier URI, attribute values) of the records of
   the declared nodes followed by the relations on the edges; all of these are records of the unified
   document; and the relations handed back are exactly those on the edges of the graph — none dropped, none
   invented.  (Inferred nodes are not written back; multiplicity of parallel edges: decided per run.) *)
Theorem C14_roundtrip : forall ft dd g nd,
  prov_to_graph ft dd = OK g -> graph_to_prov ft g = OK nd ->
  exists u, doc_unified ft dd = OK u /\ g = graph_of_unified u /\ dbundles nd = [] /\
    Forall2 (image_of ft) (back_records g) (brecs (dmain nd)) /\
    (forall r, In r (back_records g) -> In r (brecs (dmain u))) /\
    (forall e, In e (edges_in_order g) <-> In e (gedges g)).
Proof. exact graph_roundtrip. Qed.
Print Assumptions C14_roundtrip.

(* the inference table is the PROV-DM one (generated from /repo, checked here) *)
Example C14_inference_table :
  map (fun a => lookup a inferred_element_class)
      ["entity"; "activity"; "agent"; "trigger"; "informed"; "delegate"; "plan"; "influencee"; "influencer"]
  = [Some "Entity"; Some "Activity"; Some "Agent"; Some "Entity"; Some "Activity"; Some "Agent"; Some "Entity"; None; None].
Proof. vm_compute. reflexivity. Qed.

(* a document with a declared and an undeclared endpoint, a parallel relation, a
   self-loop, a relation lacking an endpoint and an influence with undeclared ends *)
Definition exq l := mkQn (mkNs "ex" "http://e/") l.
Definition ex_u : doc :=
  mkD (mkB None nsm_init
     [mkRec "Entity" (Some (exq "e")) [];
      mkRec "Usage" None [(prov_qn "activity", [VQn (exq "a")]); (prov_qn "entity", [VQn (exq "e")])];
      mkRec "Usage" (Some (exq "u2")) [(prov_qn "activity", [VQn (exq "a")]); (prov_qn "entity", [VQn (exq "e")])];
      mkRec "Derivation" None [(prov_qn "generatedEntity", [VQn (exq "e")]); (prov_qn "usedEntity", [VQn (exq "e")])];
      mkRec "Generation" None [(prov_qn "entity", [VQn (exq "e")])];
      mkRec "Influence" None [(prov_qn "influencee", [VQn (exq "x")]); (prov_qn "influencer", [VQn (exq "y")])]] []) [].
Example C14_graph_computes :
  let g := graph_of_unified ex_u in
  (map (fun n => (rkind (nrec n), ndeclared n)) (gnodes g),
   map (fun e => (node_uri (fst (fst e)), node_uri (snd (fst e)), rkind (snd e))) (gedges g))
  = ([("Entity", true); ("Activity", false)],
     [(Some "http://e/a", Some "http://e/e", "Usage"); (Some "http://e/a", Some "http://e/e", "Usage");
      (Some "http://e/e", Some "http://e/e", "Derivation")]).
Proof. vm_compute. reflexivity. Qed.
