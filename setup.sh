#!/bin/bash
# Build the framework from files on disk only: generated tables, the full Coq
# development (.vo, no quick modes), extraction and the model driver.
set -e -o pipefail
cd "$(dirname "$0")"
export PYTHONPATH="${PROV_REPO:-/repo}/src:$(pwd)"
export PYTHONDONTWRITEBYTECODE=1
/venv/bin/python harness/gen_tables.py coq/gen/Tables.v 2>&1 | grep -v conda.cli || true
cd coq
coq_makefile -f _CoqProject -o Makefile 2>&1 | grep -v conda.cli || true
timeout 3000 make -j16 2>&1 | grep -v conda.cli | tail -40
cd ..
PYTHONHASHSEED=0 /venv/bin/python -c "
from harness import common
ok, out = common.extract_and_compile()
print('extract+compile:', ok)
if not ok:
    print(out[-3000:]); raise SystemExit(1)
"
echo setup done
