#!/bin/bash
# coverage_all.sh [tier] — line coverage of /repo/src/prov under all checks (finds input shapes the generators never produce).
tier=${1:-quick}
cd /verif
rm -rf /tmp/provcov; mkdir -p /tmp/provcov
export PYTHONHASHSEED=0 PYTHONPATH=/repo/src:/verif PROV_VERIF=1
for i in 01 02 03 04 05 06 07 08 09 10 11 12 13 14 15 16 17 18; do
  /venv/bin/python -m coverage run --rcfile=tools/cov/coveragerc -m harness.main C$i --tier $tier > /tmp/provcov/C$i.log 2>&1
done
cd /tmp/provcov && /venv/bin/python -m coverage combine --rcfile=/verif/tools/cov/coveragerc >/dev/null 2>&1
/venv/bin/python -m coverage report --rcfile=/verif/tools/cov/coveragerc > /verif/notes/coverage_$tier.txt 2>&1
tail -20 /verif/notes/coverage_$tier.txt
