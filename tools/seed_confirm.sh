#!/bin/bash
# seed_confirm.sh <id> [name] — confirms a seeded change produced in the scratch worktree /tmp/mut/<id>
# (its _out/patch.diff): the demonstration passes on the clean tree and fails with the change, the pinned
# suite still passes with the change; then stores it as /verif/seeded/<name>/ (patch.diff, demo.py, meta.json).
id=$1; name=${2:-$1}; base=${3:-/tmp/mut2}; wt=$base/$id
set -u
cd $wt || exit 2
[ -s $wt/_out/patch.diff ] || { echo "no patch"; exit 2; }
git checkout -q -- src
PYTHONPATH=$wt/src /venv/bin/python $wt/_out/demo.py >$base/$id.demo_clean.txt 2>&1; rc_clean=$?
git apply $wt/_out/patch.diff || { echo "patch does not apply"; exit 2; }
PYTHONPATH=$wt/src /venv/bin/python $wt/_out/demo.py >$base/$id.demo_mut.txt 2>&1; rc_mut=$?
REPO_DIR=$wt /verif/tools/baseline.sh > $base/$id.base.txt 2>&1; rc_base=$?
echo "$id: demo clean rc=$rc_clean  mutated rc=$rc_mut  baseline rc=$rc_base: $(grep baseline: $base/$id.base.txt)"
if [ $rc_clean -eq 0 ] && [ $rc_mut -ne 0 ] && [ $rc_base -eq 0 ]; then
  mkdir -p /verif/seeded/$name
  git diff -- src > /verif/seeded/$name/patch.diff
  cp $wt/_out/demo.py /verif/seeded/$name/demo.py
  cp $wt/_out/meta.json /verif/seeded/$name/meta.json 2>/dev/null
  tail -5 $base/$id.demo_mut.txt > /verif/seeded/$name/demo_output_with_change.txt
  echo "CONFIRMED -> /verif/seeded/$name"
else
  echo "NOT CONFIRMED"; tail -5 $base/$id.demo_clean.txt; tail -5 $base/$id.demo_mut.txt; tail -8 $base/$id.base.txt
  exit 1
fi
