#!/bin/bash
# thorough_all.sh — the thorough tier of every check on the current tree; summary in notes/thorough.txt
cd /verif
: > notes/thorough.txt
for i in 01 02 03 04 05 06 07 08 09 10 11 12 13 14 15 16 17 18; do
  s=$(date +%s)
  out=$(timeout 3600 ./check C$i --tier thorough 2>&1); rc=$?
  echo "C$i exit=$rc violations=$(echo "$out" | grep -c '^VIOLATION') known=$(echo "$out" | grep -c '^KNOWN-FINDING') seconds=$(( $(date +%s) - s ))" >> notes/thorough.txt
  echo "$out" | grep '^VIOLATION' >> notes/thorough.txt
done
echo done >> notes/thorough.txt
