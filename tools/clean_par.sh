#!/bin/bash
# clean_par.sh [-t quick|thorough] [-j N] <generator seed>... — every check on the unchanged tree under other generator seeds,
# in a scratch copy of /verif (so /verif's evidence files and build are left alone), several at a time; summary appended to
# notes/seeds_clean.txt (quick) or notes/thorough.txt (thorough).  A VIOLATION line here is a false alarm to look into
# (or a genuine finding).
T=quick; J=8
while getopts "t:j:" o; do case $o in t) T=$OPTARG;; j) J=$OPTARG;; esac; done; shift $((OPTIND - 1))
vw=/tmp/sp/clean_$$; mkdir -p /tmp/sp; rm -rf $vw; mkdir -p $vw
rsync -a --exclude .git --exclude seeded --exclude replays --exclude work /verif/ $vw/
out=/verif/notes/seeds_clean.txt; [ "$T" = thorough ] && out=/verif/notes/thorough.txt
echo "== $(date -u +%FT%TZ) tier=$T seeds=$* (commit $(git -C /verif rev-parse --short HEAD))" >> $out
one() { s=$1; c=$2
  o=$(cd $VW && VERIF_SEED=$s timeout 7200 ./check $c --tier $T 2>&1); rc=$?
  { echo "seed=$s $c exit=$rc violations=$(echo "$o" | grep -c '^VIOLATION')"; echo "$o" | grep '^VIOLATION' | sed "s|$VW|/verif|g"; } >> $OUT
  for r in $(echo "$o" | grep -oE "replay=[^ ]+" | cut -d= -f2 | head -3); do mkdir -p /verif/replays; cp $r /verif/replays/ 2>/dev/null; done
}
export -f one; export VW=$vw OUT=$out T
for s in "$@"; do for i in 01 02 03 04 05 06 07 08 09 10 11 12 13 14 15 16 17 18; do echo "$s C$i"; done; done | xargs -P $J -L 1 bash -c 'one $0 $1'
echo "done" >> $out
rm -rf $vw
