#!/bin/bash
# seed_par.sh [-j N] [-s "<generator seeds>"] <name>[:<prop>...] ...
# Runs seeded changes against quick checks WITHOUT touching /repo or /verif: for each name a scratch git worktree of
# /repo (under /tmp/sp/rw) gets seeded/<name>/patch.diff applied, a scratch copy of /verif (under /tmp/sp/vw) runs
#   PROV_REPO=<worktree> ./check <prop> --tier quick
# and the outcome is stored as /verif/seeded/<name>/result.txt (default generator seed) or appended to
# /verif/seeded/<name>/robust.txt (with -s).  Both scratch directories are removed afterwards.  The default property of
# a name is its prefix (C05-r9 -> C05).
J=6; SEEDS=""
while getopts "j:s:" o; do case $o in j) J=$OPTARG;; s) SEEDS=$OPTARG;; esac; done; shift $((OPTIND - 1))
mkdir -p /tmp/sp/rw /tmp/sp/vw
one() {
  spec=$1; name=${spec%%:*}; props=${spec#*:}; [ "$props" = "$spec" ] && props=${name%%-*}; props=${props//:/ }
  rw=/tmp/sp/rw/$name; vw=/tmp/sp/vw/$name
  rm -rf $vw; git -C /repo worktree remove --force $rw 2>/dev/null; rm -rf $rw
  flock /tmp/sp/worktree.lock git -C /repo worktree add -q --detach $rw HEAD || { echo "$name: worktree failed"; return; }
  git -C $rw apply /verif/seeded/$name/patch.diff || { echo "$name: patch does not apply"; git -C /repo worktree remove --force $rw; return; }
  mkdir -p $vw; rsync -a --exclude .git --exclude seeded --exclude replays --exclude work /verif/ $vw/
  if [ -z "$SEEDS" ]; then
    : > /verif/seeded/$name/result.txt
    for p in $props; do
      out=$(cd $vw && PROV_REPO=$rw timeout 1800 ./check $p --tier quick 2>&1); rc=$?
      echo "== check $p --tier quick: exit $rc" >> /verif/seeded/$name/result.txt
      echo "$out" | grep -E "^(VIOLATION|KNOWN-FINDING)" | sed "s|$vw|/verif|g" >> /verif/seeded/$name/result.txt
      for r in $(echo "$out" | grep -oE "replay=[^ ]+" | cut -d= -f2 | head -2); do
        echo "-- ${r/$vw//verif}" >> /verif/seeded/$name/result.txt; head -c 1500 $r >> /verif/seeded/$name/result.txt; echo >> /verif/seeded/$name/result.txt
      done
      echo "$name $p: exit $rc violations=$(echo "$out" | grep -c '^VIOLATION')"
    done
  else
    for p in $props; do
      hit=0; n=0
      for s in $SEEDS; do
        c=$(cd $vw && PROV_REPO=$rw VERIF_SEED=$s timeout 1800 ./check $p --tier quick 2>&1 | grep -c '^VIOLATION'); n=$((n + 1))
        [ "$c" -gt 0 ] && hit=$((hit + 1))
      done
      echo "$name $p: detected under $hit of $n generator seeds ($SEEDS)" | tee -a /verif/seeded/$name/robust.txt
    done
  fi
  git -C /repo worktree remove --force $rw; rm -rf $vw
}
export -f one; export SEEDS
printf '%s\n' "$@" | xargs -P $J -I{} bash -c 'one {}'
git -C /repo worktree prune
