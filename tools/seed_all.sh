#!/bin/bash
# seed_all.sh — clean-tree pass of all quick checks, then every seeded change against the check of its property.
cd /verif
: > seeded/SUMMARY.txt
for i in 01 02 03 04 05 06 07 08 09 10 11 12 13 14 15 16 17 18; do
  out=$(timeout 1800 ./check C$i --tier quick 2>&1); rc=$?
  echo "clean C$i exit=$rc violations=$(echo "$out" | grep -c '^VIOLATION') known=$(echo "$out" | grep -c '^KNOWN-FINDING')" >> seeded/SUMMARY.txt
done
for d in seeded/C*/; do
  n=$(basename $d); p=${n%%-*}
  tools/seed_run.sh $n $p > /dev/null 2>&1
  echo "seed $n vs check $p: $(head -1 seeded/$n/result.txt) violations=$(grep -c '^VIOLATION' seeded/$n/result.txt)" >> seeded/SUMMARY.txt
done
git -C /repo status --porcelain >> seeded/SUMMARY.txt
echo done >> seeded/SUMMARY.txt
