#!/bin/bash
# seeds_clean.sh <seed>... — every quick check on the unchanged tree under other generator seeds (no false alarms);
# summary in notes/seeds_clean.txt.  Evidence of the committed (seed 1) run is kept.
cd /verif
: > notes/seeds_clean.txt
bk=$(mktemp -d /tmp/evbk.XXXXXX); cp /verif/evidence/*.json $bk/ 2>/dev/null
trap 'cp $bk/*.json /verif/evidence/ 2>/dev/null; rm -rf $bk' EXIT
for seed in "$@"; do
  for i in 01 02 03 04 05 06 07 08 09 10 11 12 13 14 15 16 17 18; do
    out=$(VERIF_SEED=$seed timeout 3600 ./check C$i --tier quick 2>&1); rc=$?
    echo "seed=$seed C$i exit=$rc violations=$(echo "$out" | grep -c '^VIOLATION')" >> notes/seeds_clean.txt
    echo "$out" | grep '^VIOLATION' >> notes/seeds_clean.txt
  done
done
echo done >> notes/seeds_clean.txt
