#!/bin/bash
# seed_robust.sh <n> — every seeded change against its property's quick check under n other generator seeds;
# writes seeded/ROBUST.txt (detections / runs).
n=${1:-3}
cd /verif
: > seeded/ROBUST.txt
# evidence files are rewritten by every run: keep the ones of the unchanged tree
bk=$(mktemp -d /tmp/evbk.XXXXXX); cp /verif/evidence/*.json $bk/ 2>/dev/null
trap 'git -C /repo checkout -- . 2>/dev/null; cp $bk/*.json /verif/evidence/ 2>/dev/null; rm -rf $bk' EXIT
for d in ${ROBUST_DIRS:-seeded/C*/}; do
  name=$(basename $d); p=${name%%-*}
  [ -z "$(git -C /repo status --porcelain)" ] || { echo "/repo not clean" >> seeded/ROBUST.txt; exit 2; }
  git -C /repo apply /verif/seeded/$name/patch.diff || continue
  hit=0
  for s in $(seq 1 $n); do
    c=$(VERIF_SEED=$((1000 + s)) timeout 1800 ./check $p --tier quick 2>&1 | grep -c '^VIOLATION')
    [ "$c" -gt 0 ] && hit=$((hit + 1))
  done
  git -C /repo checkout -- .
  echo "$name: detected under $hit of $n generator seeds" >> seeded/ROBUST.txt
done
echo done >> seeded/ROBUST.txt
