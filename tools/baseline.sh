#!/bin/bash
# Runs the pinned baseline suite (guard off) and compares with /root/.vp/BASELINE.json stable_pass.
out=$(mktemp /tmp/junit.XXXXXX.xml)
R=${REPO_DIR:-/repo}
cd $R && env -u PROV_VERIF PYTHONPATH=$R/src /venv/bin/python -m pytest -ra -q -p no:cacheprovider --timeout=900 --continue-on-collection-errors --junitxml=$out >/tmp/baseline.log 2>&1
/venv/bin/python - "$out" <<'PY'
import json, sys, xml.etree.ElementTree as ET
base = json.load(open('/root/.vp/BASELINE.json'))
want = set(base['stable_pass'])
t = ET.parse(sys.argv[1])
passed = set()
for tc in t.iter('testcase'):
    ok = not any(ch.tag in ('failure', 'error', 'skipped') for ch in tc)
    name = tc.get('classname') + '::' + tc.get('name')
    if ok:
        passed.add(name)
missing = sorted(want - passed)
print("baseline: %d/%d stable tests pass" % (len(want & passed), len(want)))
for m in missing[:20]:
    print("  NOT PASSING:", m)
sys.exit(1 if missing else 0)
PY
rc=$?
rm -f $out
exit $rc
