#!/bin/bash
# seed_run.sh <name> <prop>... — applies /verif/seeded/<name>/patch.diff to /repo, runs the quick checks of the
# given properties, records the outcome in /verif/seeded/<name>/result.txt, and restores /repo.
name=$1; shift
cd /repo || exit 2
[ -z "$(git status --porcelain)" ] || { echo "/repo not clean"; exit 2; }
git apply /verif/seeded/$name/patch.diff || exit 2
# evidence files are rewritten by every run: keep the ones of the unchanged tree
bk=$(mktemp -d /tmp/evbk.XXXXXX); cp /verif/evidence/*.json $bk/ 2>/dev/null
trap 'git -C /repo checkout -- .; cp $bk/*.json /verif/evidence/ 2>/dev/null; rm -rf $bk' EXIT
: > /verif/seeded/$name/result.txt
for p in "$@"; do
  out=$(cd /verif && timeout 1800 ./check $p --tier quick 2>&1); rc=$?
  echo "== check $p --tier quick: exit $rc" | tee -a /verif/seeded/$name/result.txt
  echo "$out" | grep -E "^(VIOLATION|KNOWN-FINDING)" | tee -a /verif/seeded/$name/result.txt
  for r in $(echo "$out" | grep -oE "replay=[^ ]+" | cut -d= -f2 | head -2); do
    echo "-- $r" >> /verif/seeded/$name/result.txt; head -c 1500 $r >> /verif/seeded/$name/result.txt; echo >> /verif/seeded/$name/result.txt
  done
done
