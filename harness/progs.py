"""progs.py — seeded generator of API programs.  Generation runs the implementation
in the loop so that handles refer to objects that exist; the resulting program is a
plain op list, replayable on a fresh interpreter and on the model."""
import random

from harness import impl as I

NS = [("ex", "http://example.org/"), ("ex2", "http://example.org/2/"), ("foo", "http://foo.test/ns#"),
      ("ex", "http://other.org/"), ("dn", "http://dn.test/"), ("ex_1", "http://ex1.test/"),
      ("bar", "http://example.org/"), ("u", "urn:x:")]
DEFAULTS = ["http://default.test/", "http://example.org/", "http://d2.test/"]
LOCALS = ["e1", "e2", "a1", "ag1", "r1", "b1", "x/y", "n-1", "p.q", "été", "k_2", "e3"]
ATTR_LOCALS = ["k", "v2", "label2", "size", "a-b", "ünï"]
KINDS = list(I.CLS_OF.keys())
ELEMENTS = ["Entity", "Activity", "Agent"]
STRINGS = ["", "plain", 'quo"te', "two\nlines", "back\\slash", "tab\there", "ünïcødé", "\U0001F600 astral", "  spaced ",
           "<a&b>", "'single'", '"""', "a:b", "1", "true", 'multi\n"quoted" line', 'ends with a quote\n"',
           'a\n"""\nb\\', "\n", "cr\r\nlf", "Ame\u0301lie \u212b",
           # legal XML 1.0 characters that "illegal character" tables often list: DEL, C1 controls, noncharacters
           "It\x92s \x7f", "\ufdd0\U0001fffe"]
INTS = [0, 1, -1, 7, 2**31, -2**63, 10**40, 255]
FLOATS = [0.5, -2.25, 1e300, 5e-324, 0.1, 3.0, 123456.789, 1.7976931348623157e308, -0.0, 2.5e-8]
TIMES = [("2012", "3", "31", "9", "21", "0", "0", "none"), ("2012", "3", "31", "9", "21", "0", "0", "0"),
         ("1999", "12", "31", "23", "59", "59", "999999", "330"), ("2024", "2", "29", "0", "0", "0", "500", "-480"),
         ("2012", "3", "31", "10", "21", "0", "0", "60"), ("1", "1", "1", "0", "0", "0", "0", "none")]
# valid ones first (N_VALID_TIME_STRS of them); some with day <= 12 and day != month, where a day/month mix-up shows
TIME_STRS = ["2012-03-31T09:21:00", "2012-03-31T09:21:00Z", "2011-11-16T16:05:00.123+01:00", "2000-01-01T00:00:00-05:30",
             "2012-03-04T05:06:07", "2013-10-02T00:00:00+02:00",
             "abc", "not a date"]
N_VALID_TIME_STRS = 6
FOREIGN_FORMAL_RATE = 0.04      # other_attrs: a PROV formal attribute name as an ordinary attribute (C10 switches it off: finding C10-F5)
LANGS = ["en", "fr-CA", "x-klingon", "en-gb", "EN", "zh-hant-TW", "de-CH-X-Priv"]   # case as typed must survive: not all in the spelling RFC 5646 recommends
FOREIGN_DT = [("ex", "http://example.org/", "MyType"), ("zz", "http://zz.test/", "T"), ("xsd", "http://www.w3.org/2001/XMLSchema#", "token"),
              ("xsd", "http://www.w3.org/2001/XMLSchema#", "QName"),
              # the datatype a language tag implies, given explicitly and without a tag
              ("prov", "http://www.w3.org/ns/prov#", "InternationalizedString")]
XSD = "http://www.w3.org/2001/XMLSchema#"
PROV = "http://www.w3.org/ns/prov#"
CLASSES = ["ProvRecord", "ProvElement", "ProvRelation", "ProvEntity", "ProvActivity", "ProvAgent", "ProvGeneration",
           "ProvSpecialization", "ProvMention", "ProvDerivation", "ProvMembership", "ProvInfluence"]


class Gen:
    def __init__(self, rng, profile="mixed"):
        self.rng = rng
        self.profile = profile
        self.im = I.Impl()
        self.ops = []
        self.obs = []
        self.observe_each = True

    # ---------------------------------------------------------------- primitives
    def emit(self, op):
        self.ops.append(op)
        ob = self.im.step(op)
        self.obs.append(ob)
        if self.observe_each and op[0] not in ("ObserveAll",):
            self.ops.append(["ObserveAll"])
            self.obs.append(self.im.step(["ObserveAll"]))
        return ob

    def crefs(self):
        out = []
        for i, d in enumerate(self.im.docs):
            out.append(["d", str(i)])
            for j in range(len(d._bundles)):
                out.append(["b", str(i), str(j)])
        return out

    def rrefs(self, kinds=None):
        out = []
        for c in self.crefs():
            cont = self.im.cont(c)
            for i, r in enumerate(cont._records):
                if kinds is None or I.KIND_OF[type(r)] in kinds:
                    out.append(["r", c, str(i)])
        return out

    def pick_cref(self):
        cs = self.crefs()
        return self.rng.choice(cs)

    # ---------------------------------------------------------------- names
    def known_ns(self, c):
        cont = self.im.cont(c)
        out = [(n.prefix, n.uri) for n in cont._namespaces.get_registered_namespaces()]
        if c[0] == "b":
            out += [(n.prefix, n.uri) for n in self.im.docs[int(c[1])]._namespaces.get_registered_namespaces()]
        return out

    def name(self, c, locals_=LOCALS, allow_bad=True):
        """A name argument in one of the accepted spellings."""
        rng = self.rng
        known = self.known_ns(c)
        r = rng.random()
        l = rng.choice(locals_)
        if r < 0.35 and known:
            p, u = rng.choice(known)
            return ["S", p + ":" + l]
        if r < 0.6:
            p, u = rng.choice(NS) if rng.random() < 0.6 or not known else rng.choice(known)
            return ["Q", p, u, l]
        if r < 0.68:
            return ["Q", "", rng.choice(DEFAULTS), l]
        if r < 0.76 and known:
            p, u = rng.choice(known)
            return ["S", u + l]
        if r < 0.82 and known:
            p, u = rng.choice(known)
            return ["I", u + l]
        if r < 0.9:
            cont = self.im.cont(c)
            has_default = cont._namespaces._default is not None or (
                c[0] == "b" and self.im.docs[int(c[1])]._namespaces._default is not None)
            if has_default or not allow_bad:
                return ["S", l]
        if allow_bad and r > 0.97:
            return ["S", "nope:" + l]
        p, u = rng.choice(NS)
        return ["Q", p, u, l]

    def existing_id(self, c, kinds=None):
        cont = self.im.cont(c)
        cands = [r for r in cont._records if r.identifier is not None and (kinds is None or I.KIND_OF[type(r)] in kinds)]
        if not cands:
            return None
        q = self.rng.choice(cands).identifier
        r = self.rng.random()
        if r < 0.5:
            return ["Q", q.namespace.prefix, q.namespace.uri, q.localpart]
        if r < 0.8:
            return ["S", str(q)]
        return ["S", q.uri]

    # ---------------------------------------------------------------- values
    def value(self, c, simple=False):
        rng = self.rng
        r = rng.random()
        if r < 0.2:
            return ["str", rng.choice(STRINGS)]
        if r < 0.32:
            return ["int", str(rng.choice(INTS))]
        if r < 0.42:
            f = rng.choice(FLOATS)
            return I.sx_value(f)
        if r < 0.48:
            return ["bool", rng.choice(["true", "false"])]
        if r < 0.58:
            return ["time"] + list(rng.choice(TIMES))
        if r < 0.64:
            p, u = rng.choice(NS)
            if rng.random() < 0.15:
                return ["id", rng.choice(["prov:weird", "xsd:int", "urn:uuid:0-1", "a b", "mailto:x@y.test"])]
            return ["id", u + rng.choice(LOCALS)]
        if r < 0.74:
            n = self.name(c, allow_bad=False)
            if n[0] == "Q":
                return ["qn", n[1], n[2], n[3]]
            p, u = rng.choice(NS)
            return ["qn", p, u, rng.choice(LOCALS)]
        if r < 0.8:
            return ["lit", rng.choice(STRINGS), "none", ["some", rng.choice(LANGS)]]
        if r < 0.86:
            p, u, l = rng.choice(FOREIGN_DT)
            dflt = self.im.cont(c)._namespaces.get_default_namespace() if c is not None else None
            if dflt is not None and rng.random() < 0.3:
                p, u, l = "", dflt.uri, "DefaultType"        # a datatype in the scope's default namespace
            return ["lit", rng.choice(STRINGS), ["qn", p, u, l], "none"]
        if r < 0.98:
            # typed literal of a natively supported datatype, valid or not
            k = rng.choice(["int", "long", "double", "boolean", "string", "anyURI", "dateTime"])
            if k in ("int", "long"):
                lex = rng.choice(["12", "-5", "+7", " 42 ", "10000000000000000000000", "1.5", "abc", ""])
            elif k == "double":
                lex = rng.choice(["0.5", "1e300", "3", "-0.0", "1E-7", "abc", "12.50"])
            elif k == "boolean":
                lex = rng.choice(["true", "FALSE", "1", "0", "yes"])
            elif k == "string":
                lex = rng.choice(STRINGS)
            elif k == "anyURI":
                lex = rng.choice(["http://example.org/x", "urn:a:b", ""])
            else:
                lex = rng.choice(TIME_STRS)
            pfx = "xsd" if rng.random() < 0.85 else "xs"
            return ["lit", lex, ["qn", pfx, XSD, k], "none"]
        return ["lit", rng.choice(STRINGS), "none", "none"]

    def other_attrs(self, c, n=None, with_prov=True):
        rng = self.rng
        n = rng.choice([0, 0, 1, 1, 2, 3]) if n is None else n
        out = []
        for _ in range(n):
            r = rng.random()
            if with_prov and r < 0.3:
                # mostly the PROV-DM extra attributes; sometimes another name of the prov namespace
                nm = ["Q", "prov", PROV, rng.choice(["type", "label", "role", "location", "value"] * 3
                                                   + ["generatedAtTime", "atTime", "typeOf", "labelled"])]
                if rng.random() < 0.3:
                    nm = ["S", "prov:" + nm[3]]
            elif with_prov and r < 0.3 + FOREIGN_FORMAL_RATE:
                # a PROV attribute name that is formal for some kinds: on a record of another kind it is an ordinary
                # attribute (with a value of the kind the name demands)
                a = rng.choice(["time", "startTime", "endTime", "activity", "agent", "plan", "trigger", "generation"])   # (not prov:entity: on a membership it is the multi-valued path of finding C05-F1)
                v = ["time"] + list(rng.choice(TIMES)) if a.endswith("ime") else self.ref_value(c, a)
                out.append([["Q", "prov", PROV, a], v])
                continue
            else:
                nm = self.name(c, ATTR_LOCALS)
            out.append([nm, self.value(c)])
        return out

    def ref_value(self, c, attr, kinds=None):
        """A value for a reference-valued formal attribute, in each representation."""
        rng = self.rng
        r = rng.random()
        recs = self.rrefs(kinds)
        if r < 0.25 and recs:
            return ["rec", rng.choice(recs)]
        e = self.existing_id(c, kinds)
        if r < 0.6 and e is not None:
            if e[0] == "Q":
                return ["qn", e[1], e[2], e[3]]
            return ["str", e[1]]
        n = self.name(c, allow_bad=False)
        if n[0] == "Q":
            return ["qn", n[1], n[2], n[3]]
        if n[0] == "S":
            return ["str", n[1]]
        return ["id", n[1]]

    def time_value(self):
        rng = self.rng
        r = rng.random()
        if r < 0.5:
            return ["time"] + list(rng.choice(TIMES))
        if r < 0.92:
            return ["str", rng.choice(TIME_STRS[:N_VALID_TIME_STRS])]
        return ["str", rng.choice(TIME_STRS[N_VALID_TIME_STRS:])]

    # ---------------------------------------------------------------- ops
    def op_new_doc(self):
        self.emit(["NewDoc"])

    def op_ns(self):
        c = self.pick_cref()
        rng = self.rng
        if rng.random() < 0.75:
            p, u = rng.choice(NS)
            self.emit(["AddNs", c, p, u])
        else:
            # usage discipline of C03 (inherited by every property): a scope's default
            # namespace, once set or adopted, is not re-bound to another URI
            cont = self.im.cont(c)
            cur = cont._namespaces._default
            u = cur.uri if cur is not None else rng.choice(DEFAULTS)
            self.emit(["SetDefault", c, u])

    def op_new_bundle(self):
        docs = [i for i in range(len(self.im.docs))]
        d = self.rng.choice(docs)
        n = self.name(["d", str(d)], ["b1", "b2", "bundle/3"])
        if self.rng.random() < 0.03:
            n = "none"
        self.emit(["NewBundle", str(d), n])

    FORMALS = None

    def formals(self, kind):
        import prov.model as M
        return [a.localpart for a in M.PROV_REC_CLS[I.CLS_OF[kind]].FORMAL_ATTRIBUTES]

    def formal_value(self, c, attr):
        if attr in ("time", "startTime", "endTime"):
            return self.time_value()
        return self.ref_value(c, attr)

    def op_new_record(self, kind=None, c=None, reuse_id=0.3):
        rng = self.rng
        c = c or self.pick_cref()
        if kind is None and rng.random() < 0.1:
            # a parallel relation: another kind, the same identifier and the same two endpoints as an existing one
            rels = [r for r in self.im.cont(c)._records if r.is_relation() and r.formal_attributes[0][1] is not None
                    and r.formal_attributes[1][1] is not None]
            if rels:
                r0 = rng.choice(rels)
                k2 = rng.choice([k for k in KINDS if k not in ELEMENTS and k != "Mention"])
                fa = self.formals(k2)
                q = r0.identifier
                ident = ["Q", q.namespace.prefix, q.namespace.uri, q.localpart] if q is not None else "none"
                attrs = []
                for a, (_, v) in zip(fa[:2], r0.formal_attributes[:2]):
                    attrs.append([["Q", "prov", PROV, a], ["qn", v.namespace.prefix, v.namespace.uri, v.localpart]])
                self.emit(["NewRecord", c, k2, ident, attrs])
                return
        kind = kind or rng.choice(KINDS)
        if kind in ELEMENTS or rng.random() < 0.5:
            e = self.existing_id(c) if rng.random() < reuse_id else None
            ident = e or self.name(c)
        else:
            ident = "none"
        attrs = []
        fa = self.formals(kind)
        for i, a in enumerate(fa):
            if i < 2 and kind not in ELEMENTS:
                present = rng.random() < 0.9
            else:
                present = rng.random() < 0.5
            if present:
                nm = ["Q", "prov", PROV, a] if rng.random() < 0.8 else ["S", "prov:" + a]
                attrs.append([nm, self.formal_value(c, a)])
        if rng.random() < 0.08 and fa and kind != "Membership":
            # malformed: wrong kind of value for a formal attribute
            attrs.append([["Q", "prov", PROV, rng.choice(fa)], rng.choice([["int", "5"], ["bool", "true"], "none"])])
        attrs += self.other_attrs(c)
        rng.shuffle(attrs)
        self.emit(["NewRecord", c, kind, ident, attrs])

    ELEM_METHODS = {"Entity": ["wasGeneratedBy", "wasInvalidatedBy", "wasDerivedFrom", "wasAttributedTo", "alternateOf",
                               "specializationOf", "hadMember"],
                    "Activity": ["used", "wasInformedBy", "wasStartedBy", "wasEndedBy", "wasAssociatedWith"],
                    "Agent": ["actedOnBehalfOf"]}

    def op_elem_method(self):
        """entity.wasGeneratedBy(...) and the like: a relation created through an element record"""
        import prov.model as M
        import inspect
        rng = self.rng
        rs = self.rrefs(["Entity", "Activity", "Agent"])
        if not rs:
            return self.op_new_record(rng.choice(ELEMENTS))
        r = rng.choice(rs)
        rec = self.im.rec(r)
        kind = I.KIND_OF[type(rec)]
        m = rng.choice(self.ELEM_METHODS[kind])
        sig = inspect.signature(getattr(type(rec), m)).parameters
        args = []
        for p_, prm in sig.items():
            if p_ in ("self", "attributes"):
                continue
            if prm.default is inspect.Parameter.empty or rng.random() < 0.5:
                args.append([p_, self.time_value() if p_ == "time" else self.ref_value(r[1], p_)])
        other = self.other_attrs(r[1]) if "attributes" in sig else []
        self.emit(["ElemMethod", r, m, args, other])

    def op_factory(self, c=None):
        import prov.model as M
        import inspect
        rng = self.rng
        if c is None and rng.random() < 0.15:
            return self.op_elem_method()
        c = c or self.pick_cref()
        names = ["entity", "activity", "generation", "usage", "start", "end", "invalidation", "communication", "agent",
                 "attribution", "association", "delegation", "influence", "derivation", "revision", "quotation",
                 "primary_source", "specialization", "alternate", "mention", "collection", "membership",
                 "wasGeneratedBy", "used", "wasDerivedFrom", "hadMember", "wasAssociatedWith"]
        f = rng.choice(names)
        meth = getattr(M.ProvBundle, f)
        params = [p for p in inspect.signature(meth).parameters if p not in ("self",)]
        args = []
        ident = "none"
        for i, p in enumerate(params):
            if p == "identifier":
                if f in ("entity", "activity", "agent", "collection") or rng.random() < 0.5:
                    ident = (self.existing_id(c) if rng.random() < 0.25 else None) or self.name(c)
                continue
            if p == "other_attributes":
                continue
            d = inspect.signature(meth).parameters[p].default
            required = d is inspect.Parameter.empty
            if required or rng.random() < 0.5:
                if p in ("time", "startTime", "endTime"):
                    args.append([p, self.time_value()])
                else:
                    args.append([p, self.ref_value(c, p)])
        other = self.other_attrs(c) if "other_attributes" in params else []
        self.emit(["Factory", c, f, ident, args, other])

    def op_add_attrs(self):
        rs = self.rrefs()
        if not rs:
            return self.op_new_record()
        rng = self.rng
        r = rng.choice(rs)
        rec = self.im.rec(r)
        c = r[1]
        attrs = self.other_attrs(c, n=rng.choice([1, 1, 2]))
        fa = self.formals(I.KIND_OF[type(rec)])
        if fa and rng.random() < 0.5:
            a = rng.choice(fa)
            keys = [k for k in rec._attributes if k.localpart == a and k.namespace.uri == PROV]
            cur = rec._attributes[keys[0]] if keys else None
            if cur and rng.random() < 0.5:
                v = I.sx_value(next(iter(cur)))          # re-adding the same value
                if v[0] == "time" and rng.random() < 0.3:
                    import prov.model as M
                    v = ["str", next(iter(cur)).isoformat()]
            else:
                v = self.formal_value(c, a)
            # prov:collection given as a QualifiedName object switches the single-value
            # guard off for the whole call (known finding C05-F1): spelled as a string here
            attrs.append([["S", "prov:" + a] if a == "collection" else ["Q", "prov", PROV, a], v])
        self.emit(["AddAttrs", r, attrs])

    def op_set_time(self):
        rs = self.rrefs(["Activity"]) or self.rrefs()
        if not rs:
            return self.op_new_record("Activity")
        r = self.rng.choice(rs)
        s = self.time_value() if self.rng.random() < 0.7 else "none"
        e = self.time_value() if self.rng.random() < 0.5 else "none"
        self.emit(["SetTime", r, s, e])

    def op_add_type(self):
        rs = self.rrefs()
        if not rs:
            return self.op_new_record()
        r = self.rng.choice(rs)
        rng = self.rng
        k = rng.random()
        if k < 0.4:
            v = ["qn", "prov", PROV, rng.choice(["Person", "Plan", "Collection", "Revision", "SoftwareAgent"])]
        else:
            v = self.value(r[1])
        self.emit(["AddType", r, v])

    def op_add_record(self):
        rs = self.rrefs()
        if not rs:
            return self.op_new_record()
        self.emit(["AddRecord", self.pick_cref(), self.rng.choice(rs)])

    def op_update(self):
        cs = self.crefs()
        a = self.rng.choice(cs)
        b = self.rng.choice(cs)
        self.emit(["Update", a, b])

    def op_add_bundle_doc(self):
        n = len(self.im.docs)
        if n < 2:
            return self.op_new_doc()
        d = self.rng.randrange(n)
        s = self.rng.randrange(n)
        if s == d:
            s = (s + 1) % n
        ident = self.name(["d", str(d)], ["b1", "b2", "b9"]) if self.rng.random() < 0.93 else "none"
        order = [x.prefix for x in self.im.docs[s].namespaces]
        self.emit(["AddBundleDoc", str(d), str(s), ident, order])

    def op_derive(self):
        n = len(self.im.docs)
        d = self.rng.randrange(n)
        k = self.rng.random()
        if k < 0.4:
            self.emit(["Unified", str(d)])
        elif k < 0.7:
            self.emit(["Flattened", str(d)])
        else:
            self.emit(["DocFromRecords", self.pick_cref()])

    def op_get(self):
        c = self.pick_cref()
        k = self.rng.random()
        if k < 0.6:
            e = self.existing_id(c)
            if self.rng.random() < 0.3:
                # an identifier of a sibling container (the enclosing document, another bundle): absent here
                sib = self.rng.choice([x for x in self.crefs() if x[1] == c[1]])
                e = self.existing_id(sib) or e
            arg = e if (e is not None and self.rng.random() < 0.8) else self.name(c)
            if self.rng.random() < 0.03:
                arg = "none"
            self.emit(["GetRecord", c, arg])
        else:
            cls = "none" if self.rng.random() < 0.2 else ["cls", self.rng.choice(CLASSES)]
            self.emit(["GetRecords", c, cls])

    def op_eq(self):
        cs = self.crefs()
        a, b = self.rng.choice(cs), self.rng.choice(cs)
        if self.rng.random() < 0.5:
            self.emit(["Eq", a, b])
        else:
            rs = self.rrefs()
            if len(rs) >= 1:
                self.emit(["EqRec", self.rng.choice(rs), self.rng.choice(rs)])

    def op_json(self):
        n = len(self.im.docs)
        d = self.rng.randrange(n)
        ob = self.emit(["ExportJson", str(d)])
        if isinstance(ob, list) and ob and ob[0] == "obj" and self.rng.random() < 0.8:
            self.emit(["LoadJson", ob])

    def op_provn(self):
        self.emit(["ExportProvn", str(self.rng.randrange(len(self.im.docs)))])

    def op_graph(self):
        cands = [i for i, d in enumerate(self.im.docs) if not d._bundles] or [0]
        d = self.rng.choice(cands)
        if self.rng.random() < 0.6:
            self.emit(["ToGraph", str(d)])
        else:
            self.emit(["GraphRoundTrip", str(d)])

    PROFILES = {
        #            ns  bundle newrec factory addattr settime addtype addrec update addbdoc derive get  eq  newdoc
        "records": [10, 4, 30, 30, 22, 6, 6, 2, 0, 0, 0, 3, 2, 1, 0, 0, 0],
        "merge":   [8, 8, 22, 12, 6, 1, 2, 8, 10, 6, 10, 8, 3, 5, 0, 0, 0],
        "mixed":   [8, 5, 22, 16, 10, 3, 3, 5, 5, 3, 6, 6, 4, 3, 0, 0, 0],
        "json":    [10, 7, 26, 18, 10, 2, 4, 3, 3, 2, 2, 1, 1, 2, 9, 0, 0],
        "provn":   [10, 7, 26, 18, 10, 2, 4, 3, 3, 2, 2, 1, 1, 2, 0, 9, 0],
        "graph":   [8, 0, 26, 30, 8, 2, 3, 3, 2, 0, 2, 1, 1, 2, 0, 0, 10],
    }

    def run(self, n_ops):
        fns = [self.op_ns, self.op_new_bundle, self.op_new_record, self.op_factory, self.op_add_attrs, self.op_set_time,
               self.op_add_type, self.op_add_record, self.op_update, self.op_add_bundle_doc, self.op_derive, self.op_get,
               self.op_eq, self.op_new_doc, self.op_json, self.op_provn, self.op_graph]
        weights = self.PROFILES[self.profile]
        self.op_new_doc()
        # a typical preamble: a couple of declared namespaces
        for _ in range(self.rng.choice([0, 1, 2, 2])):
            p, u = self.rng.choice(NS)
            self.emit(["AddNs", ["d", "0"], p, u])
        if self.rng.random() < 0.3:
            self.emit(["SetDefault", ["d", "0"], self.rng.choice(DEFAULTS)])
        for _ in range(n_ops):
            f = self.rng.choices(fns, weights=weights)[0]
            f()
        return self.ops, self.obs


def generate(seed, n_ops, profile="mixed", observe_each=True):
    rng = random.Random(seed)
    g = Gen(rng, profile)
    g.observe_each = observe_each
    return g.run(n_ops)


def string_sweep(alphabet, maxlen):
    """all strings over the alphabet up to the length (the systematic family for the escaping functions)"""
    out, layer = [""], [""]
    for _ in range(maxlen):
        layer = [x + c for x in layer for c in alphabet]
        out.extend(layer)
    return out


def string_sweep_programs(strings, per_prog=60, export=("ExportProvn",)):
    """programs that put every string of the family on an entity as a plain value and as a language-tagged label, then export"""
    progs_ = []
    for i in range(0, len(strings), per_prog):
        ops = [["NewDoc"], ["AddNs", ["d", "0"], "ex", "http://example.org/"]]
        for j, st in enumerate(strings[i:i + per_prog]):
            ops.append(["NewRecord", ["d", "0"], "Entity", ["S", "ex:s%d" % j],
                        [[["S", "ex:k"], ["str", st]], [["S", "prov:label"], ["lit", st, "none", ["some", "en"]]]]])
        for e in export:
            ops.append([e, "0"])
        progs_.append(ops)
    return progs_


def scoping_programs(export=("ExportJson", "ExportProvn")):
    """fixed programs: bundles that bind a prefix (or a default namespace) of their document to another URI *before* using it,
    so that every name is valid and unambiguous in its own scope but the two scopes differ"""
    U1, U2, U3 = "http://example.org/one/", "http://example.org/two/", "http://example.org/three/"
    D1, D2 = "http://default.test/", "http://d2.test/"
    out = []
    for doc_default in (None, D1):
        for bundle_default in (None, D2):
            for rebinding in (True, False):
                b = ["b", "0", "0"]
                p = [["NewDoc"], ["AddNs", ["d", "0"], "ex", U1], ["AddNs", ["d", "0"], "other", U3]]
                if doc_default:
                    p.append(["SetDefault", ["d", "0"], doc_default])
                p.append(["NewBundle", "0", ["S", "other:b"]])
                if rebinding:
                    p.append(["AddNs", b, "ex", U2])
                if bundle_default:
                    p.append(["SetDefault", b, bundle_default])
                p.append(["NewRecord", ["d", "0"], "Entity", ["S", "ex:e1"], [[["S", "ex:k"], ["qn", "ex", U1, "v"]]]])
                p.append(["NewRecord", b, "Entity", ["S", "ex:e1"],
                          [[["S", "ex:k"], ["qn", "ex", U2 if rebinding else U1, "v"]], [["S", "prov:type"], ["qn", "other", U3, "T"]]]])
                p.append(["NewRecord", b, "Activity", ["S", "ex:a1"], []])
                p.append(["NewRecord", b, "Generation", "none",
                          [[["Q", "prov", PROV, "entity"], ["str", "ex:e1"]], [["Q", "prov", PROV, "activity"], ["str", "ex:a1"]]]])
                # a mention inside the bundle: all three of its names (the bundle argument too) are names of the bundle's scope
                p.append(["NewRecord", b, "Mention", "none",
                          [[["Q", "prov", PROV, "specificEntity"], ["str", "ex:e1"]], [["Q", "prov", PROV, "generalEntity"], ["str", "ex:e0"]],
                           [["Q", "prov", PROV, "bundle"], ["str", "ex:bb"]]]])
                if doc_default:
                    p.append(["NewRecord", ["d", "0"], "Entity", ["S", "bare1"], []])
                if doc_default or bundle_default:
                    p.append(["NewRecord", b, "Entity", ["S", "bare2"], [[["S", "ex:k"], ["str", "x"]]]])
                    p.append(["NewRecord", b, "Mention", "none",
                              [[["Q", "prov", PROV, "specificEntity"], ["str", "bare2"]], [["Q", "prov", PROV, "generalEntity"], ["str", "ex:e0"]],
                               [["Q", "prov", PROV, "bundle"], ["str", "bareb"]]]])
                for e in export:
                    p.append([e, "0"])
                out.append(p)
                if rebinding or bundle_default:
                    # a later sibling that declares nothing: its names resolve through the document, not through the
                    # declarations of the bundle written before it
                    q = [op for op in p if op[0] not in export]
                    b2 = ["b", "0", "1"]
                    q.append(["NewBundle", "0", ["S", "other:b2"]])
                    q.append(["NewRecord", b2, "Entity", ["S", "ex:e2"], [[["S", "prov:type"], ["qn", "other", U3, "Kind"]], [["S", "ex:k"], ["qn", "ex", U1, "v2"]]]])
                    q.append(["NewRecord", b2, "Agent", ["S", "ex:ag2"], []])
                    q.append(["NewRecord", b2, "Attribution", "none",
                              [[["Q", "prov", PROV, "entity"], ["str", "ex:e2"]], [["Q", "prov", PROV, "agent"], ["str", "ex:ag2"]]]])
                    if doc_default:
                        q.append(["NewRecord", b2, "Entity", ["S", "bare3"], []])
                    for e in export:
                        q.append([e, "0"])
                    out.append(q)
    # a reserved prefix (prov, xsd, xsi) asked for with another URI — explicitly, and through a qualified name of such a
    # namespace — in a document and in a bundle, next to values whose printed form mentions the built-in namespaces
    # (typed literals, booleans, times, prov:type): the built-in bindings must stay what they are
    XSDNOHASH = "http://www.w3.org/2001/XMLSchema"
    for where in ("doc", "bundle"):
        for how in ("explicit", "implicit"):
            for pfx, uri in (("xsd", XSDNOHASH), ("prov", "http://example.org/prov/"), ("xsi", "http://example.org/xsi#")):
                c = ["d", "0"] if where == "doc" else ["b", "0", "0"]
                p = [["NewDoc"], ["AddNs", ["d", "0"], "ex", U1], ["NewBundle", "0", ["S", "ex:b"]]]
                if how == "explicit":
                    p.append(["AddNs", c, pfx, uri])
                vals = [[["S", "ex:f"], ["float", "2.5", "none", "2.5"]], [["S", "ex:b"], ["bool", "true"]],
                        [["S", "ex:t"], ["time", "2012", "3", "31", "9", "21", "0", "0", "none"]], [["S", "ex:u"], ["id", "http://u.test/x"]],
                        [["S", "prov:type"], ["qn", "prov", PROV, "Person"]], [["S", "ex:l"], ["lit", "tok", ["qn", "xsd", XSD, "token"], "none"]]]
                if how == "implicit":
                    vals.append([["Q", pfx, uri, "attr"], ["qn", pfx, uri, "val"]])
                # names in namespaces whose URI merely begins like the XML Schema namespace: a look-alike, and (in the xsi
                # programs only: finding C06-F4 lives there) xsi itself
                if pfx == "xsi":
                    vals.append([["S", "ex:nil"], ["qn", "xsi", "http://www.w3.org/2001/XMLSchema-instance", "nil"]])
                vals.append([["Q", "xsdt", "http://www.w3.org/2001/XMLSchema-datatypes#", "unit"],
                             ["lit", "5", ["qn", "xsdt", "http://www.w3.org/2001/XMLSchema-datatypes#", "cm"], "none"]])
                p.append(["NewRecord", c, "Agent", ["S", "ex:ag"], vals])
                p.append(["NewRecord", ["d", "0"], "Entity", ["S", "ex:e"], vals[:4]])
                for e in export:
                    p.append([e, "0"])
                out.append(p)
    return out


def value_grid_programs(export=("ExportJson", "ExportProvn")):
    """fixed programs: the systematic family attribute class x value kind x scope — one record with one attribute each,
    on an element and on an identified relation, at document level (with and without a default namespace) and in a
    bundle with its own default namespace"""
    D1, D2, EXU, ZZ = "http://default.test/", "http://d2.test/", "http://example.org/", "http://zz.test/"
    XSDU = "http://www.w3.org/2001/XMLSchema#"

    def values(dflt):
        vs = [["str", x] for x in ["", "plain", "prov:Person", "  x ", "a\nb", "ünï \U0001F600", "1", "true"]]
        vs += [["int", x] for x in ["0", "-5", str(2 ** 70)]]
        vs += [["bool", "true"], ["bool", "false"]]
        vs += [I.sx_value(x) for x in [0.5, 1e300, -0.0]]
        vs += [["time"] + list(t) for t in TIMES[:3]]
        vs += [["id", x] for x in ["http://u/x", "prov:weird", "urn:x", "xsd:int"]]
        vs += [["qn", "ex", EXU, "v"], ["qn", "prov", PROV, "Person"], ["qn", "xsd", XSDU, "int"], ["qn", "zz", ZZ, "q"]]
        vs += [["lit", "hi", "none", ["some", "en"]], ["lit", "", "none", ["some", "fr-CA"]]]
        vs += [["lit", "x", ["qn", "ex", EXU, "T"], "none"], ["lit", "x", ["qn", "zz", ZZ, "T"], "none"],
               ["lit", "tok", ["qn", "xsd", XSDU, "token"], "none"], ["lit", "5", ["qn", "xsd", XSDU, "int"], "none"],
               ["lit", "abc", ["qn", "xsd", XSDU, "dateTime"], "none"], ["lit", "yes", ["qn", "xsd", XSDU, "boolean"], "none"],
               ["lit", "0.5", ["qn", "xsd", XSDU, "double"], "none"], ["lit", "http://u/y", ["qn", "xsd", XSDU, "anyURI"], "none"],
               ["lit", "", ["qn", "xsd", XSDU, "string"], "none"], ["lit", "", ["qn", "xsd", XSDU, "anyURI"], "none"],
               ["lit", "x", ["qn", "xsd", XSDU, "string"], "none"]]
        if dflt:
            vs += [["qn", "", dflt, "dv"], ["lit", "x", ["qn", "", dflt, "DT"], "none"]]
        return vs

    def attrs(dflt, relation):
        out = [["S", "ex:k"], ["Q", "prov", PROV, "type"], ["S", "prov:location"], ["Q", "prov", PROV, "label"]]
        out.append(["Q", "prov", PROV, "role"] if relation else ["Q", "prov", PROV, "value"])
        if dflt:
            out.append(["Q", "", dflt, "dk"])
        return out
    progs_ = []
    for ctx in ("plain", "default", "bundle"):
        for relation in (False, True):
            dflt = None if ctx == "plain" else (D1 if ctx == "default" else D2)
            for a in attrs(dflt, relation):
                head = [["NewDoc"], ["AddNs", ["d", "0"], "ex", EXU]]
                if ctx != "plain":
                    head.append(["SetDefault", ["d", "0"], D1])
                c = ["d", "0"]
                if ctx == "bundle":
                    head += [["NewBundle", "0", ["S", "ex:b"]], ["SetDefault", ["b", "0", "0"], D2]]
                    c = ["b", "0", "0"]
                ops = list(head)
                for i, v in enumerate(values(dflt)):
                    if relation:
                        ops.append(["NewRecord", c, "Usage", ["S", "ex:u%d" % i],
                                    [[["Q", "prov", PROV, "activity"], ["str", "ex:a"]], [["Q", "prov", PROV, "entity"], ["str", "ex:e"]],
                                     [a, v]]])
                    else:
                        ops.append(["NewRecord", c, "Entity", ["S", "ex:e%d" % i], [[a, v]]])
                for e in export:
                    ops.append([e, "0"])
                progs_.append(ops)
    return progs_


def subtype_programs(export=("ExportJson", "ExportProvn")):
    """fixed programs: records typed with PROV subtype names — one, two or three subtypes of the record's own base kind,
    subtypes of another base kind, a subtype next to a custom type"""
    EXU = "http://example.org/"
    fam = {"Agent": ["Person", "Organization", "SoftwareAgent"], "Entity": ["Plan", "Collection", "EmptyCollection", "Bundle"],
           "Derivation": ["Revision", "Quotation", "PrimarySource"]}
    ops = [["NewDoc"], ["AddNs", ["d", "0"], "ex", EXU]]
    n = 0

    def rec(kind, types, extra=()):
        nonlocal n
        n += 1
        attrs = [[["Q", "prov", PROV, "type"], ["qn", "prov", PROV, t]] for t in types]
        attrs += [[["Q", "prov", PROV, "type"], v] for v in extra]
        if kind == "Derivation":
            attrs += [[["Q", "prov", PROV, "generatedEntity"], ["str", "ex:e1"]], [["Q", "prov", PROV, "usedEntity"], ["str", "ex:e2"]]]
        ops.append(["NewRecord", ["d", "0"], kind, ["S", "ex:r%d" % n], attrs])
    for kind, subs in fam.items():
        for i in range(len(subs)):
            rec(kind, [subs[i]])
            rec(kind, [subs[i], subs[(i + 1) % len(subs)]])
            rec(kind, [subs[i]], extra=[["qn", "ex", EXU, "Custom"]])
            rec(kind, [subs[i]], extra=[["str", "prov:" + subs[i]]])
            rec(kind, [], extra=[["id", PROV + subs[i]]])
            rec(kind, [subs[i]], extra=[["id", PROV + subs[i]]])
        rec(kind, subs)
        other = [t for k2, ss in fam.items() if k2 != kind for t in ss]
        for t in other[:4]:
            rec(kind, [t])
            rec(kind, [subs[0], t])
    rec("Activity", ["Person"])
    rec("Activity", ["Plan", "Revision"])
    # a record typed with the PROV class of its own kind, alone and next to a genuine subtype
    for kind, subs in list(fam.items()) + [("Activity", []), ("Usage", [])]:
        if kind in ("Derivation", "Usage"):
            continue
        rec(kind, [kind])
        rec(kind, [kind] + subs[:1])
        rec(kind, [], extra=[["str", "prov:" + kind]])
    for e in export:
        ops.append([e, "0"])
    return [ops] + foreign_formal_programs(export)


def foreign_formal_programs(export=("ExportJson", "ExportProvn")):
    """fixed program: records holding, as an ordinary attribute, a PROV attribute name that is formal for other kinds only
    (prov:time on an association, prov:activity on an entity, prov:plan on a generation, prov:entity on an agent ...), in
    a document and in a bundle: every export must carry the pair"""
    EXU = "http://example.org/"
    t = ["time", "2012", "3", "31", "9", "21", "0", "0", "none"]

    def q(l):
        return ["Q", "prov", PROV, l]
    recs = [("Association", "ex:as", [[q("activity"), ["str", "ex:a"]], [q("agent"), ["str", "ex:ag"]], [q("time"), t]]),
            ("Influence", "ex:inf", [[q("influencee"), ["str", "ex:e"]], [q("influencer"), ["str", "ex:a"]], [q("activity"), ["str", "ex:a2"]]]),
            ("Agent", "ex:ag", [[q("entity"), ["str", "ex:e"]], [["S", "ex:k"], ["int", "1"]], [q("time"), t]]),
            ("Entity", "ex:e", [[q("agent"), ["str", "ex:ag"]], [q("startTime"), t], [q("activity"), ["str", "ex:a1"]]]),
            ("Activity", "ex:a", [[q("entity"), ["str", "ex:e"]], [q("time"), t], [q("plan"), ["str", "ex:p"]]]),
            ("Generation", "ex:g", [[q("entity"), ["str", "ex:e"]], [q("activity"), ["str", "ex:a"]], [q("plan"), ["str", "ex:p1"]], [q("agent"), ["str", "ex:ag"]]]),
            ("Usage", "none", [[q("activity"), ["str", "ex:a"]], [q("entity"), ["str", "ex:e"]], [q("plan"), ["str", "ex:p"]], [q("endTime"), t]])]
    p = [["NewDoc"], ["AddNs", ["d", "0"], "ex", EXU], ["NewBundle", "0", ["S", "ex:b"]]]
    for kind, ident, attrs in recs:
        p.append(["NewRecord", ["d", "0"], kind, "none" if ident == "none" else ["S", ident], attrs])
        p.append(["NewRecord", ["b", "0", "0"], kind, "none" if ident == "none" else ["S", ident], attrs])
    for e in export:
        p.append([e, "0"])
    return [p]



def same_text_programs(export=("ExportJson",), derive=False, memberships=False):
    """fixed programs for order dependence: one attribute holding several values that print alike but are different values
    (2 / "2", True / "True", 2.5 / "2.5", a qualified name / the string spelling it, a URI as xsd:anyURI / as a string /
    as a qualified name) with other values between them, and memberships listing several members given in non-sorted
    order — in several variants (other texts, other insertion orders), because which order a set iterates in depends on
    the values and on PYTHONHASHSEED; exported (each export twice, in two sequences), optionally followed by every
    deriving call"""
    EXU = "http://example.org/"
    out = []
    variants = [("2", "beta", "Person", "home", ["e3", "e1", "e2"]), ("3", "gamma", "Employee", "index", ["m2", "m9", "m1", "m5"]),
                ("7", "x", "Org", "a", ["b", "a"]), ("12", "checked twice", "T", "page/1", ["z", "y", "x", "w", "v"]),
                ("40", "q", "Kind", "p", ["e1", "e10", "e2"])]
    for vi, (num, word, ty, page, members) in enumerate(variants):
        U = EXU + page
        for rev in (False, True):
            def o(l):
                return list(reversed(l)) if rev else l
            k = ["S", "ex:k"]
            recs = [
                ["NewRecord", ["d", "0"], "Entity", ["S", "ex:e1"], [[k, v] for v in o([["str", num], ["int", num], ["str", word]])]],
                ["NewRecord", ["d", "0"], "Agent", ["S", "ex:ag"],
                 [[["S", "prov:type"], v] for v in o([["qn", "ex", EXU, ty], ["str", "ex:" + ty], ["qn", "ex", EXU, ty + "2"], ["str", "staff"]])]],
                ["NewRecord", ["d", "0"], "Activity", ["S", "ex:a1"],
                 [[k, v] for v in o([["bool", "true"], ["str", "True"], ["str", word], ["str", "signed off"]])]],
                ["NewRecord", ["d", "0"], "Entity", ["S", "ex:ref"], [[k, v] for v in o([["str", U], ["id", U], ["qn", "ex", EXU, page]])]],
                ["NewBundle", "0", ["S", "ex:b"]],
                ["NewRecord", ["b", "0", "0"], "Entity", ["S", "ex:page"],
                 [[k, v] for v in o([["id", U], ["str", U], ["str", "mirror"], ["float", "2.5", "none", "2.5"], ["str", "2.5"]])]],
                ["NewRecord", ["b", "0", "0"], "Membership", "none",
                 [[["Q", "prov", PROV, "collection"], ["qn", "ex", EXU, "c"]]] + [[["Q", "prov", PROV, "entity"], ["qn", "ex", EXU, m]] for m in members]],
                ["NewRecord", ["d", "0"], "Membership", ["S", "ex:mm"],
                 [[["Q", "prov", PROV, "collection"], ["qn", "ex", EXU, "c2"]]] + [[["Q", "prov", PROV, "entity"], ["qn", "ex", EXU, m]] for m in reversed(members)]],
            ]
            if memberships:
                # four members given in reverse of their sorted order: a set of four sits in an eight-slot table, two of
                # them collide under most hash seeds, and then the iteration order records the insertion order
                for gi, ms in enumerate((["d", "c", "b", "a"], ["vol9", "vol7", "vol3", "vol1"], ["zebra", "quail", "mole", "apple"],
                                         ["t4", "t3", "t2", "t1"], ["p" + num, "o" + num, "n" + num, "m" + num])):
                    recs.append(["NewRecord", ["d", "0"], "Membership", "none",
                                 [[["Q", "prov", PROV, "collection"], ["qn", "ex", EXU, "coll%d" % gi]]] +
                                 [[["Q", "prov", PROV, "entity"], ["qn", "ex", EXU, m]] for m in o(ms)]])
            else:
                # (a membership listing several members is the compatibility path no property but C12 / C13 speaks about)
                recs = [r for r in recs if r[2] != "Membership"]
            p = [["NewDoc"], ["AddNs", ["d", "0"], "ex", EXU]] + recs
            # (no export at all inside the program when none is asked for: C13's oracle makes every export itself, twice,
            # and must find the document as the calls left it)
            seq = (list(export) + ["ExportProvn"] + list(export) + ["ToGraph"] + list(export)) if export else []
            for e in seq:
                p.append([e, "0"])
            if derive:
                p += [["Flattened", "0"], ["Unified", "0"], ["DocFromRecords", ["d", "0"]], ["DocFromRecords", ["b", "0", "0"]],
                      ["NewDoc"], ["Update", ["d", "5"], ["d", "0"]], ["Update", ["d", "5"], ["d", "0"]],
                      ["NewDoc"], ["NewDoc"], ["Update", ["d", "7"], ["b", "0", "0"]], ["AddNs", ["d", "6"], "ex", EXU],
                      ["AddBundleDoc", "6", "7", ["S", "ex:attached"], ["ex"]]]
                for e in export:
                    for h in ("1", "2", "3", "5", "6"):
                        p.append([e, h])
            out.append(p)
    return out

def without_exports(ops):
    """the program without its export and observation calls — cut off before the first call that appends a document and
    is left out here (LoadJson, GraphRoundTrip): later calls name documents by their number"""
    out = []
    for o in ops:
        if o[0] in ("LoadJson", "GraphRoundTrip"):
            break
        if o[0] not in ("ExportJson", "ExportProvn", "ToGraph", "ObserveAll"):
            out.append(o)
    return out


def equal_values_programs(export=("ExportJson", "ExportProvn")):
    """fixed programs about what an earlier export may leave behind: (1) values that compare equal in Python but are
    different values (True / 1 / 1.0, False / 0 / 0.0, the same instant in two zones, a URI and the qualified name of that
    URI), each in a document of its own, exported one after the other in one process, in two orders; (2) a record exported,
    then changed in place by set_time / add_attributes / add_asserted_type (none of which adds a record), then exported
    again"""
    EXU = "http://example.org/"
    vals = [["bool", "true"], ["int", "1"], ["float", "1.0", "1", "1"], ["bool", "false"], ["int", "0"], ["float", "0.0", "0", "0"],
            ["time", "2012", "3", "31", "9", "21", "0", "0", "0"], ["time", "2012", "3", "31", "11", "21", "0", "0", "120"],
            ["id", EXU + "a"], ["qn", "ex", EXU, "a"], ["str", "1"], ["str", "true"]]
    out = []
    for order in (list(range(len(vals))), list(reversed(range(len(vals))))):
        p = []
        for i, j in enumerate(order):
            p += [["NewDoc"], ["AddNs", ["d", str(i)], "ex", EXU],
                  ["NewRecord", ["d", str(i)], "Entity", ["S", "ex:e"], [[["S", "ex:k"], vals[j]], [["S", "prov:value"], vals[j]]]]]
            for e in export:
                p.append([e, str(i)])
        out.append(p)
    t1 = ["time", "2012", "3", "31", "9", "21", "0", "0", "none"]
    t2 = ["time", "2013", "4", "1", "10", "22", "0", "0", "none"]
    for in_bundle in (False, True):
        c = ["b", "0", "0"] if in_bundle else ["d", "0"]
        p = [["NewDoc"], ["AddNs", ["d", "0"], "ex", EXU]]
        if in_bundle:
            p.append(["NewBundle", "0", ["S", "ex:b"]])
        p += [["NewRecord", c, "Activity", ["S", "ex:a"], []], ["NewRecord", c, "Activity", ["S", "ex:a2"], [[["Q", "prov", PROV, "startTime"], t1]]],
              ["NewRecord", c, "Entity", ["S", "ex:e"], [[["S", "ex:k"], ["int", "1"]]]]]
        for change in ([["SetTime", ["r", c, "0"], t1, "none"]], [["SetTime", ["r", c, "0"], "none", t2]], [["SetTime", ["r", c, "1"], t2, t2]],
                       [["AddAttrs", ["r", c, "2"], [[["S", "ex:k"], ["int", "2"]]]]], [["AddType", ["r", c, "2"], ["qn", "ex", EXU, "T"]]]):
            for e in export:
                p.append([e, "0"])
            p += change
        for e in export:
            p.append([e, "0"])
        out.append(p)
    return out
