"""Shared machinery of the checks: build of the Coq development against the
current /repo, execution of the extracted model, evidence and replay files."""
import fcntl
import glob
import json
import os
import re
import subprocess
import sys
import time

VERIF = os.path.dirname(os.path.dirname(os.path.abspath(__file__)))
REPO = os.environ.get("PROV_REPO", "/repo")
REPO_SRC = os.path.join(REPO, "src")
PY = "/venv/bin/python"
COQ = os.path.join(VERIF, "coq")
WORK = os.path.join(VERIF, "work")
BIN = os.path.join(VERIF, "bin")
DRIVER = os.path.join(BIN, "model_driver")
NCPU = min(16, os.cpu_count() or 4)

FORBIDDEN = re.compile(
    r"\b(Admitted|admit|Axiom|Axioms|Parameter|Parameters|Conjecture|Admit Obligations|"
    r"bypass_check|Unset Guard Checking|Unset Positivity Checking|Unset Universe Checking|"
    r"type-in-type|impredicative-set)\b")
STATEMENT = re.compile(r"^\s*(Theorem|Lemma|Corollary|Example|Fact|Proposition|Remark)\s+(\w+)", re.M)


def impl_env(extra=None):
    env = dict(os.environ)
    env["PYTHONPATH"] = REPO_SRC + os.pathsep + VERIF
    env["PYTHONHASHSEED"] = env.get("VERIF_HASHSEED", "0")
    env["PROV_SRC"] = REPO_SRC
    env["PYTHONDONTWRITEBYTECODE"] = "1"
    env["PROV_VERIF"] = "1"
    if extra:
        env.update(extra)
    return env


def sh(cmd, timeout, cwd=None, env=None, inp=None):
    """Run a command; returns (rc, combined output).  rc 124 on timeout."""
    try:
        p = subprocess.run(cmd, cwd=cwd, env=env, input=inp, timeout=timeout,
                           stdout=subprocess.PIPE, stderr=subprocess.STDOUT,
                           shell=isinstance(cmd, str), text=True)
        out = "\n".join(l for l in p.stdout.split("\n") if "conda.cli.condarc" not in l)
        return p.returncode, out
    except subprocess.TimeoutExpired as e:
        return 124, "TIMEOUT after %ss: %s" % (timeout, cmd)


class Lock:
    def __enter__(self):
        os.makedirs(WORK, exist_ok=True)
        self.f = open(os.path.join(WORK, ".lock"), "w")
        fcntl.flock(self.f, fcntl.LOCK_EX)
        return self

    def __exit__(self, *a):
        fcntl.flock(self.f, fcntl.LOCK_UN)
        self.f.close()


def coq_sources():
    return sorted(glob.glob(os.path.join(COQ, "theories", "*.v")) +
                  glob.glob(os.path.join(COQ, "properties", "*.v")))


def scan_forbidden():
    hits = []
    for p in coq_sources():
        txt = open(p).read()
        # strip comments (non-nested is enough for our sources; nested handled by loop)
        prev = None
        while prev != txt:
            prev = txt
            txt = re.sub(r"\(\*[^()]*?\*\)", "", txt, flags=re.S)
            txt = re.sub(r"\(\*(?:(?!\(\*|\*\)).)*\*\)", "", txt, flags=re.S)
        for m in FORBIDDEN.finditer(txt):
            hits.append("%s: %s" % (os.path.relpath(p, VERIF), m.group(0)))
        # Variable/Hypothesis/Context outside a Section
        depth = 0
        for line in txt.split("\n"):
            s = line.strip()
            if re.match(r"Section\s+\w+", s):
                depth += 1
            elif re.match(r"End\s+\w+\s*\.", s) and depth > 0:
                depth -= 1
            elif depth == 0 and re.match(r"(Variable|Variables|Hypothesis|Hypotheses)\b", s):
                hits.append("%s: %s outside Section" % (os.path.relpath(p, VERIF), s[:40]))
    return hits


def gen_tables():
    rc, out = sh([PY, os.path.join(VERIF, "harness", "gen_tables.py"),
                  os.path.join(COQ, "gen", "Tables.v")], 120, env=impl_env())
    return rc == 0, out


def ensure_makefile():
    mk = os.path.join(COQ, "Makefile")
    cp = os.path.join(COQ, "_CoqProject")
    if not os.path.exists(mk) or os.path.getmtime(mk) < os.path.getmtime(cp):
        rc, out = sh("coq_makefile -f _CoqProject -o Makefile", 120, cwd=COQ)
        if rc != 0:
            return False, out
    return True, ""


def make(targets, timeout=1500):
    """make the given .vo targets (relative to coq/).  Returns (ok, output)."""
    rc, out = sh(["make", "-j%d" % NCPU] + list(targets), timeout, cwd=COQ)
    return rc == 0, out


def first_coq_error(out):
    m = re.search(r'File "\./([^"]+)", line (\d+), characters [\d-]+:\s*\n(Error:.*?)(?:\n\n|\nmake)', out, re.S)
    if m:
        return {"file": m.group(1), "line": int(m.group(2)), "error": m.group(3)[:600]}
    return {"file": None, "line": None, "error": out[-800:]}


def extract_and_compile():
    """Re-extract the model and rebuild bin/model_driver when anything it depends
    on is newer than the binary."""
    vos = glob.glob(os.path.join(COQ, "theories", "*.vo")) + glob.glob(os.path.join(COQ, "gen", "*.vo"))
    srcs = vos + [os.path.join(VERIF, "ocaml", "driver.ml")]
    if os.path.exists(DRIVER) and all(os.path.getmtime(s) <= os.path.getmtime(DRIVER) for s in srcs):
        return True, "driver up to date"
    ex = os.path.join(COQ, "extract")
    os.makedirs(ex, exist_ok=True)
    os.makedirs(BIN, exist_ok=True)
    rc, out = sh(["coqc", "-Q", "../gen", "Prov", "-Q", "../theories", "Prov", "../theories/Extract.v"],
                 600, cwd=ex)
    for junk in ("Extract.vo", "Extract.glob", "Extract.vok", "Extract.vos", ".Extract.aux"):
        try:
            os.remove(os.path.join(COQ, "theories", junk))
        except OSError:
            pass
    if rc != 0:
        return False, out
    os.makedirs(WORK, exist_ok=True)
    bdir = os.path.join(WORK, "ocaml")
    os.makedirs(bdir, exist_ok=True)
    for f in ("model.ml", "model.mli"):
        subprocess.run(["cp", os.path.join(ex, f), bdir])
    subprocess.run(["cp", os.path.join(VERIF, "ocaml", "driver.ml"), bdir])
    rc, out2 = sh("ocamlfind ocamlopt -O2 -w -a model.mli model.ml driver.ml -o model_driver.new",
                  900, cwd=bdir)
    if rc != 0:
        return False, out + out2
    os.replace(os.path.join(bdir, "model_driver.new"), DRIVER)
    return True, out + out2


def cone_of(prop_file):
    """Project .v files the property file depends on (transitively), by coqdep."""
    rc, out = sh("coqdep -f _CoqProject 2>/dev/null", 120, cwd=COQ)
    deps = {}
    for line in out.split("\n"):
        if ":" not in line:
            continue
        lhs, rhs = line.split(":", 1)
        tgt = [t for t in lhs.split() if t.endswith(".vo")]
        if not tgt:
            continue
        deps[tgt[0]] = [d for d in rhs.split() if d.endswith(".vo")]
    start = prop_file[:-2] + ".vo" if prop_file.endswith(".v") else prop_file
    seen, todo = [], [start]
    while todo:
        x = todo.pop()
        if x in seen:
            continue
        seen.append(x)
        todo.extend(d for d in deps.get(x, []) if not d.startswith("/"))
    return sorted(s[:-3] + ".v" for s in seen)


def count_statements(files):
    n = 0
    names = []
    for f in files:
        p = os.path.join(COQ, f)
        if os.path.exists(p):
            for m in STATEMENT.finditer(open(p).read()):
                n += 1
                names.append(m.group(2))
    return n, names


def check_property_file(prop):
    """Compile properties/<prop>.v afresh and return (ok, info) where info has the
    Print Assumptions output per theorem."""
    rel = "properties/%s.v" % prop
    path = os.path.join(COQ, rel)
    if not os.path.exists(path):
        return False, {"error": "missing " + rel}
    rc, out = sh(["coqc", "-Q", "gen", "Prov", "-Q", "theories", "Prov", "-Q", "properties", "Prov", rel],
                 900, cwd=COQ)
    info = {"coqc_rc": rc, "output_tail": out[-3000:]}
    if rc != 0:
        info["error"] = first_coq_error(out)
        return False, info
    # Print Assumptions output blocks
    closed = out.count("Closed under the global context")
    axioms = []
    for m in re.finditer(r"^Axioms:\n((?:.+\n?)+?)(?:\n|$)", out, re.M):
        axioms.append(m.group(1).strip())
    info["closed_under_global_context"] = closed
    info["axiom_blocks"] = axioms
    txt = open(path).read()
    info["print_assumptions_requested"] = len(re.findall(r"^\s*Print Assumptions\s+\w+", txt, re.M))
    return True, info


def build_for(prop, log):
    """Steps A and B of a check.  Returns dict(ok, stage, detail)."""
    with Lock():
        ok, out = gen_tables()
        log("gen_tables: " + out.strip()[-300:])
        if not ok:
            return {"ok": False, "stage": "translator", "detail": out[-1500:]}
        ok, out = ensure_makefile()
        if not ok:
            return {"ok": False, "stage": "coq_makefile", "detail": out[-1500:]}
        hits = scan_forbidden()
        if hits:
            return {"ok": False, "stage": "forbidden", "detail": "; ".join(hits)}
        # the executable model first (definitions only), then the property cone
        ok, out = make(["theories/Main.vo"])
        if not ok:
            return {"ok": False, "stage": "model", "detail": first_coq_error(out)}
        ok2, out2 = extract_and_compile()
        if not ok2:
            return {"ok": False, "stage": "extraction", "detail": out2[-1500:]}
        ok, out = make(["properties/%s.vo" % prop])
        if not ok:
            return {"ok": False, "stage": "proof", "detail": first_coq_error(out), "model_runs": True}
        ok, info = check_property_file(prop)
        if not ok:
            return {"ok": False, "stage": "proof", "detail": info, "model_runs": True}
        return {"ok": True, "stage": "done", "detail": info}


class Model:
    """A pipe to bin/model_driver."""

    def __init__(self):
        self.p = subprocess.Popen([DRIVER], stdin=subprocess.PIPE, stdout=subprocess.PIPE,
                                  text=True, bufsize=1)

    def ask(self, req_text):
        self.p.stdin.write(req_text + "\n")
        self.p.stdin.flush()
        return self.p.stdout.readline().rstrip("\n")

    def close(self):
        try:
            self.p.stdin.close()
            self.p.wait(timeout=10)
        except Exception:
            self.p.kill()


def run_model_batch(req_texts, timeout=600):
    """Run many requests through one driver process; returns list of response lines."""
    if not req_texts:
        return []
    p = subprocess.run(["bash", "-c", "ulimit -s unlimited 2>/dev/null; exec " + DRIVER],
                       input="\n".join(req_texts) + "\n", stdout=subprocess.PIPE,
                       stderr=subprocess.PIPE, text=True, timeout=timeout)
    lines = p.stdout.split("\n")
    if lines and lines[-1] == "":
        lines.pop()
    if len(lines) != len(req_texts):
        raise RuntimeError("model driver returned %d lines for %d requests (rc %s): %s"
                           % (len(lines), len(req_texts), p.returncode, p.stderr[-500:]))
    return lines


def load_known_findings():
    p = os.path.join(VERIF, "known_findings.json")
    if not os.path.exists(p):
        return []
    return json.load(open(p))["findings"]


def write_replay(prop, payload):
    d = os.path.join(VERIF, "replays")
    os.makedirs(d, exist_ok=True)
    k = 0
    while True:
        name = "%s_%s_%d_%d.json" % (prop, payload.get("kind", "x"), os.getpid(), k)
        p = os.path.join(d, name)
        if not os.path.exists(p):
            break
        k += 1
    with open(p, "w") as f:
        json.dump(payload, f, indent=1, ensure_ascii=True, default=str)
    return p


def write_evidence(prop, tier, seed, coverage, assumptions, wall, violations):
    d = os.path.join(VERIF, "evidence")
    os.makedirs(d, exist_ok=True)
    ev = {"property_id": prop, "tier": tier, "seed": seed, "level": "proof",
          "coverage": coverage, "assumptions": assumptions, "wall_s": round(wall, 2),
          "violations": violations}
    with open(os.path.join(d, prop + ".json"), "w") as f:
        json.dump(ev, f, indent=1, ensure_ascii=True, default=str)
