"""impl.py — runs API programs (the same op trees the extracted model interprets) on
the real library and renders the same observation trees."""
import datetime
import signal

import prov.model as M
from prov.identifier import Identifier, Namespace, QualifiedName
from prov.constants import PROV, XSD

from harness.sexp import dumps


class Timeout(Exception):
    pass


def _alarm(signum, frame):
    raise Timeout()


def exc_class(e):
    from prov.serializers import provjson, provxml
    for cls, name in ((M.ProvExceptionInvalidQualifiedName, "ProvExceptionInvalidQualifiedName"),
                      (M.ProvElementIdentifierRequired, "ProvElementIdentifierRequired"),
                      (getattr(provjson, "ProvJSONException", None), "ProvJSONException"),
                      (getattr(provxml, "ProvXMLException", None), "ProvXMLException"),
                      (M.ProvException, "ProvException"),
                      (ValueError, "ValueError"), (KeyError, "KeyError"), (TypeError, "TypeError"),
                      (AttributeError, "AttributeError")):
        if cls is not None and isinstance(e, cls):
            return name
    return "Other"


KIND_OF = {}
CLS_OF = {}
for _t, _c in M.PROV_REC_CLS.items():
    KIND_OF[_c] = _t.localpart
    CLS_OF[_t.localpart] = _t
CLASS_BY_NAME = {c.__name__: c for c in M.PROV_REC_CLS.values()}
CLASS_BY_NAME.update({"ProvRecord": M.ProvRecord, "ProvElement": M.ProvElement, "ProvRelation": M.ProvRelation})


# ------------------------------------------------------------------ values
def sx_ns(n):
    return ["ns", n.prefix, n.uri]


def sx_qn(q):
    return ["qn", q.namespace.prefix, q.namespace.uri, q.localpart]


def tz_minutes(dt):
    off = dt.utcoffset()
    if off is None:
        return "none"
    secs = off.total_seconds()
    if secs % 60 != 0:
        raise ValueError("offset with seconds")
    return str(int(secs // 60))


def sx_value(v):
    if isinstance(v, bool):
        return ["bool", "true" if v else "false"]
    if isinstance(v, int):
        return ["int", str(v)]
    if isinstance(v, float):
        return ["float", repr(v), str(int(v)) if v == v and v not in (float("inf"), float("-inf")) and v.is_integer() else "none",
                "%g" % v]
    if isinstance(v, str):
        return ["str", v]
    if isinstance(v, datetime.datetime):
        return ["time", str(v.year), str(v.month), str(v.day), str(v.hour), str(v.minute), str(v.second),
                str(v.microsecond), tz_minutes(v)]
    if isinstance(v, QualifiedName):
        return sx_qn(v)
    if isinstance(v, Identifier):
        return ["id", v.uri]
    if isinstance(v, M.Literal):
        dt = v.datatype
        return ["lit", v.value,
                sx_qn(dt) if isinstance(dt, QualifiedName) else ("none" if dt is None else ["weird", repr(dt)]),
                ["some", v.langtag] if v.langtag is not None else "none"]
    if isinstance(v, M.ProvRecord):
        return ["recobj"]
    return ["unknown", type(v).__name__]


def mk_time(t):
    y, mo, d, h, mi, s, us, tz = t
    tzinfo = None if tz == "none" else datetime.timezone(datetime.timedelta(minutes=int(tz)))
    return datetime.datetime(int(y), int(mo), int(d), int(h), int(mi), int(s), int(us), tzinfo=tzinfo)


def mk_qn(x):
    return QualifiedName(Namespace(x[1], x[2]), x[3])


def mk_name(x):
    if x == "none":
        return None
    if x[0] == "Q":
        return QualifiedName(Namespace(x[1], x[2]), x[3])
    if x[0] == "S":
        return x[1]
    return Identifier(x[1])


def sx_rec(r):
    attrs = []
    for k, vs in r._attributes.items():
        if vs:
            attrs.append([sx_qn(k), [sx_value(v) for v in vs]])
    ident = r._identifier
    return ["rec", KIND_OF[type(r)], sx_qn(ident) if isinstance(ident, QualifiedName) else ("none" if ident is None else ["weird", repr(ident)]), attrs]


def dump_mgr(m):
    return ["mgr",
            ["tbl", [[k, sx_ns(v)] for k, v in m.items()]],
            ["regd", [[k, sx_ns(v)] for k, v in m._namespaces.items()]],
            ["dflt", sx_ns(m._default) if m._default is not None else "none"],
            ["urimap", [[k, sx_ns(v)] for k, v in m._uri_map.items()]],
            ["renmap", [[sx_ns(k), sx_ns(v)] for k, v in m._rename_map.items()]],
            ["prenmap", [[k, sx_ns(v)] for k, v in m._prefix_renamed_map.items()]]]


def dump_cont(b):
    pos = {id(r): i for i, r in enumerate(b._records)}
    idmap = []
    for k, lst in b._id_map.items():
        if lst and k is not None:
            idmap.append([k.uri, [str(pos.get(id(r), -1)) for r in lst]])
    ident = b._identifier
    return ["cont", sx_qn(ident) if isinstance(ident, QualifiedName) else "none", dump_mgr(b._namespaces),
            [sx_rec(r) for r in b._records], idmap]


def dump_node(n):
    if isinstance(n, M.ProvRecord):
        return ["node", "declared" if n.bundle is not None else "inferred", sx_rec(n)]
    return ["node", "other", ["obj", type(n).__name__]]


def dump_graph(g):
    return ["graph", [dump_node(n) for n in g.nodes()],
            [["edge", dump_node(u), dump_node(v), sx_rec(data.get("relation")) if isinstance(data.get("relation"), M.ProvRecord) else ["norel"]]
             for u, v, data in g.edges(data=True)]]


def dump_doc(d):
    return ["doc", dump_cont(d), [[k.uri if k is not None else "none", dump_cont(b)] for k, b in d._bundles.items()]]


# ------------------------------------------------------------------ canonical form
import re as _re
_PROVN_TOK = _re.compile(r'"""(?:\\.|(?!""")[\s\S])*"""|"(?:\\.|[^"\\])*"|\'[^\']*\'|<[^>]*>|%%|@[A-Za-z0-9-]*|[()\[\],;=]|[^\s()\[\],;=%@"\'<>]+')


def norm_provn(text):
    """Token list of a PROV-N text with the items of every [...] attribute list sorted
    (attribute/value iteration order of Python dicts/sets is not modelled)."""
    toks = _PROVN_TOK.findall(text)
    out = []
    i = 0
    while i < len(toks):
        if toks[i] == "[":
            j = i + 1
            items, cur = [], []
            while j < len(toks) and toks[j] != "]":
                if toks[j] == ",":
                    items.append(cur)
                    cur = []
                else:
                    cur.append(toks[j])
                j += 1
            items.append(cur)
            items.sort()
            out.append("[")
            for k, it in enumerate(items):
                if k:
                    out.append(",")
                out.extend(it)
            out.append("]")
            i = j + 1
        else:
            out.append(toks[i])
            i += 1
    return out


def canon(t):
    """Order-insensitive normal form of an observation tree: attribute lists and value
    sets sorted (Python sets have no modelled iteration order; defaultdict reads may
    reorder keys); the prefix table too: when two values of one attribute each bring a new
    namespace, the order in which they are registered follows the set's iteration order."""
    if isinstance(t, str):
        return t
    if t and t[0] == "rec" and len(t) == 4:
        attrs = [[canon(k), sorted((canon(v) for v in vs), key=dumps)] for k, vs in t[3]]
        attrs.sort(key=lambda kv: dumps(kv[0][2:]) + dumps(kv[0]))
        return ["rec", t[1], canon(t[2]), attrs]
    if t and t[0] == "mgr" and len(t) == 7:
        out = ["mgr"]
        for part in t[1:]:
            if isinstance(part, list) and part and part[0] in ("tbl", "regd", "urimap", "renmap", "prenmap"):
                out.append([part[0], sorted((canon(x) for x in part[1]), key=dumps)])
            else:
                out.append(canon(part))
        return out
    if t and t[0] == "text" and len(t) == 2 and isinstance(t[1], str):
        return ["text-tokens"] + norm_provn(t[1])
    if t and t[0] == "graph" and len(t) == 3:
        return ["graph", sorted((canon(x) for x in t[1]), key=dumps), sorted((canon(x) for x in t[2]), key=dumps)]
    if t and t[0] == "arr":
        return ["arr"] + sorted((canon(x) for x in t[1:]), key=dumps)
    if t and t[0] == "obj":
        return ["obj"] + sorted(([kv[0], canon(kv[1])] for kv in t[1:]), key=lambda kv: kv[0])
    if t and t[0] == "cont" and len(t) == 5:
        return ["cont", canon(t[1]), canon(t[2]), [canon(r) for r in t[3]],
                sorted((canon(x) for x in t[4]), key=dumps)]
    return [canon(x) for x in t]


# ------------------------------------------------------------------ interpreter
class Impl:
    def __init__(self):
        self.docs = []

    # -- references
    def cont(self, c):
        if c[0] == "d":
            return self.docs[int(c[1])]
        return list(self.docs[int(c[1])]._bundles.values())[int(c[2])]

    def rec(self, r):
        return self.cont(r[1])._records[int(r[2])]

    def val(self, x):
        if x == "none":
            return None
        k = x[0]
        if k == "str":
            return x[1]
        if k == "int":
            return int(x[1])
        if k == "float":
            return float(x[1])
        if k == "bool":
            return x[1] == "true"
        if k == "time":
            return mk_time(x[1:])
        if k == "id":
            return Identifier(x[1])
        if k == "qn":
            return mk_qn(x)
        if k == "lit":
            dt = None if x[2] == "none" else mk_qn(x[2])
            lang = None if x[3] == "none" else x[3][1]
            return M.Literal(x[1], dt, lang)
        if k == "rec":
            return self.rec(x[1])
        raise ValueError("bad value " + repr(x))

    def attrs(self, l):
        return [(mk_name(n), self.val(v)) for n, v in l]

    # -- one op
    def step(self, op):
        try:
            return self._step(op)
        except Timeout:
            raise
        except (IndexError,) as e:
            if getattr(self, "_in_lib", False):
                return ["raise", exc_class(e)]
            return "bad-handle"
        except Exception as e:
            return ["raise", exc_class(e)]
        finally:
            self._in_lib = False

    def _lib(self):
        self._in_lib = True

    def _step(self, op):
        k = op[0]
        if k == "NewDoc":
            self.docs.append(M.ProvDocument())
            return ["handle", str(len(self.docs) - 1)]
        if k == "AddNs":
            c = self.cont(op[1]); self._lib()
            return sx_ns(c.add_namespace(op[2], op[3]))
        if k == "SetDefault":
            c = self.cont(op[1]); self._lib()
            c.set_default_namespace(op[2])
            return "unit"
        if k == "Resolve":
            c = self.cont(op[1]); arg = mk_name(op[2]); self._lib()
            r = c.valid_qualified_name(arg)
            return "none" if r is None else sx_qn(r)
        if k == "NewBundle":
            d = self.docs[int(op[1])]; arg = mk_name(op[2]); self._lib()
            d.bundle(arg)
            return "unit"
        if k == "NewRecord":
            c = self.cont(op[1]); ident = mk_name(op[3]); attrs = self.attrs(op[4]); self._lib()
            r = c.new_record(CLS_OF[op[2]], ident, attrs)
            return sx_rec(r)
        if k == "Factory":
            c = self.cont(op[1]); ident = mk_name(op[3])
            kwargs = {p: self.val(v) for p, v in op[4]}
            other = self.attrs(op[5])
            import inspect
            meth = getattr(c, op[2])
            params = inspect.signature(meth).parameters
            if "identifier" in params:
                kwargs["identifier"] = ident
            if "other_attributes" in params and other:
                kwargs["other_attributes"] = other
            self._lib()
            r = meth(**kwargs)
            return sx_rec(r)
        if k == "ElemMethod":
            r = self.rec(op[1])
            kwargs = {p: self.val(v) for p, v in op[3]}
            other = self.attrs(op[4])
            if other:
                kwargs["attributes"] = other
            meth = getattr(r, op[2])
            self._lib()
            ret = meth(**kwargs)
            assert ret is r
            return sx_rec(r._bundle._records[-1])
        if k == "AddAttrs":
            r = self.rec(op[1]); attrs = self.attrs(op[2]); self._lib()
            r.add_attributes(attrs)
            return sx_rec(r)
        if k == "SetTime":
            r = self.rec(op[1]); s = self.val(op[2]); e = self.val(op[3]); self._lib()
            r.set_time(s, e)
            return sx_rec(r)
        if k == "AddType":
            r = self.rec(op[1]); v = self.val(op[2]); self._lib()
            r.add_asserted_type(v)
            return sx_rec(r)
        if k == "AddRecord":
            c = self.cont(op[1]); r = self.rec(op[2]); self._lib()
            return sx_rec(c.add_record(r))
        if k == "Update":
            c = self.cont(op[1]); o = self.cont(op[2]); self._lib()
            c.update(o)
            return "unit"
        if k == "AddBundleDoc":
            d = self.docs[int(op[1])]; s = self.docs[int(op[2])]; ident = mk_name(op[3])
            # the order in which ProvBundle(namespaces=set) registers: we impose the
            # order the harness observed (op[4]) by handing over a list view
            self._lib()
            d.add_bundle(s, ident)
            return "unit"
        if k == "Flattened":
            d = self.docs[int(op[1])]; self._lib()
            f = d.flattened()
            if f is d:
                return ["handle", op[1]]
            self.docs.append(f)
            return ["handle", str(len(self.docs) - 1)]
        if k == "Unified":
            d = self.docs[int(op[1])]; self._lib()
            u = d.unified()
            self.docs.append(u)
            return ["handle", str(len(self.docs) - 1)]
        if k == "DocFromRecords":
            c = self.cont(op[1]); self._lib()
            nd = M.ProvDocument(records=c.get_records())
            self.docs.append(nd)
            return ["handle", str(len(self.docs) - 1)]
        if k == "GetRecord":
            c = self.cont(op[1]); arg = mk_name(op[2]); self._lib()
            r = c.get_record(arg)
            if r is None:
                return ["recs"]
            return ["recs"] + [sx_rec(x) for x in r]
        if k == "GetRecords":
            c = self.cont(op[1]); self._lib()
            if op[2] == "none":
                return ["recs"] + [sx_rec(x) for x in c.get_records()]
            return ["recs"] + [sx_rec(x) for x in c.get_records(CLASS_BY_NAME[op[2][1]])]
        if k == "Eq":
            a = self.cont(op[1]); b = self.cont(op[2]); self._lib()
            return "true" if a == b else "false"
        if k == "EqRec":
            a = self.rec(op[1]); b = self.rec(op[2]); self._lib()
            return "true" if a == b else "false"
        if k == "ExportJson":
            d = self.docs[int(op[1])]; self._lib()
            import json
            return py_to_jv(json.loads(d.serialize(format="json")))
        if k == "LoadJson":
            import json
            text = json.dumps(jv_to_py(op[1])); self._lib()
            nd = M.ProvDocument.deserialize(content=text, format="json")
            self.docs.append(nd)
            return ["handle", str(len(self.docs) - 1)]
        if k == "ExportProvn":
            d = self.docs[int(op[1])]; self._lib()
            return ["text", d.get_provn()]
        if k == "ToGraph":
            d = self.docs[int(op[1])]; self._lib()
            from prov.graph import prov_to_graph
            return dump_graph(prov_to_graph(d))
        if k == "GraphRoundTrip":
            d = self.docs[int(op[1])]; self._lib()
            from prov.graph import prov_to_graph, graph_to_prov
            nd = graph_to_prov(prov_to_graph(d))
            self.docs.append(nd)
            return ["handle", str(len(self.docs) - 1)]
        if k == "ObserveAll":
            return [dump_doc(d) for d in self.docs]
        return ["unknown-op", k]


def py_to_jv(x):
    if x is None:
        return ["null"]
    if isinstance(x, bool):
        return ["true"] if x else ["false"]
    if isinstance(x, int):
        return ["int", str(x)]
    if isinstance(x, float):
        return sx_value(x)
    if isinstance(x, str):
        return ["str", x]
    if isinstance(x, list):
        return ["arr"] + [py_to_jv(y) for y in x]
    if isinstance(x, dict):
        return ["obj"] + [[k, py_to_jv(v)] for k, v in x.items()]
    raise ValueError("not a JSON value: %r" % (x,))


def jv_to_py(t):
    k = t[0]
    if k == "null":
        return None
    if k == "true":
        return True
    if k == "false":
        return False
    if k == "int":
        return int(t[1])
    if k == "float":
        return float(t[1])
    if k == "str":
        return t[1]
    if k == "arr":
        return [jv_to_py(x) for x in t[1:]]
    if k == "obj":
        return {kv[0]: jv_to_py(kv[1]) for kv in t[1:]}
    raise ValueError("bad jv " + repr(t))


def float_table(ops):
    """The float oracle handed to the model: float() of every lexical form that a
    typed literal of the program carries."""
    lex = set()

    def walk(t):
        if isinstance(t, list):
            if len(t) == 4 and t[0] == "lit" and isinstance(t[1], str):
                lex.add(t[1])
            if len(t) == 2 and t[0] == "str" and isinstance(t[1], str) and len(t[1]) < 40:
                lex.add(t[1])
            if len(t) == 4 and t[0] == "float" and isinstance(t[1], str):
                lex.add(t[1])
            for x in t:
                walk(x)
    walk(ops)
    out = []
    for s in sorted(lex):
        try:
            f = float(s)
            if f != f:
                out.append([s, "none"])     # NaN: outside every claimed space
            else:
                out.append([s, [repr(f), str(int(f)) if f not in (float("inf"), float("-inf")) and f.is_integer() else "none", "%g" % f]])
        except ValueError:
            out.append([s, "none"])
    return out


def run_program(ops, time_limit=20):
    """Fresh interpreter, returns the list of observations."""
    signal.signal(signal.SIGALRM, _alarm)
    signal.alarm(time_limit)
    try:
        im = Impl()
        return [im.step(o) for o in ops]
    finally:
        signal.alarm(0)
