"""xmlgen.py — a specification-driven generator of PROV-XML texts (not the library's writer): documents in
the dialects other tools produce — any prefix (or the default namespace) for the prov namespace, prefix
declarations on inner elements, subtype elements (prov:person, prov:wasRevisionOf, ...), xsi:type on record
elements, every literal spelling, prov:other blocks, comments, hadMember with several entities, bundles with
their own declarations.  Children follow the order of the PROV-XML schema."""
from xml.sax.saxutils import escape, quoteattr

PROV = "http://www.w3.org/ns/prov#"
XSD = "http://www.w3.org/2001/XMLSchema"
XSI = "http://www.w3.org/2001/XMLSchema-instance"
NS_POOL = [("ex", "http://example.org/"), ("ex2", "http://example.org/2/"), ("foo", "http://foo.test/ns#"), ("u", "urn:x:")]
LOCALS = ["e1", "e2", "a1", "ag1", "r1", "n-1", "p.q", "été", "k_2"]
KINDS = {
    "entity": [], "activity": ["startTime", "endTime"], "wasGeneratedBy": ["entity", "activity", "time"],
    "used": ["activity", "entity", "time"], "wasInformedBy": ["informed", "informant"],
    "wasStartedBy": ["activity", "trigger", "starter", "time"], "wasEndedBy": ["activity", "trigger", "ender", "time"],
    "wasInvalidatedBy": ["entity", "activity", "time"],
    "wasDerivedFrom": ["generatedEntity", "usedEntity", "activity", "generation", "usage"], "agent": [],
    "wasAttributedTo": ["entity", "agent"], "wasAssociatedWith": ["activity", "agent", "plan"],
    "actedOnBehalfOf": ["delegate", "responsible", "activity"], "wasInfluencedBy": ["influencee", "influencer"],
    "specializationOf": ["specificEntity", "generalEntity"], "alternateOf": ["alternate1", "alternate2"],
    "hadMember": ["collection", "entity"],
}
SUBTYPES = {"agent": ["person", "organization", "softwareAgent"], "entity": ["plan", "collection", "emptyCollection", "bundle"],
            "wasDerivedFrom": ["wasRevisionOf", "wasQuotedFrom", "hadPrimarySource"]}
ELEMENTS = ("entity", "activity", "agent")
TIMES = ["2012-03-31T09:21:00", "2012-03-31T09:21:00Z", "2011-11-16T16:05:00.123+01:00", "2000-01-01T00:00:00-05:30"]
STRINGS = ["", "plain", 'quo"te', "two\nlines", "back\\slash", "ünïcødé", "\U0001F600", "a:b", "1", "true", "  spaced ", "<a&b>"]


class Ctx:
    def __init__(self, rng):
        # a document type declaration with an internal subset: general entities used in character data (any XML
        # processor expands them; the text means what it means without them)
        self.entities = ENTITIES if rng.random() < 0.15 else []
        self.rng = rng
        self.provp = rng.choice(["prov", "prov", "p", None])     # None: prov is the default namespace
        self.nss = rng.sample(NS_POOL, rng.choice([1, 2, 3]))

    def esc(self, text):
        out = escape(text)
        for name, val in self.entities:
            out = out.replace(escape(val), "&%s;" % name)
        return out

    def pn(self, local):
        return local if self.provp is None else "%s:%s" % (self.provp, local)

    def pattr(self, local):
        # attributes never take the default namespace: with prov as default, a prefix is still needed
        return "%s:%s" % (self.provp or "pr", local)


ENTITIES = [("w1", "plain"), ("w2", "ünïcødé"), ("w3", "true"), ("w4", "5"), ("w5", "http://example.org/thing"), ("w6", "0.5"),
            ("w7", "spaced"), ("w8", "2012-03-31T09:21:00")]


def value_xml(cx, prefixes, tag, rng, allow_lang=True):
    """one attribute element <tag ...>text</tag> in one of the spellings the specification allows"""
    r = rng.random()
    a, text = "", ""
    if r < 0.2:
        text = rng.choice(STRINGS)
    elif r < 0.3:
        a, text = ' xsi:type="xsd:string"', rng.choice(STRINGS)
    elif r < 0.42:
        a, text = ' xsi:type="xsd:%s"' % rng.choice(["int", "long"]), str(rng.choice([5, -3, 10 ** 25]))
    elif r < 0.5:
        a, text = ' xsi:type="xsd:double"', rng.choice(["0.5", "1e+300", "3.0", "0.1", "INF", "-INF"])
    elif r < 0.58:
        a, text = ' xsi:type="xsd:boolean"', rng.choice(["true", "false", "1", "0"])
    elif r < 0.66:
        a, text = ' xsi:type="xsd:dateTime"', rng.choice(TIMES)
    elif r < 0.72:
        a, text = ' xsi:type="xsd:anyURI"', "http://example.org/thing"
    elif r < 0.84:
        a, text = ' xsi:type="xsd:QName"', rng.choice(prefixes) + ":" + rng.choice(LOCALS)
    elif r < 0.90 and allow_lang:
        a, text = ' xml:lang="%s"' % rng.choice(["en", "fr-CA"]), rng.choice(STRINGS)
    elif r < 0.92 and allow_lang:
        # a language tag next to an explicit datatype, in either attribute order
        l_, t_ = ' xml:lang="%s"' % rng.choice(["en", "fr-CA"]), ' xsi:type="%s"' % rng.choice(["xsd:string", "%s:MyType" % rng.choice(prefixes)])
        a, text = (l_ + t_ if rng.random() < 0.5 else t_ + l_), rng.choice(STRINGS)
    else:
        a, text = ' xsi:type="%s:MyType"' % rng.choice(prefixes), rng.choice(STRINGS)
    r2 = rng.random()
    if r2 < 0.08:
        # a prefix declared on the attribute element itself, used by its own name, its xsi:type or its QName value
        a = ' xmlns:chd="http://child.test/"' + a
        how = rng.choice(["name", "type", "value"])
        if how == "name" and ":" in tag and not tag.startswith(("prov:", "p:")) and cx.pn("x").split(":")[0] != tag.split(":")[0]:
            tag = "chd:" + tag.split(":", 1)[1]
        elif how == "type" and 'xsi:type="xsd:QName"' not in a and "xsi:type" not in a and "xml:lang" not in a:
            a += ' xsi:type="chd:Kind"'
        elif 'xsi:type="xsd:QName"' in a:
            text = "chd:" + rng.choice(LOCALS)
    elif r2 < 0.13 and ":" in tag and not tag.startswith(("prov:", "p:", "xsd:", "xsi:")) and cx.pn("x").split(":")[0] != tag.split(":")[0]:
        # a prefix of the document bound to another namespace on this element only
        a = ' xmlns:%s="http://rebound-child.test/"' % tag.split(":")[0] + a
    return "<%s%s>%s</%s>" % (tag, a, cx.esc(text), tag)


def record_xml(cx, prefixes, rng, ind):
    kind = rng.choice(list(KINDS))
    formals = KINDS[kind]
    name = kind
    typed_elem = ""
    if kind in SUBTYPES and rng.random() < 0.3:
        name = rng.choice(SUBTYPES[kind])
        if rng.random() < 0.3:
            # a subtype element with an extension type of its own
            typed_elem = ' xsi:type="%s:Staff"' % rng.choice(prefixes)
    elif kind in SUBTYPES and rng.random() < 0.15:
        sub = rng.choice(SUBTYPES[kind])
        sub = {"wasRevisionOf": "Revision", "wasQuotedFrom": "Quotation", "hadPrimarySource": "PrimarySource"}.get(
            sub, sub[0].upper() + sub[1:])
        typed_elem = ' xsi:type="%s"' % cx.pn(sub) if cx.provp else ""
    attrs = ""
    if kind in ELEMENTS or rng.random() < 0.5:
        attrs += " %s=%s" % (cx.pattr("id"), quoteattr(rng.choice(prefixes) + ":" + rng.choice(LOCALS)))
    local_decl = ""
    lp = list(prefixes)
    if rng.random() < 0.15:
        # a prefix declared on the record element itself
        local_decl = ' xmlns:loc="http://local.test/"'
        lp.append("loc")
    kids = []
    for i, f in enumerate(formals):
        if rng.random() < (0.9 if i < 2 else 0.45):
            if f in ("time", "startTime", "endTime"):
                kids.append("<%s>%s</%s>" % (cx.pn(f), rng.choice(TIMES), cx.pn(f)))
            else:
                n = 1
                if kind == "hadMember" and f == "entity" and rng.random() < 0.3:
                    n = rng.choice([2, 3])
                for l in rng.sample(LOCALS, n):
                    if rng.random() < 0.06:
                        # the reference names its target through a prefix declared on the reference element itself
                        kids.append('<%s %s=%s xmlns:rf="http://ref.test/"/>' % (cx.pn(f), cx.pattr("ref"), quoteattr("rf:" + l)))
                    else:
                        kids.append("<%s %s=%s/>" % (cx.pn(f), cx.pattr("ref"), quoteattr(rng.choice(lp) + ":" + l)))
    # schema order of the extra attributes: label, location, role, type, value, then others
    for an in ["label", "location", "role", "type", "value"]:
        if rng.random() < 0.2 and not (an == "value" and kind != "entity") \
                and not (an == "role" and kind in ELEMENTS) and not (an == "location" and kind not in ELEMENTS + ("wasGeneratedBy", "used")):
            for _ in range(rng.choice([1, 1, 2]) if an in ("label", "type", "location") else 1):
                if an == "label":
                    lg = ' xml:lang="%s"' % rng.choice(["en", "fr"]) if rng.random() < 0.5 else ""
                    kids.append("<%s%s>%s</%s>" % (cx.pn(an), lg, escape(rng.choice(STRINGS)), cx.pn(an)))
                else:
                    kids.append(value_xml(cx, lp, cx.pn(an), rng, allow_lang=False))
    if kind in SUBTYPES and cx.provp and rng.random() < 0.3:
        # further PROV-defined subtypes of the record's own kind as prov:type children (a subtype element may well carry
        # a second subtype: <prov:collection> typed prov:EmptyCollection, <prov:person> typed prov:SoftwareAgent)
        fam = {"agent": ["Person", "Organization", "SoftwareAgent"], "entity": ["Plan", "Collection", "EmptyCollection", "Bundle"],
               "wasDerivedFrom": ["Revision", "Quotation", "PrimarySource"]}[kind]
        at = [i for i, k in enumerate(kids) if k.startswith("<%s" % cx.pn("value"))]
        for t in rng.sample(fam, rng.choice([1, 2])):
            kids.insert(at[0] if at else len(kids), '<%s xsi:type="xsd:QName">%s:%s</%s>' % (cx.pn("type"), cx.provp, t, cx.pn("type")))
    for _ in range(rng.choice([0, 1, 1, 2])):
        kids.append(value_xml(cx, lp, rng.choice(lp) + ":" + rng.choice(["k", "v2", "size"]), rng))
    if rng.random() < 0.05:
        kids.insert(rng.randrange(len(kids) + 1), "<!-- a comment -->")
    pad = " " * ind
    if not kids:
        return "%s<%s%s%s%s/>" % (pad, cx.pn(name), attrs, typed_elem, local_decl)
    return "%s<%s%s%s%s>\n%s\n%s</%s>" % (pad, cx.pn(name), attrs, typed_elem, local_decl,
                                          "\n".join(pad + "  " + k for k in kids), pad, cx.pn(name))


def gen_xml(rng):
    cx = Ctx(rng)
    prefixes = [p for p, _ in cx.nss]
    decl = ['xmlns:%s="%s"' % (p, u) for p, u in cx.nss]
    decl.append(('xmlns:%s="%s"' % (cx.provp, PROV)) if cx.provp else ('xmlns="%s" xmlns:pr="%s"' % (PROV, PROV)))
    decl += ['xmlns:xsd="%s"' % XSD, 'xmlns:xsi="%s"' % XSI]
    body = [record_xml(cx, prefixes, rng, 2) for _ in range(rng.choice([1, 2, 3, 5]))]
    if rng.random() < 0.1:
        body.append('  <%s><ex9:x xmlns:ex9="http://nine.test/">ignored</ex9:x></%s>' % (cx.pn("other"), cx.pn("other")))
    if rng.random() < 0.4:
        for j in range(rng.choice([1, 2])):
            bp = list(prefixes)
            bdecl = ""
            if rng.random() < 0.5:
                extra = rng.choice([x for x in NS_POOL if x[0] not in prefixes] or NS_POOL)
                bdecl += ' xmlns:%s="%s"' % extra
                if extra[0] not in bp:
                    bp.append(extra[0])
            if rng.random() < 0.25:
                bdecl += ' xmlns:%s="http://rebound.test/%d/"' % (rng.choice(prefixes), j)
            recs = [record_xml(cx, bp, rng, 4) for _ in range(rng.choice([1, 2, 3]))]
            body.append("  <%s %s=%s%s>\n%s\n  </%s>" % (cx.pn("bundleContent"), cx.pattr("id"),
                                                          quoteattr(rng.choice(prefixes) + ":b%d" % j), bdecl,
                                                          "\n".join(recs), cx.pn("bundleContent")))
    doctype = ""
    if cx.entities:
        doctype = "<!DOCTYPE %s [\n%s\n]>\n" % (cx.pn("document"), "\n".join('  <!ENTITY %s "%s">' % (n, escape(v)) for n, v in cx.entities))
    return "<?xml version='1.0' encoding='UTF-8'?>\n%s<%s %s>\n%s\n</%s>\n" % (doctype, cx.pn("document"), " ".join(decl), "\n".join(body),
                                                                                 cx.pn("document"))
