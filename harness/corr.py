"""corr.py — correspondence runs for world programs: implementation observations vs
the extracted model's, both brought to the same canonical form."""
import os
import signal
import time
from multiprocessing import Pool

from harness import common, impl as I, progs
from harness.sexp import dumps, loads


def request_text(ops):
    return dumps(["prog", I.float_table(ops)] + ops)


def gen_one(args):
    seed, n_ops, profile = args
    signal.signal(signal.SIGALRM, I._alarm)
    signal.alarm(60)
    try:
        ops, obs = progs.generate(seed, n_ops, profile)
        return ("ok", ops, obs)
    except I.Timeout:
        return ("timeout", seed, None)
    except Exception:
        import traceback
        return ("error", seed, traceback.format_exc()[-2000:])
    finally:
        signal.alarm(0)


def first_diff(a, b, path=""):
    if isinstance(a, str) or isinstance(b, str):
        return None if a == b else "%s: impl=%s model=%s" % (path, dumps(a)[:300], dumps(b)[:300])
    if len(a) != len(b):
        return "%s: length impl=%d model=%d | impl=%s model=%s" % (path, len(a), len(b), dumps(a)[:300], dumps(b)[:300])
    for i, (x, y) in enumerate(zip(a, b)):
        tag = x[0] if isinstance(x, list) and x and isinstance(x[0], str) else str(i)
        d = first_diff(x, y, "%s/%s" % (path, tag))
        if d:
            return d
    return None


def compare(ops, obs, model_line):
    """Returns None or (op index, description)."""
    m = loads(model_line)
    if not isinstance(m, list):
        return (0, "model answered %r" % (m,))
    if len(m) != len(obs):
        return (min(len(m), len(obs)), "model produced %d observations for %d ops: %s" % (len(m), len(obs), dumps(m[-1])[:300] if m else ""))
    for i, (a, b) in enumerate(zip(obs, m)):
        ca, cb = I.canon(a), I.canon(b)
        if ca != cb:
            return (i, "op %s: %s" % (dumps(ops[i])[:200], first_diff(ca, cb)))
    return None


def model_run(ops_list):
    reqs = [request_text(o) for o in ops_list]
    n = common.NCPU
    shards = [reqs[i::n] for i in range(n)]
    with Pool(n) as pool:
        outs = pool.map(common.run_model_batch, shards)
    lines = [None] * len(reqs)
    for k, o in enumerate(outs):
        for j, line in enumerate(o):
            lines[k + j * n] = line
    return lines


def generate_many(seed, count, n_ops_range, profile):
    import random
    rng = random.Random(seed)
    jobs = [(rng.randrange(1 << 60), rng.randrange(*n_ops_range), profile) for _ in range(count)]
    with Pool(common.NCPU) as pool:
        return pool.map(gen_one, jobs, chunksize=4)


def is_ood(model_line):
    return '"out-of-domain"' in model_line


if __name__ == "__main__":
    import sys
    seed = int(sys.argv[1]) if len(sys.argv) > 1 else 1
    count = int(sys.argv[2]) if len(sys.argv) > 2 else 50
    profile = sys.argv[3] if len(sys.argv) > 3 else "mixed"
    t0 = time.time()
    res = generate_many(seed, count, (5, 25), profile)
    ok = [(o, b) for st, o, b in res if st == "ok"]
    bad = [r for r in res if r[0] != "ok"]
    print("generated %d ok, %d failed in %.1fs" % (len(ok), len(bad), time.time() - t0))
    for b in bad[:3]:
        print(b)
    lines = model_run([o for o, _ in ok])
    nd = 0
    ood = 0
    for (ops, obs), line in zip(ok, lines):
        if is_ood(line):
            ood += 1
            continue
        d = compare(ops, obs, line)
        if d:
            nd += 1
            if nd <= 5:
                print("DISAGREE at op", d[0], d[1][:700])
    print("programs %d, out-of-domain %d, disagreements %d" % (len(ok), ood, nd))
