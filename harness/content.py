"""content.py — strict (URI-level, kind-aware) and library-level content of records,
bundles and documents, computed through the public API only."""
import datetime
from collections import Counter

import prov.model as M
from prov.identifier import Identifier, QualifiedName


def tzmin(v):
    off = v.utcoffset()
    return None if off is None else off.total_seconds() / 60.0


def strict_value(v):
    """Keeps the Python kind, datatype URI, language tag, UTC offset, numeric kind."""
    if isinstance(v, bool):
        return ("bool", v)
    if isinstance(v, int):
        return ("int", v)
    if isinstance(v, float):
        return ("float", v.hex())
    if isinstance(v, str):
        return ("str", v)
    if isinstance(v, datetime.datetime):
        return ("time", v.replace(tzinfo=None).isoformat(), tzmin(v))
    if isinstance(v, QualifiedName):
        return ("qn", v.uri)
    if isinstance(v, Identifier):
        return ("id", v.uri)
    if isinstance(v, M.Literal):
        dt = v.datatype
        return ("lit", v.value, dt.uri if isinstance(dt, Identifier) else (None if dt is None else repr(dt)), v.langtag)
    return ("other", type(v).__name__, repr(v))


def strict_rec(r):
    ident = r.identifier
    return (r.get_type().uri, ident.uri if ident is not None else None,
            tuple(sorted(((a.uri, strict_value(v)) for a, v in r.attributes), key=repr)))


def strict_cont(b):
    """Multiset of strict records."""
    return Counter(strict_rec(r) for r in b.get_records())


def strict_doc(d):
    out = {"": strict_cont(d)}
    for b in d.bundles:
        out[b.identifier.uri if b.identifier is not None else None] = strict_cont(b)
    return out


def ns_view(b):
    """Registered namespaces and default namespace, as the public API shows them."""
    return (frozenset((n.prefix, n.uri) for n in b.namespaces), b.default_ns_uri)


def observable_doc(d):
    """What C12/C13 observe: strict content with record order, namespaces, default."""
    conts = [("", d)] + [((b.identifier.uri if b.identifier is not None else None), b) for b in d.bundles]
    return tuple((k, tuple(strict_rec(r) for r in c.get_records()), ns_view(c)) for k, c in conts)


def vkey(v):
    """Value identity as == and hash see it (what the library's equality is built on)."""
    if isinstance(v, (bool, int, float)):
        return ("n", v)
    if isinstance(v, str):
        return ("s", v)
    if isinstance(v, datetime.datetime):
        return ("t", v)
    if isinstance(v, QualifiedName):
        return ("q", v.uri)
    if isinstance(v, Identifier):
        return ("i", v.uri)
    if isinstance(v, M.Literal):
        dt = v.datatype
        return ("l", v.value, dt.uri if isinstance(dt, Identifier) else dt, v.langtag)
    return ("o", repr(v))


def lc_rec(r):
    ident = r.identifier
    return (r.get_type().uri, ident.uri if ident is not None else None,
            frozenset((a.uri, vkey(v)) for a, v in r.attributes))


def lc_cont(b):
    return frozenset(lc_rec(r) for r in b.get_records())


def lc_doc(d):
    out = {"": lc_cont(d)}
    for b in d.bundles:
        out[b.identifier.uri if b.identifier is not None else None] = lc_cont(b)
    return out


# ---- the strict content as the tree the spec readers (JsonSpec / XmlSpec) produce
def content_value(v):
    if isinstance(v, bool):
        return ["bool", "true" if v else "false"]
    if isinstance(v, int):
        return ["int", str(v)]
    if isinstance(v, float):
        return ["float", repr(v)]
    if isinstance(v, str):
        return ["str", v]
    if isinstance(v, datetime.datetime):
        tz = tzmin(v)
        return ["time", v.replace(tzinfo=None).isoformat(), "none" if tz is None else str(int(tz))]
    if isinstance(v, QualifiedName):
        return ["qn", v.uri]
    if isinstance(v, Identifier):
        return ["id", v.uri]
    if isinstance(v, M.Literal):
        dt = v.datatype
        return ["lit", v.value, dt.uri if isinstance(dt, Identifier) else "none",
                ["some", v.langtag] if v.langtag is not None else "none"]
    return ["other", repr(v)]


def content_rec(r):
    ident = r.identifier
    return ["rec", r.get_type().uri, ident.uri if ident is not None else "none",
            [[a.uri, content_value(v)] for a, v in r.attributes]]


def content_doc(d):
    out = ["content", ["bundle", ""] + [content_rec(r) for r in d.get_records()]]
    for b in d.bundles:
        out.append(["bundle", b.identifier.uri if b.identifier is not None else "none"] + [content_rec(r) for r in b.get_records()])
    return out


def canon_content(c):
    """Order-insensitive normal form of a content tree."""
    from harness.sexp import dumps
    if not isinstance(c, list) or not c or c[0] != "content":
        return c
    bundles = []
    for b in c[1:]:
        recs = []
        for r in b[2:]:
            attrs = []
            for a in sorted(r[3], key=dumps):          # attribute-value pairs form a set
                if not attrs or attrs[-1] != a:
                    attrs.append(a)
            recs.append(["rec", r[1], r[2], attrs])
        bundles.append(["bundle", b[1]] + sorted(recs, key=dumps))
    return ["content"] + sorted(bundles, key=dumps)
