"""Generic tree syntax shared with ocaml/driver.ml.  Atoms are python str (encoded
as UTF-8 bytes on the wire) and lists are python lists."""


def _esc(b: bytes) -> str:
    out = []
    for k in b:
        if k == 0x22:
            out.append('\\"')
        elif k == 0x5C:
            out.append("\\\\")
        elif k < 32 or k > 126:
            out.append("\\x%02x" % k)
        else:
            out.append(chr(k))
    return "".join(out)


def dumps(t) -> str:
    if isinstance(t, str):
        return '"' + _esc(t.encode("utf-8", "surrogatepass")) + '"'
    if isinstance(t, bytes):
        return '"' + _esc(t) + '"'
    if isinstance(t, bool):
        raise TypeError("bool in sexp")
    if isinstance(t, int):
        return '"%d"' % t
    return "(" + " ".join(dumps(x) for x in t) + ")"


def loads(s: str):
    pos = 0
    n = len(s)

    def term():
        nonlocal pos
        while pos < n and s[pos] in " \t\n":
            pos += 1
        if s[pos] == "(":
            pos += 1
            items = []
            while True:
                while pos < n and s[pos] in " \t\n":
                    pos += 1
                if s[pos] == ")":
                    pos += 1
                    return items
                items.append(term())
        if s[pos] == '"':
            pos += 1
            b = bytearray()
            while True:
                c = s[pos]
                if c == '"':
                    pos += 1
                    break
                if c == "\\":
                    d = s[pos + 1]
                    if d == "x":
                        b.append(int(s[pos + 2:pos + 4], 16))
                        pos += 4
                    else:
                        b.append(ord(d))
                        pos += 2
                else:
                    b.append(ord(c))
                    pos += 1
            return bytes(b).decode("utf-8", "surrogatepass")
        raise ValueError("bad sexp at %d: %r" % (pos, s[pos:pos + 20]))

    t = term()
    return t
