"""Entry point of ./check: one property, one tier.

  A  regenerate tables from /repo, build the model and the property's proof cone,
     compile properties/<id>.v afresh, collect Print Assumptions
  B  re-extract / rebuild the model driver when needed
  C  corpus + generated cases: implementation vs extracted model (correspondence)
     and the property's direct oracle on the implementation's own behaviour
  D  verdict, evidence, replay files
"""
import argparse
import importlib
import json
import os
import sys
import time
import traceback

from harness import common

PROPS = ["C%02d" % i for i in range(1, 19)]


def main():
    ap = argparse.ArgumentParser()
    ap.add_argument("prop")
    ap.add_argument("--tier", default=None)
    ap.add_argument("--replay", default=None)
    ap.add_argument("--no-build", action="store_true")
    ap.add_argument("--child-json", default=None)      # a pass under another PYTHONHASHSEED: results to this file, nothing else written
    ap.add_argument("--model-runs", default="1")
    args = ap.parse_args()
    prop = args.prop
    tier = os.environ.get("VERIF_TIER") or args.tier or "quick"
    if tier not in ("quick", "thorough"):
        tier = "quick"
    seed = int(os.environ.get("VERIF_SEED", "20260930"))
    t0 = time.time()
    logs = []

    def log(msg):
        logs.append(msg)
        print("[%s %6.1fs] %s" % (prop, time.time() - t0, msg), flush=True)

    try:
        mod = importlib.import_module("harness.props." + prop.lower())
    except ImportError as e:
        print("no check for %s: %s" % (prop, e))
        return 2

    if args.replay:
        # a failure found under another hash seed is replayed under that hash seed
        try:
            hs = json.load(open(args.replay)).get("hash_seed")
        except Exception:
            hs = None
        if hs is not None and os.environ.get("PYTHONHASHSEED") != str(hs):
            env = dict(os.environ, PYTHONHASHSEED=str(hs))
            os.execvpe(sys.executable, [sys.executable, "-m", "harness.main"] + sys.argv[1:], env)
        return mod.replay(args.replay, log)

    if args.child_json:
        # one more pass of the same check under the PYTHONHASHSEED of this process (set iteration order is part of the
        # schedule the properties quantify over); the parent merges what is found
        out = {"violations": [], "known": [], "disagreements": [], "evaluations": 0, "error": None}
        try:
            r = mod.run(tier="quick", seed=seed, log=lambda m: None, model_runs=args.model_runs == "1", enlarged=False)
            out["violations"] = r.get("violations", [])[:4]
            out["known"] = r.get("known", [])
            out["disagreements"] = r.get("disagreements", [])[:2]
            out["evaluations"] = r.get("coverage", {}).get("evaluations", 0)
        except Exception:
            out["error"] = traceback.format_exc()[-2000:]
        json.dump(out, open(args.child_json, "w"), default=str)
        return 0

    # ---- A/B
    if args.no_build:
        b = {"ok": True, "stage": "skipped", "detail": {}}
    else:
        b = common.build_for(prop, log)
    log("build: ok=%s stage=%s" % (b["ok"], b["stage"]))
    model_runs = b["ok"] or b.get("model_runs", False)

    # ---- C
    res = {"violations": [], "known": [], "coverage": {}, "disagreements": []}
    try:
        res = mod.run(tier=tier, seed=seed, log=log, model_runs=model_runs,
                      enlarged=not b["ok"])
    except Exception:
        tb = traceback.format_exc()
        log("harness error:\n" + tb)
        res["violations"].append({"kind": "harness-error", "detail": tb[-2000:]})

    # ---- C' the same check under other hash seeds (quick tier: 3 more, thorough: 6 more), in parallel
    sweep = {}
    if os.environ.get("VERIF_NO_HASH_SWEEP") != "1":
        import subprocess
        import tempfile
        base_hs = int(os.environ.get("PYTHONHASHSEED", "0") or 0)
        others = [base_hs + k for k in ((1, 2, 3) if tier == "quick" else (1, 2, 3, 4, 5, 6))]
        tmpd = tempfile.mkdtemp(prefix="verif_hs_")
        procs = []
        for h in others:
            outp = os.path.join(tmpd, "hs%d.json" % h)
            env = dict(os.environ, PYTHONHASHSEED=str(h), VERIF_SEED=str(seed + h), VERIF_NO_HASH_SWEEP="1")
            procs.append((h, outp, subprocess.Popen(
                [sys.executable, "-m", "harness.main", prop, "--tier", "quick", "--no-build", "--child-json", outp,
                 "--model-runs", "1" if model_runs else "0"], env=env, stdout=subprocess.DEVNULL, stderr=subprocess.DEVNULL)))
        for h, outp, pr in procs:
            try:
                pr.wait(timeout=3000)
                r = json.load(open(outp))
            except Exception as e:
                r = {"violations": [], "known": [], "disagreements": [], "evaluations": 0, "error": repr(e)}
            if r.get("error"):
                res["violations"].append({"kind": "harness-error", "what": "pass under PYTHONHASHSEED=%d failed" % h,
                                          "detail": r["error"], "hash_seed": h})
            for v in r["violations"]:
                res["violations"].append(dict(v, hash_seed=h, generator_seed=seed + h))
            for d in r["disagreements"]:
                res.setdefault("disagreements", []).append(dict(d, hash_seed=h, generator_seed=seed + h))
            for k in r["known"]:
                if k not in res["known"]:
                    res["known"].append(k)
            sweep[str(h)] = {"evaluations": r.get("evaluations", 0), "violations": len(r["violations"]),
                             "disagreements": len(r["disagreements"]), "generator_seed": seed + h}
        import shutil
        shutil.rmtree(tmpd, ignore_errors=True)
        log("passes under other hash seeds: %s" % json.dumps(sweep))
        res["coverage"].setdefault("distribution", {})["passes_under_other_hash_seeds"] = sweep

    # ---- D
    lines = []
    nviol = 0
    failing_inputs = [v for v in res["violations"] if v.get("kind") == "failing-input"]
    for k in res["known"]:
        lines.append("KNOWN-FINDING: property=%s %s" % (prop, k))
    for v in failing_inputs:
        p = common.write_replay(prop, dict(v, property=prop, seed=seed))
        lines.append("VIOLATION property=%s replay=%s" % (prop, p))
        nviol += 1
    broken = []
    if not b["ok"]:
        broken.append({"kind": "broken-obligation", "stage": b["stage"], "detail": b["detail"]})
    for d in res.get("disagreements", []):
        broken.append(dict(d, kind="broken-correspondence"))
    for v in res["violations"]:
        if v.get("kind") != "failing-input":
            broken.append(v)
    if broken:
        if failing_inputs:
            # the concrete failing input is the replay; the broken obligation is context
            p = common.write_replay(prop, {"kind": "context", "broken": broken, "property": prop})
            log("broken obligations/correspondence recorded in " + p)
        else:
            for x in broken[:3]:
                p = common.write_replay(prop, dict(x, property=prop, seed=seed))
                lines.append("VIOLATION property=%s replay=%s no-failing-input-found" % (prop, p))
                nviol += 1

    cov = res["coverage"]
    det = b["detail"] if isinstance(b["detail"], dict) else {}
    cone = common.cone_of("properties/%s.v" % prop)
    n_obl, names = common.count_statements(cone)
    cov.setdefault("obligations", n_obl)
    cov.setdefault("discharged", n_obl if b["ok"] else 0)
    cov.setdefault("checker_cmd",
                   "make -C coq properties/%s.vo && coqc -Q gen Prov -Q theories Prov -Q properties Prov "
                   "properties/%s.v  (Coq 8.16.1; every .v in the cone compiled to .vo, no -vos)" % (prop, prop))
    tb = list(getattr(mod, "TRUSTED_BASE", []))
    tb.append("Print Assumptions: %d theorem(s) reported 'Closed under the global context'; axiom blocks: %s"
              % (det.get("closed_under_global_context", 0), det.get("axiom_blocks", [])))
    cov.setdefault("trusted_base", tb)
    cov["proof_cone_files"] = cone
    cov["build_stage"] = b["stage"]
    common.write_evidence(prop, tier, seed, cov, getattr(mod, "ASSUMPTIONS", []),
                          time.time() - t0, nviol)
    for l in lines:
        print(l, flush=True)
    log("done: %d violation line(s), %d known finding(s)" % (nviol, len(res["known"])))
    return 1 if nviol else 0


if __name__ == "__main__":
    sys.exit(main())
