#!/venv/bin/python
"""Writes MANIFEST.json from the table below (so that it stays valid and in step
with the checks that exist under harness/props/)."""
import json
import os

VERIF = os.path.dirname(os.path.dirname(os.path.abspath(__file__)))

BASELINE = ("cd /repo && /venv/bin/python -m pytest -ra -q -p no:cacheprovider --timeout=900 "
            "--continue-on-collection-errors")

COMMON_NOTE = (
    "Trusted: Coq 8.16.1 kernel (coqc, vm_compute; no native_compute); the hand-written Gallina model "
    "under coq/theories (tied to /repo by the correspondence run of this check, not by proof); "
    "harness/gen_tables.py (tables regenerated from /repo each run); extraction (ExtrOcamlBasic, "
    "ExtrOcamlString only) and ocaml/driver.ml; CPython dict/str/set semantics as modelled. "
    "Print Assumptions output of every property theorem is recorded in the evidence file. Every check runs its "
    "implementation-side part under four PYTHONHASHSEEDs (thorough: seven) and as many generator seeds; a replay file "
    "carries the hash seed it was found under.")

CHECKS = {
    "C03": {
        "text": "Proof (Coq): C03a/C03b/C03c are theorems over Scope.sstep for every finite op sequence "
                "(invariant by induction over the history; termination of _get_unused_prefix proved). "
                "Tie: extracted model vs NamespaceManager on generated namespace histories, full private "
                "manager state compared after every op; clauses (a)(b)(c) also evaluated directly on the "
                "implementation. Clause (c) for bundles is proved under the NoCapture hypothesis that "
                "excludes the open known finding C03-F1; F2/F3 are syntax/discipline exclusions.",
        "design_ref": "DESIGN.md §5 C03, §10",
        "technique": "Coq proof by invariant over op sequences + differential correspondence (extracted model vs implementation)",
    },
}

CHECKS["C05"] = {
    "text": "Proof (Coq) over Record.add_attributes: the attribute loop keeps every record in normal form whether it "
            "returns or raises (induction over the argument list), a second different formal value is refused and the "
            "record unchanged, the same value is a no-op, other attributes accumulate as sets, typed literals of "
            "xsd:int/long (every integer, via DecimalString), string, anyURI, boolean and double (under the float oracle "
            "law) are stored like plain values; xsd:dateTime round trip is only checked on samples (partial). Since the repair "
            "of finding C05-F1 in /repo (1eddd9a) the normal-form theorem holds for every call, also one naming prov:collection "
            "(C05_single_valued_any_call, C05_second_value_refused_any_call: every formal attribute but the members of a "
            "collection keeps at most one value), and is carried through the whole interpreter: in every world built by any history "
            "of calls (those the property quantifies over and every other one, deriving calls and PROV-JSON deserialisation "
            "included) every record is in normal form (C05_reachable_single_valued: the statement of the property). Tie: "
            "extracted model vs implementation on API programs (all 18 kinds, factories read from the AST, every argument "
            "representation), full state compared after every call; direct oracle on the implementation: normal form, "
            "no replaced/lost values after every call, entry-path table.",
    "design_ref": "DESIGN.md §5 C05, §10",
    "technique": "Coq proof by induction over the attribute list + differential correspondence on API programs",
}

CHECKS["C18"] = {
    "text": "Proof (Coq): the identifier map and the record list are separate fields of the model; their agreement "
            "(Coherent) is proved to be an invariant of every API call of the interpreter (all insertion paths) and hence "
            "of every reachable world (induction over the program); get_record is proved to return the scan of the record "
            "list for the URI the argument denotes, get_records the instances of the class (generated hierarchy). Tie: "
            "model vs implementation on API programs with records and _id_map compared after every call; direct oracle: "
            "get_record in every spelling / absent id / get_records for every class / records-is-a-copy on a deep copy "
            "after every mutating call.",
    "design_ref": "DESIGN.md §5 C18, §10",
    "technique": "Coq invariant proof over the API interpreter + differential correspondence",
}
CHECKS["C12"] = {
    "text": "Proof (Coq) on the value-level model: a call changes at most its target document (frame theorem over all "
            "21 operations, any outcome), deriving calls only append documents, and any call sequence that does not target d "
            "leaves d unchanged. Python object sharing is the subject of a second model, a store of objects (Alias.v: managers, "
            "records, bundles/documents pointing at each other; every call allocates, links and writes as model.py does; content "
            "reduced to write counters): ownership invariant for every call sequence (C12_objects_owned), hence no object is "
            "reached from two different documents (C12_no_shared_object), a call leaves every object reached from a document "
            "other than its target as it was (C12_object_frame, C12_object_independent), deriving calls return documents no "
            "earlier handle denotes (C12_derived_is_new). Tie: model vs implementation observations of every document after every "
            "call (derive, then mutate either side); the implementation's object graph by id() against the store model after "
            "every call (objects per sort, records per container, stray _bundle/parent pointers, objects shared between handles); "
            "plus a direct frame/identity oracle on the implementation (partial: record.copy() and add_bundle(ProvBundle object) "
            "are outside the store model; content-dependent counts are read off the implementation).",
    "design_ref": "DESIGN.md §5 C12, §10",
    "technique": "Coq frame theorem over the API interpreter, ownership invariant over an object-store model + differential correspondence (observations and object graph) and object-identity oracle",
}
CHECKS["C09"] = {
    "text": "Proof (Coq): re-creation of a record in a target scope keeps kind and identifier URI under any prefix/default "
            "clash (uses the C03a URI invariant), appends and touches nothing else; flattened() returns a bundle-free new "
            "document with exactly the summed number of records; update leaves the other document unchanged (frame); every "
            "add_bundle refusal leaves the world unchanged and the documented refusals do raise. Not yet proved: equality of "
            "the re-created attribute multiset (stated as C09_full_statement) — covered by the correspondence run and the "
            "strict-multiset oracle on the implementation (partial).",
    "design_ref": "DESIGN.md §5 C09, §10",
    "technique": "Coq proofs over add_record / interpreter steps + differential correspondence and multiset oracle",
}
CHECKS["C08"] = {
    "text": "Proof (Coq): unified() leaves every existing document unchanged (frame), returns a new document, and is the "
            "identity when no two records share kind and identifier; merge and conflict behaviour are computed Examples. "
            "The full merge specification (C08_spec_statement) is not yet proved: it is decided per run by the correspondence "
            "(model vs implementation on identifier-reuse programs) and an independent merge-specification oracle on the "
            "implementation, incl. idempotence and source-unchanged (partial). Known finding C08-F1 (same-identifier memberships that disagree on their member only; the prov:collection half is repaired in /repo, 1eddd9a).",
    "design_ref": "DESIGN.md §5 C08, §10",
    "technique": "Coq proofs (frame, identity case) + differential correspondence and independent merge oracle",
}

CHECKS["C04"] = {
    "text": "Proof (Coq): record == is reflexive, symmetric, transitive; ProvBundle.__eq__'s dedupe + length test + greedy "
            "find-and-remove is proved to hold exactly when both record lists contain the same records (the matching lemma: "
            "for an equivalence, greedy matching over duplicate-free lists decides mutual inclusion, independent of set "
            "iteration order), hence reflexive/symmetric/transitive; ProvDocument.__eq__ iff equal own records and same "
            "bundles both ways, under unique bundle keys, which is proved to hold in every reachable world; permutation and "
            "duplicate invariance and detection of a missing record are corollaries. Hash is not modelled (checked on the "
            "implementation). Tie: Eq/EqRec calls in the correspondence programs incl. variant documents (one "
            "content-preserving transformation or one content-changing edit), both orders; oracle on the implementation: "
            "reflexive, symmetric, transitive, !=, hash, and == iff library-level content equal for all pairs.",
    "design_ref": "DESIGN.md §5 C04, §10",
    "technique": "Coq proof (equivalence + greedy-matching lemma) + differential correspondence and pairwise content oracle",
}

CHECKS["C01"] = {
    "text": "Proof (Coq), value level: every stored value kind (str, bool, int of any size, float under the float-oracle law, "
            "URI, qualified name bound in the container, language-tagged literal) survives encode_json_representation -> "
            "decode_json_representation -> normalisation on insertion unchanged; datetimes on samples; the decoder only builds "
            "well-formed documents (for all trees). The container level (prefix block, identifier-keyed maps, arrays for "
            "repeated identifiers, anonymous ids, bundles) is modelled and executed, its theorem stated but not yet proved "
            "(partial). Tie: ExportJson/LoadJson in the correspondence programs (implementation tree = model tree; loaded "
            "document = model decode); direct oracle: every document x 5 json.dump option sets, strict-content round trip.",
    "design_ref": "DESIGN.md §5 C01, §10",
    "technique": "Coq proofs per value kind + differential correspondence at JSON-tree level + strict round-trip oracle",
}
CHECKS["C10"] = {
    "text": "Proof (Coq): (1) the generated tables that drive the writers agree with the hand-written W3C tables (kinds, names, "
            "formal arguments in order, attribute keys, record keys, time arguments, subtype names) — a renamed constant breaks "
            "the build; (2) end to end at value level: what the independent readers JsonSpec.read_literal and XmlSpec.read_value / "
            "read_child recover from what the model of the writers emits is the strict content of the value, for every value kind "
            "(strings, ints, booleans, floats under the float-oracle law, datetimes via the proved iso round trip, URIs, qualified "
            "names, language-tagged and foreign-typed literals, references and times of formal arguments), both values of "
            "force_types. The readers are Gallina definitions sharing no code with the model of the library's serializers; "
            "extracted, they are run on the implementation's real PROV-JSON (2 option sets) and PROV-XML (force_types off/on) for "
            "every document and must recover the strict content. Container-level end-to-end theorem stated, not proved (partial).",
    "design_ref": "DESIGN.md §5 C10, §10",
    "technique": "Coq proofs (table agreement; value-level writer-model∘spec-reader = content) + extracted independent spec readers "
                 "executed on the implementation's output",
}
CHECKS["C11"] = {
    "text": "Proof (Coq): for every input tree the decoder accepts, the resulting document is well formed (no hypothesis on "
            "the tree); wrapped values, membership expansion, record arrays and the multi-value refusal are computed Examples. "
            "Stability and faithfulness are decided per run: specification-driven trees and single-point mutations of the 398 "
            "ProvToolbox files are loaded by the implementation and by the extracted model (same document or same error "
            "class), written and re-loaded (strict content equal), and compared with the independent specification reader "
            "(never drops or invents); loaded documents that are XML-expressible are written as PROV-XML and read back (cross "
            "format). PROV-XML half: foreign texts from a specification-driven generator (any prov prefix or default namespace, "
            "inner declarations, subtype elements, xsi:type on elements, every literal spelling, prov:other, several entities in "
            "hadMember, re-binding bundles) and the shipped XML files are loaded, re-written in XML (force_types off/on) and in "
            "JSON and re-loaded (strict content equal), and compared with the independent reader XmlSpec.read (partial: "
            "stability of documents with bundles and of PROV-XML documents is decided per run; boundness of names and "
            "a plain manager of a loaded document are the premises of the stability theorem).",
    "design_ref": "DESIGN.md §5 C11, §10",
    "technique": "Coq well-formedness proof of the decoder + differential correspondence on foreign trees + spec-reader oracle",
}

CHECKS["C06"] = {
    "text": "Proof (Coq): for every byte string, the reader's un-escaping inverts the printer's escaping in the \"...\" and "
            "the triple-quoted form, and the printed literal lexes back to exactly that string (induction over the string). "
            "The independent PROV-N reader (lexer + recursive-descent parser from the W3C grammar over Spec.v) is the "
            "executable specification of 'denotes the same document'; it shares nothing with the printer model. Whole-document "
            "theorem stated, not yet proved (partial): decided per run by running the extracted reader on the implementation's "
            "get_provn() for every generated document and comparing with the strict content (formal arguments positionally); "
            "the printer model is tied to the implementation at token level.",
    "design_ref": "DESIGN.md §5 C06, §10",
    "technique": "Coq proof of escape/unescape inversion + extracted grammar-based reader executed on the implementation's text",
}

CHECKS["C16"] = {
    "text": "Proof (Coq) of the dispatch logic over the finite format x destination grid: every destination kind is read "
            "back by the format's own reader, every other reader rejects it, and prov.read's trial loop — with the registry "
            "order generated from /repo and, as repaired, every attempt seeing the whole content — returns the right format; "
            "the pre-repair loop is refuted in the model (XML/TriG on streams -> empty document). The text/bytes dispatch of "
            "ProvDocument.serialize / deserialize, of the four serializers and of prov.read is modelled branch by branch "
            "(IODispatch.v) and proved for every payload: what is written is the payload for a returned string and a text "
            "stream and exactly its UTF-8 bytes for a binary stream and a file (C16_same_text); for every destination kind x "
            "source kind the format's parser is handed that payload (C16_same_parser_input, C16_json_parser_gets_text, "
            "C16_xml_parser_gets_bytes); prov.read tries the registry's formats on the whole content and the right one is handed "
            "the payload (C16_read_detects) — under the round-trip law of the runtime's UTF-8 codec and a UTF-8 locale (premises). "
            "That dispatch is tied per run: for all 60 format x destination x source cells the kind written and what json.load / "
            "etree.parse / ConjunctiveGraph.parse are handed (observed by wrapping them) must be what the model predicts and be "
            "the payload. The parsers are oracles with "
            "recorded laws, validated on every run. Tie: the full grid (4 formats x 4 destinations x 10 ways of reading) is "
            "executed on generated documents with non-ASCII content and compared by strict content (partial: UTF-8 coding "
            "and file I/O are the runtime's).",
    "design_ref": "DESIGN.md §5 C16, §10",
    "technique": "Coq case-split proof of the dispatch + exhaustive grid execution on the implementation",
}
CHECKS["C17"] = {
    "text": "Proof (Coq) over the step model (mkstemp, any number of write calls, close, move; a fault before any step): on "
            "success the named file holds exactly the concatenated chunks, the temp file is gone and nothing else changes; on "
            "any fault the call fails, the named file keeps its previous content or stays absent and only the temp file is "
            "touched; names that are not file: URLs and carry no network location are used verbatim whatever URL syntax they "
            "contain; network locations write nothing; the same protocol over a file system with symbolic links (a link at the "
            "destination is replaced by the file, what it led to keeps its content: C17_links_exact / _target_kept / _atomic); "
            "and with the temp file on another file system, where shutil.move copies through the links (the named path "
            "reads as the whole text, the one entry that changed is the file the chain of links ends at, the links stay, a "
            "failing step or an endless chain leaves all but the temp entry alone: C17_xdev_exact / _link_kept / _atomic). "
            "Tie: the model's destination path vs the file actually written for "
            "every name; the tree left for destinations that are symbolic links (temp directory on the same and on another file system) vs the model's; faults injected from outside (k-th write call, the move) with and without a pre-existing file "
            "(partial: atomicity of os.rename is assumed).",
    "design_ref": "DESIGN.md §5 C17, §10",
    "technique": "Coq proof over a file-system step model + fault injection with unittest.mock on the implementation",
}

CHECKS["C14"] = {
    "text": "Proof (Coq): every edge of the graph carries one of the document's relations and runs from the node of its first "
            "formal argument to the node of its second (node_map invariant), no relation yields more than one edge, with "
            "declared endpoints there is exactly one edge per relation in order, every element node is kept, and "
            "graph_to_prov builds a well-formed bundle-free document; endpoint inference uses the table generated from "
            "/repo. Tie: ToGraph/GraphRoundTrip in the correspondence programs (nodes, edges with direction and edge data, "
            "networkx's iteration order); oracle: an independent specification of the expected graph (PROV-DM roles) and of "
            "the restricted unified content, after every record-changing call on bundle-free documents.",
    "design_ref": "DESIGN.md §5 C14, §10",
    "technique": "Coq proofs over the graph builder + differential correspondence and independent graph specification",
}

CHECKS["C15"] = {
    "text": "Proof (Coq), quoting layer: for every byte string, the double-quoted form prov/dot.py builds (as repaired) is read "
            "by the Graphviz quoted-ID rule as exactly that string and ends at its closing quote, and html.escape output is "
            "accepted by the HTML-like text rule and denotes exactly that string — so no identifier, URI, label or value can "
            "break the syntax or inject markup (C0 control characters: known finding C15-F1). Structure of the drawing (Dotg.v): "
            "the statements prov_to_dot adds to the main graph and to every cluster, in order — element nodes, generic nodes "
            "with their inferred class, blank nodes, annotation nodes, edges with their labels, clusters with their URLs, with "
            "the counters and the shared node_map of the Python code — are modelled and tied per run to the pydot object the "
            "implementation builds (8 option combinations); proved: one element node per element record, of its kind, with its "
            "URI, in order (C15_elements_one_node_each); a bundle's cluster carries its URI and holds exactly its elements "
            "(C15_cluster_elements); a relation with two endpoints is one labelled edge, or two edges through one blank node, "
            "between nodes of the endpoints' URIs (C15_relation_path); every further end of an n-ary relation has its labelled "
            "edge to a node of its URI (C15_nary_further_ends). HTML-like labels (DotLabel.v): the annotation table of a record's "
            "attributes and the two-line label of an element drawn under its prov:label are modelled character by character (tied "
            "per run to the labels of the pydot object: exact text equality) and proved accepted by an acceptor written from "
            "Graphviz's HTML-label grammar (XML lexical level, table/row/cell/text nesting) for every list of rows and all texts of "
            "XML characters (C15_annotation_table_accepted, C15_fancy_label_accepted; C15_F1_refuted for a control character); that "
            "the acceptor accepts no more than Graphviz is measured per run. Styles and Graphviz's acceptance of the whole text are "
            "validated, not proved: every generated document x 7 (quick) / all 80 (thorough) option combinations goes through "
            "the real Graphviz (dot -Tdot_json): acceptance, rankdir, one labelled node per element in its bundle's cluster, "
            "one direct or blank-node path per two-ended relation with the right URLs and direction, the fan of every n-ary "
            "relation, annotation rows (partial).",
    "design_ref": "DESIGN.md §5 C15, §10",
    "technique": "Coq proofs of the two quoting layers and of the drawing's structure over a model tied to the pydot graph + "
                 "execution of every case through the real Graphviz with structural oracle",
}

CHECKS["C13"] = {
    "text": "Proof (Coq) on the model: pure exporters (PROV-JSON, PROV-N, graph, ==, record ==, typed listing) return the world "
            "unchanged, hence any interleaving and repetition of them does and the same export repeated gives the same answer; "
            "unified, flattened, graph round trip and document-from-records only append a document (frame); export calls anywhere "
            "in a history leave no trace (C13_exports_leave_no_trace: the world a history builds is the world it builds with its "
            "export calls struck out), so two histories that make the same calls apart from export calls build the same world and "
            "every later export answers the same on both (C13_same_calls) — the twin the harness builds on the implementation: one "
            "world exported, compared, hashed, unified and flattened after every single call, the other never. In the model "
            "exports cannot write, so for the implementation the 'does not write' half rests on the tie: the model must "
            "predict every document after every export call, and a direct oracle calls 15 exporters (incl. PROV-XML, RDF, DOT, "
            "hash) on every document in a program-dependent order with repetitions and compares strict content, record order, "
            "namespaces and default namespace before/after, text identity of repeated exports, RDF isomorphism, and "
            "same-calls determinism in fresh interpreters (thorough: other PYTHONHASHSEEDs) — proof on the model + "
            "correspondence (partial).",
    "design_ref": "DESIGN.md §5 C13, §10",
    "technique": "Coq purity/frame theorems over the interpreter + differential correspondence and before/after oracle",
}

CHECKS["C02"] = {
    "text": "Proof (Coq), value level, for both values of force_types: what serialize_bundle emits for an attribute value "
            "(text, xsi:type, xml:lang, prov:ref under the ALWAYS_CHECK / force_types / prov:type-location-value / label-time "
            "rules) and _extract_attributes rebuilds is, after normalisation on insertion, the same value of the same Python "
            "kind — strings incl. prov:label and the empty string, ints, booleans, floats (float-oracle law), URIs, "
            "language-tagged strings, references of formal attributes; datetimes, qualified-name values and foreign-typed "
            "literals on samples. Element-tree assembly (nsmap, child order, subtype element names, bundles) is not modelled "
            "(partial). Tie: the writer's decision compared with the model on the grid attribute class x value kind x "
            "force_types via lxml; direct oracle: every XML-expressible generated document x force_types round trip by strict "
            "content.",
    "design_ref": "DESIGN.md §5 C02, §10",
    "technique": "Coq proofs per value kind over the writer/reader decision logic + grid correspondence + strict round-trip oracle",
}

CHECKS["C07"] = {
    "text": "Partial. Proof (Coq), all by computation over finite domains generated from /repo: (1) for 15 relation kinds x the "
            "attributes a qualified relation can carry, the RDF predicate chosen by the writer's cascade of substring tests is "
            "read back by the reader's predicate_mapper and kind-dependent tests as the same attribute (C07-F1 refuted in the "
            "model for custom names containing the tested substrings); (2) quad level (Rdfq.v: binary triple, qualified node and "
            "what it carries, typed nodes, link from the subject, fold of binary association/delegation triples): every relation "
            "shape of the quantifier — kind x identified/anonymous x subset of optional arguments x kind of extra attribute — "
            "alone and in pairs on one subject (same or other object) comes back as itself; the kind lists both functions test "
            "are generated from the source, so editing them breaks the theorem at build time. Values are opaque tokens; elements, "
            "bundles, literal mapping are not modelled. Per run: documents generated inside the quantifier and the whole shape "
            "family are written as TriG, read back, compared set-based with unified(), the decoder re-run on shuffled quad "
            "orders; tie: model predicates vs the implementation's graph, model graph vs implementation graph up to blank-node "
            "renaming, model decoded relations vs the implementation's, for every shape document.",
    "design_ref": "DESIGN.md §5 C07, §10",
    "technique": "Coq proofs by computation over finite domains (predicates; relation shapes and pairs) + structural correspondence "
                 "+ round-trip oracle with shuffled quad orders",
}

NOT_YET = {}


# ---- later rounds: texts that follow what is now proved (see DESIGN.md §10.3)
CHECKS["C09"]["text"] = (
    "Proof (Coq): re-creation of a record in a target scope keeps kind and identifier URI under any prefix/default clash "
    "(uses the C03a URI invariant), appends and touches nothing else; update leaves the other document unchanged (frame); every "
    "add_bundle refusal leaves the world unchanged and the documented refusals do raise. In every reachable world (no "
    "hypothesis on managers or values: WInvUProofs/GoodProofs): the re-created record holds exactly the images of the values "
    "handed over; flattened()'s records are, in order, the images of the document's and its bundles' records; d.update(other) "
    "leaves d with its former records followed by the images of other's, d's bundles in place with only appended records, "
    "every bundle of other as one block of images in the bundle of the same identifier (created when missing); "
    "bundle.update(other) likewise; a successful add_bundle(document, id) appends one bundle under the requested identifier "
    "URI holding the images of the document's records. 'Image' = same kind, identifier URI, attribute URIs and values with "
    "names re-homed; exact equality of the value multiset (C09_full_statement) is decided per run by the correspondence and "
    "the strict-multiset oracle on the implementation.")
CHECKS["C09"]["technique"] = ("Coq proofs over add_record / update / add_bundle / flattened in every reachable world + "
                              "differential correspondence and multiset oracle")
CHECKS["C08"]["text"] = (
    "Proof (Coq): unified() leaves every existing document unchanged (frame), returns a new document, and is the identity "
    "when no two records share kind and identifier; grouping: one record per (kind, identifier) group and every anonymous "
    "record, in first-occurrence order; attributes: a merged record holds exactly the images of its group's values (in every "
    "reachable world); idempotence: the records unified() returns are a fixed point, and in the document it returns no "
    "container has anything left to merge; raise only on conflict: in every reachable container, if unifying raises, the "
    "exception is ProvException and two records of one group hold unequal values under one formal attribute; and conflict "
    "always raises (C08_conflict_always_raises): in every reachable container, if any two records of one group - neither "
    "need be the first, the first need not hold the attribute - hold unequal values under a formal attribute other than "
    "prov:entity, unified() does not return but raises ProvException (or the container is outside the model's domain); "
    "the same under any formal attribute, prov:entity included, in groups none of whose records names prov:collection "
    "(C08_conflict_always_raises_any_attribute: generations, usages, ... naming different entities); and "
    "ProvDocument.unified() returns only when no container of the document holds such a conflict "
    "(C08_document_returns_no_conflict). Collection members are excluded by the statements: memberships disagreeing on "
    "the member only are merged (known finding C08-F1). All of it is tied to the code per run by the correspondence "
    "(model vs implementation on identifier-reuse programs) and an independent merge-specification oracle on the "
    "implementation, which also checks that the result shares no bundle object with the source and that writing to the "
    "result leaves the source alone.")
CHECKS["C08"]["technique"] = ("Coq proofs (frame, grouping, attribute conservation, idempotence, raises exactly on conflict: both halves) + "
                              "differential correspondence and independent merge oracle")
CHECKS["C01"]["text"] = (
    "Proof (Coq): value level — every stored value kind (str, bool, int of any size, float under the float-oracle law, URI, "
    "qualified name bound in the container, language-tagged literal, every valid datetime via the proved ISO round trip) "
    "survives encode_json_representation -> decode_json_representation -> normalisation on insertion unchanged; attribute "
    "level — n values come back as exactly those n values, in order; record level — the object written for a record is read "
    "back, in a container declaring its names, as a record of the same kind and identifier whose every attribute holds the "
    "same values in the same order, nothing else in the container changing; container level — the record maps (kind label -> "
    "identifier string -> object or array of objects, anonymous identifiers and their cache included) are the JSON of an "
    "abstract grouping and are read back as exactly one record per written record, in the grouped order, which is a "
    "permutation of the records; prefix block — for plain managers (pairwise different prefixes and URIs, no built-in "
    "prefix, not the word 'default') the block re-creates the bindings; document level — bundle-free documents with a plain "
    "manager round-trip with no hypothesis on the reader's manager, documents with bundles under pairwise different keys "
    "that denote pairwise different URIs in their bundles' scopes; the decoder only builds well-formed documents (for all "
    "trees). The hypotheses exclude exactly the situations of the open findings C01-F1..F4 (partial in that sense). Tie: ExportJson/LoadJson in the "
    "correspondence programs (implementation tree = model tree; loaded document = model decode); direct oracle: every "
    "document x 5 json.dump option sets, strict-content round trip.")
CHECKS["C01"]["technique"] = ("Coq proofs at value, attribute, record, container and document level + differential "
                              "correspondence at JSON-tree level + strict round-trip oracle")
CHECKS["C10"]["text"] = CHECKS["C10"]["text"].replace(
    "force_types. The readers are Gallina definitions",
    "force_types; (3) record level for PROV-JSON: JsonSpec.read_record of the object written for a record is the record's "
    "kind URI, identifier URI and, per attribute in order, every (attribute URI, value content); (4) container level for "
    "PROV-JSON: JsonSpec.read_container of what the writer emits for a container is the list of its records' contents in the "
    "grouped order. The readers are Gallina definitions")
CHECKS["C14"]["text"] = CHECKS["C14"]["text"].replace(
    "graph_to_prov builds a well-formed bundle-free document; endpoint inference",
    "graph_to_prov builds a well-formed bundle-free document; for every document, document -> graph -> document yields the "
    "images of the declared nodes' records and of exactly the relations on the graph's edges, all of them records of the "
    "unified document; endpoint inference")
CHECKS["C10"]["text"] = CHECKS["C10"]["text"].replace(
    "Container-level end-to-end theorem stated, not proved (partial).",
    "Document level (bundle map) for PROV-JSON and PROV-XML above value level: run, not proved (partial).")
CHECKS["C11"]["text"] = CHECKS["C11"]["text"].replace(
    "the tree); wrapped values,",
    "the tree); what the writer emits for a container is read back record by record (the JSON half of 'writing d and loading "
    "the result gives d again', container level), and the PROV-XML element written for a record is loaded by the model of the "
    "library's reader as that record (C11_written_xml_record_reloads, record level); for every tree the reader accepts, every "
    "record of the document it builds has an attribute dictionary keyed by pairwise different URIs whose value lists are sets "
    "(C11_json_decoded_shape: an invariant of add_attributes whichever way it ends, threaded through the whole reader — two of "
    "the premises of the round-trip theorems become theorems for loaded documents) and holds only stored-form values, each of "
    "which is written and re-loaded as itself once its names are bound (C11_json_decoded_values_reload), and a kind the writer can "
    "name (C11_json_decoded_kinds); with these, C11_json_stable: for every tree the reader accepts, the bundle-free document d it "
    "builds, written and loaded again, is the same records (kind, identifier, every attribute value, in the writer's grouping) — "
    "under premises about d only: plain manager, one value per formal attribute, names that re-read as themselves in the manager "
    "the prefix block gives (what findings C01-F1..F3 are about), valid times, floats in the float table; non-vacuity "
    "C11_json_stable_applies; since the repair of C05-F1, one value per formal attribute is itself a theorem about every loaded "
    "document for all formal attributes but the members of a collection (C11_json_decoded_single_valued), and "
    "C11_json_stable_members needs only 'no membership record lists two members' in its place; that, too, is proved for "
    "every loaded document (C11_json_decoded_normal: the reader never hands new_record two arguments that can denote "
    "prov:entity), so C11_json_stable_loaded has no premise about the values of d left; the PROV-XML reader is "
    "modelled above record level too (XmlReadDoc.xml_read_document: fresh document, prov:other skipped, bundleContent -> "
    "document.bundle(identifier read in the element's scope) and its children, record elements) and tied per run to "
    "ProvDocument.deserialize on whole foreign and library-written texts (document built with every manager table, or error "
    "class); for every tree it accepts the bundles sit under pairwise different URIs and every record's dictionary has the set "
    "shape (C11_xml_decoded_shape); wrapped values,")
CHECKS["C02"]["text"] = CHECKS["C02"]["text"].replace(
    "Element-tree assembly (nsmap, child order, subtype element names, bundles) is not modelled (partial).",
    "Record level, element names: for every record class and attribute list the writer takes out exactly one prov:type pair "
    "naming a subtype of the class (or none) and the reader's treatment of the element name puts it back — no other pair is "
    "touched (XmlLabel.v, tied to _derive_record_label and the reader by 5208 ordered lists + every element name per run). "
    "The rest of element-tree assembly (nsmap, child order, bundles) is not modelled (partial).")
CHECKS["C06"]["text"] = CHECKS["C06"]["text"].replace(
    "Whole-document theorem stated, not yet proved (partial):",
    "Value level: the tokens of a printed value of every kind read back as the value. Record level: the line printed for a "
    "record (name, optional identifier, formal arguments in order with '-' for the absent ones, bracketed attribute list of "
    "any length) is cut by the specification's lexer into tokens which its expression parser reads as the record — kind, "
    "identifier URI, formal arguments, every other attribute value in order. Document level (C06_document, "
    "ProvnDocProofs.v): the whole text printed for a document without bundles — document/endDocument frame, default and prefix "
    "declarations, blank line, one line per record — is read by the specification's reader, with the fuel it derives from the "
    "length of the text (C06_fuel_suffices: that fuel is enough for the lexer on any text), as exactly the document's records in "
    "order under the table its declarations build; with bundles (C06_document_bundles, ProvnBundleProofs.v): every bundle's "
    "frame, declarations and record lines, one level deeper, are read as the bundle under the URI its identifier denotes with "
    "the bundle's declarations in scope, after the document's records — for every document (containers may be empty) whose "
    "names the reader's table resolves. The documents of findings C06-F1..F3 (partial):")
CHECKS["C06"]["technique"] = ("Coq proofs (escape/unescape inversion; value-, record- and document-level printer -> spec lexer -> spec parser = "
                              "content) + extracted grammar-based reader executed on the implementation's text")
CHECKS["C10"]["text"] = CHECKS["C10"]["text"].replace(
    "Document level (bundle map) for PROV-JSON and PROV-XML above value level: run, not proved (partial).",
    "(5) record level for PROV-XML: XmlSpec.read_record of the element the model of the writer builds for a record (element "
    "name, children in the order of sorted_attributes, one child per pair; tied to serialize_bundle on every run by a "
    "per-record element correspondence) is the record — the children are in schema order for every attribute list, each is "
    "read as its pair, a subtype element name gives back the prov:type it stands for. Bundle maps / bundleContent level: "
    "run, not proved (partial).")
CHECKS["C02"]["text"] = CHECKS["C02"]["text"].replace(
    "The rest of element-tree assembly (nsmap, child order, bundles) is not modelled (partial).",
    "The record loop is modelled (XmlRec.v: element name, child order of sorted_attributes, one child per pair) and tied to "
    "serialize_bundle by comparing, per record, the element lxml holds with the element the model builds; that the "
    "children are in schema order and are read back as the record by the specification reader is proved (C10_xml_record). "
    "nsmap, bundles and the library's reader at record level are not modelled (partial).")
CHECKS["C02"]["text"] = CHECKS["C02"]["text"].replace(
    "nsmap, bundles and the library's reader at record level are not modelled (partial).",
    "The reader's loop body is modelled too (XmlRead.v: deserialize_subtree, _extract_attributes, xml_qname_to_QualifiedName; "
    "names resolved in the scope of the element that carries them) and tied to the code by reading every written record "
    "element with the library and with the model. Proved (C02_record_roundtrip): writer model then reader model gives back "
    "a record of the same class and identifier holding exactly the values the writer was given, a subtype element's pair "
    "coming back as the asserted type; container level (C02_container_roundtrip): the elements of a container's records, read "
    "in order, append exactly those records. Scope (XmlScope.v): the prefix map serialize_bundle attaches to the document "
    "element and to every bundleContent is modelled (nsmap_of) and tied to lxml's nsmap of the written elements per run; "
    "proved (C02_scope_*): every name a container's manager binds is read back in that scope as exactly that name, for every "
    "manager of every namespace history (invariant InvR, C02_reachable_managers_registered). The whole written tree "
    "(xml_document) is tied to the implementation per run. The reader's bundleContent dispatch is not modelled (partial).")
CHECKS["C02"]["technique"] = ("Coq proofs at value and record level over models of the writer and of the reader + per-record "
                              "correspondences (written element, records read, element names, value grid) + strict round-trip oracle")


CHECKS["C07"]["text"] = CHECKS["C07"]["text"].replace(
    "Values are opaque tokens; elements, "
    "bundles, literal mapping are not modelled.",
    "(3) value and attribute level (RdfVal.v, RdfValProofs.v, unbounded): the literal mapping both ways — "
    "encode_rdf_representation, decode_rdf_representation with what rdflib's lexical-to-Python conversion and Literal.__init__ "
    "do in between — and the predicate an attribute of an element travels under: every string, integer, boolean, valid datetime, "
    "URI, language-tagged string comes back as itself, a qualified name and the datatype of a foreign literal as names of the same "
    "URI, under the attribute of the same URI (C07_value_*, C07_attribute_roundtrip, C07_name_*), given that full URIs resolve in "
    "the reader's manager — proved (C07_uri_resolves) when the URI's scheme is not a declared prefix and a declared namespace starts "
    "the URI; the first premise is finding C07-F3 (refuted in the model without it); element level (C07_element_roundtrip): the "
    "triples written for all pairs of an element, decoded in the document's manager and handed to new_record, give exactly one record "
    "of that kind, identified by a name of the subject's URI, holding the pairs read back. In Rdfq.v values are opaque tokens; "
    "bundles (named graphs) and the grouping of a graph's triples by subject are not modelled; rdflib/TriG are an oracle (the term read "
    "is the term written, measured).")
CHECKS["C07"]["text"] = CHECKS["C07"]["text"].replace(
    "for every shape document.",
    "for every shape document; model triple and model read-back vs the implementation's for 350 attribute x value cases (the same "
    "cases judged by the direct oracle) and for 150 (thorough: 1500) generated elements with several attributes.")
CHECKS["C07"]["technique"] = ("Coq proofs: by computation over finite domains (predicates; relation shapes and pairs), unbounded at value "
                              "and attribute level (literal mapping, URI resolution) + structural and value correspondences "
                              "+ round-trip oracle with shuffled quad orders")
assert "C07_value_" in CHECKS["C07"]["text"] and "350 attribute" in CHECKS["C07"]["text"] and "C07_element_roundtrip" in CHECKS["C07"]["text"]


CHECKS["C10"]["text"] = CHECKS["C10"]["text"].replace(
    "Bundle maps / bundleContent level: "
    "run, not proved (partial).",
    "(6) PROV-XML document level (C10_xml_document): XmlSpec.read of the whole tree the model of serialize() builds (document "
    "element, records, one bundleContent per bundle with its own prefix map; tied to the written tree per run) is the document's "
    "content — its records in order, then every bundle under the URI of its prov:id. (7) PROV-JSON document level "
    "(C10_json_document): JsonSpec.read of the whole tree the library writes — main members, then the bundle map — is the "
    "document's records (grouped order) and every bundle's records under the URI its key denotes in the bundle's scope (its "
    "prefix block on top of the document's); keys pairwise different (finding C10-F4 otherwise). Both document-level theorems "
    "are over the model of the writers, tied to the written trees per run; the per-run spec readers decide the implementation's "
    "real output (partial only in the premises: names the tables resolve, values of the kinds the value level covers).")


assert "C10_xml_document" in CHECKS["C10"]["text"] and "C10_json_document" in CHECKS["C10"]["text"] and "C02_scope_" in CHECKS["C02"]["text"]


def main():
    props = [json.loads(l) for l in open(os.path.join(VERIF, "properties.jsonl"))]
    checks = []
    na = []
    for p in props:
        pid = p["id"]
        if pid in CHECKS:
            c = CHECKS[pid]
            checks.append({
                "property_id": pid,
                "quick_cmd": "./check %s --tier quick" % pid,
                "thorough_cmd": "./check %s --tier thorough" % pid,
                "evidence_file": "/verif/evidence/%s.json" % pid,
                "replay_cmd_template": "./check %s --replay {path}" % pid,
                "engine": "coq-model+correspondence",
                "level_claimed": {"category": "proof", "text": c["text"], "design_ref": c["design_ref"]},
                "level_note": c.get("note", COMMON_NOTE),
                "technique": c["technique"],
            })
        else:
            na.append({"property_id": pid,
                       "reason": NOT_YET.get(pid, "check not built yet in this round (model and theorems planned, "
                                                  "DESIGN.md §8); not claimed until its check exists")})
    m = {
        "version": 1,
        "setup_cmd": "./setup.sh",
        "hooks": {
            "guard": "PROV_VERIF",
            "enable": "no source hooks: observation through the public API and, for namespace memo tables, "
                      "private attributes; fault injection from outside with unittest.mock. PROV_VERIF=1 is "
                      "exported by ./check but nothing in /repo reads it.",
            "baseline_off_cmd": BASELINE,
            "source_commits": [],
            "add_only": True,
        },
        "engines": [{
            "name": "coq-model+correspondence",
            "path": "/verif/check",
            "serves_properties": sorted(CHECKS),
            "kind_free_text": "Coq 8.16.1 development (coq/theories model, coq/properties theorems) + extracted "
                              "OCaml model driven against the implementation by harness/",
        }],
        "checks": checks,
        "not_applicable": na,
        "notes": "See DESIGN.md. known_findings.json lists open findings (KNOWN-FINDING lines) and fixed ones. Environment knobs of ./check: VERIF_SEED (generator seed), VERIF_HASHSEED (base PYTHONHASHSEED; the check adds three more, thorough six), VERIF_NO_HASH_SWEEP=1 (base hash seed only), PROV_REPO (another checkout of the library).",
    }
    with open(os.path.join(VERIF, "MANIFEST.json"), "w") as f:
        json.dump(m, f, indent=1)
    print("MANIFEST.json: %d checks, %d not claimed" % (len(checks), len(na)))


if __name__ == "__main__":
    main()
