"""C06 — PROV-N output is well-formed and denotes the same document."""
from harness import worldprop, impl as I, common
from harness.content import content_doc, canon_content
from harness.sexp import dumps, loads
from harness.props import c01

PROP = "C06"
TRUSTED_BASE = [
    "Coq 8.16.1 kernel (coqc); vm_compute for Examples; no native_compute",
    "model: coq/theories/Provn.v (get_provn of records and bundles, literal syntax, escaping — character level); tied to "
    "/repo by ExportProvn in the correspondence programs (token-level equality, attribute lists as sets)",
    "independent reader: coq/theories/ProvnSpec.v, a lexer and recursive-descent reader written from the W3C PROV-N grammar "
    "over Spec.v; it imports no model file of the printer; the extracted reader is run on the implementation's real output",
    "PROV-N is write-only in the library: the reader *is* the specification of 'denotes the same document'; it was "
    "cross-checked on the 398 ProvToolbox documents (content recovered from get_provn() equals the loaded content)",
    "extraction: ExtrOcamlBasic + ExtrOcamlString; ocaml/driver.ml",
]
ASSUMPTIONS = ["name local parts need no PROV-N escaping (property quantifier)",
               "same exclusions as C01 (mixed-kind equal values, NaN; ambiguous/unprintable names are known findings)"]


def spec_read(text):
    return loads(common.run_model_batch([dumps(["provnspec", text])])[0])


def diagnose(d):
    feats = c01.diagnose(d)
    import prov.model as M
    from prov.identifier import Identifier, QualifiedName
    for c in [d] + list(d.bundles):
        for r in c.get_records():
            for a, v in r.attributes:
                if isinstance(v, Identifier) and not isinstance(v, QualifiedName) and ('"' in v.uri or "\\" in v.uri):
                    feats.add("uri-with-quote")
                if isinstance(v, M.Literal) and v.langtag is not None and not v.langtag.replace("-", "").isalnum():
                    feats.add("odd-langtag")
    return feats


class C06Oracle(worldprop.Oracle):
    def after(self, idx, op, ob):
        if op[0] == "ExportProvn":
            self.check(idx, int(op[1]))

    def finish(self, ops):
        for i in range(len(self.im.docs)):
            self.check(len(ops), i)

    def check(self, idx, di):
        d = self.im.docs[di]
        if c01.has_mixed_kinds(d):
            return
        try:
            text = d.get_provn()
        except Exception as e:
            self.fail(idx, "get_provn() raised", doc=di, exc=repr(e)[:300], feats=sorted(diagnose(d)))
            return
        got = spec_read(text)
        if got == ["none"]:
            self.fail(idx, "the PROV-N text does not parse under the PROV-N grammar", doc=di, feats=sorted(diagnose(d)),
                      text=text[:700])
            return
        got, want = canon_content(got), canon_content(content_doc(d))
        if got != want:
            self.fail(idx, "the PROV-N text denotes another document", doc=di, feats=sorted(diagnose(d)),
                      got=dumps(got)[:700], want=dumps(want)[:700])
        # the text serialize(format="provn") hands out is PROV-N output as well: read it too when it is another text
        try:
            text2 = d.serialize(format="provn")
        except Exception as e:
            self.fail(idx, "serialize(format='provn') raised", doc=di, exc=repr(e)[:300], feats=sorted(diagnose(d)))
            return
        if text2 != text:
            got2 = spec_read(text2)
            if got2 == ["none"] or canon_content(got2) != want:
                self.fail(idx, "the PROV-N text written by serialize(format='provn') denotes another document (or does not parse)",
                          doc=di, feats=sorted(diagnose(d)), got=dumps(got2)[:700], want=dumps(want)[:700])


def classify(f, ops):
    feats = set(f.get("feats", []))
    if "uri-with-quote" in feats:
        return "C06-F3"
    if "xsi-name" in feats:
        return "C06-F4"
    if "unprintable-name" in feats or "prefix-named-default" in feats and False:
        return "C06-F2"
    if "ambiguous-name" in feats or "empty-prefix-registered" in feats:
        return "C06-F1"
    return None


def run(tier, seed, log, model_runs=True, enlarged=False):
    from harness import progs
    sweep = progs.string_sweep(['a', '"', '\\', '\n', "'"], 4 if tier == "quick" else 5)
    # lines that hold white space only, lines that end in white space, CR LF line ends, inside multi-line strings
    sweep = sweep + ["a\n    \nb", "a\n\t\nb", "x\r\n\r\ny", "trail  \nnext", "\n \n", " \n \n ", "a\n\n\nb", "tab\t\n\tend", "a\n  \"q\"  \n"]
    return worldprop.run(PROP, tier, seed, log, model_runs, enlarged, C06Oracle, ["provn", "mixed"],
                         n_quick=140, n_thorough=2500, classify=classify, nontrivial=c01.nontrivial,
                         ops_range_quick=(6, 20), ops_range_thorough=(8, 36),
                         rule_text="API programs (all record kinds, argument masks, anonymous and identified relations, bundles "
                                   "with own declarations, single- and multi-line strings with quotes and backslashes, typed and "
                                   "language-tagged literals, ints, floats, booleans, datetimes, URIs, qualified-name values); "
                                   "every document's get_provn() is read by the extracted PROV-N reader and the content must "
                                   "equal the strict content of the document (formal arguments positionally); the model's "
                                   "text is compared with the implementation's at token level; non-trivial = >=2 records"
                                   "; fixed programs: every string over {a, double quote, backslash, newline, single quote} up to "
                                   "length 4 (thorough: 5), and multi-line strings with white-space-only lines, trailing white space and CR LF line ends, as a plain and as a language-tagged value; "
                                   "the text serialize(format='provn') returns is read as well whenever it is not the get_provn() text",
                         extra_cases=progs.same_text_programs(("ExportProvn",)) + progs.string_sweep_programs(sweep) + progs.scoping_programs(("ExportProvn",)) + progs.value_grid_programs(("ExportProvn",)) + progs.subtype_programs(("ExportProvn",)) + progs.equal_values_programs(("ExportProvn",)),
                         theorem_note="C06_* over Provn.escape_provn / ProvnSpec.short_string, long_string")


def replay(path, log):
    return worldprop.replay(path, C06Oracle, log)
