"""C10 — emitted PROV-JSON (and PROV-XML) mean the same to an independent reader."""
import json

from harness import worldprop, impl as I, common
from harness.content import content_doc, canon_content
from harness.sexp import dumps, loads
from harness.props import c01

PROP = "C10"
TRUSTED_BASE = [
    "Coq 8.16.1 kernel (coqc); vm_compute for table agreement and Examples; no native_compute",
    "independent readers: coq/theories/JsonSpec.v (and XmlSpec.v) written from the specifications over the hand-written "
    "tables of Spec.v; they import no model file of the library's serializers (checked: coqdep cone of JsonSpec.v). "
    "TablesOK.v proves the generated tables (PROV_N_MAP, record classes with formal attributes in order, attribute keys, "
    "subtype names) agree with Spec.v",
    "Spec.v is written from knowledge of PROV-DM / PROV-JSON / PROV-XML (no network) and cross-checked against the 398 "
    "ProvToolbox JSON files shipped with the tests",
    "the extracted spec reader is run on the implementation's real output (json.loads / expat give the generic tree)",
    "extraction: ExtrOcamlBasic + ExtrOcamlString; ocaml/driver.ml",
]
ASSUMPTIONS = ["same exclusions as C01/C02 (mixed-kind equal values, NaN; known finding classes of ambiguous/unprintable names)"]

OPTS = [{}, {"indent": 2, "sort_keys": True}]


def spec_read_xml(text):
    from harness import xmltree
    t = xmltree.tree_of(text)
    ft = I.float_table([["str", x] for x in sorted(xmltree.leaf_texts(t, set()))])
    return loads(common.run_model_batch([dumps(["xmlspec", ft, t])])[0])


def spec_read_json(tree):
    req = dumps(["jsonspec", I.float_table(tree), tree])
    out = common.run_model_batch([req])[0]
    return loads(out)


class C10Oracle(worldprop.Oracle):
    def after(self, idx, op, ob):
        if op[0] == "ExportJson":
            self.check(idx, int(op[1]))

    def finish(self, ops):
        for i in range(len(self.im.docs)):
            self.check(len(ops), i)
            self.check_xml(len(ops), i)

    def check(self, idx, di):
        d = self.im.docs[di]
        if c01.has_mixed_kinds(d):
            return
        want = canon_content(content_doc(d))
        for o in OPTS:
            try:
                text = d.serialize(format="json", **o)
            except Exception as e:
                self.fail(idx, "serialize(format='json') raised", doc=di, exc=repr(e)[:300], feats=sorted(c01.diagnose(d)) + (["foreign-formal"] if foreign_formal(d) else []))
                return
            tree = I.py_to_jv(json.loads(text))
            got = spec_read_json(tree)
            if got == ["none"]:
                self.fail(idx, "the emitted PROV-JSON is not readable by the specification reader", doc=di,
                          feats=sorted(c01.diagnose(d)) + (["foreign-formal"] if foreign_formal(d) else []), text=text[:600])
                return
            got = canon_content(got)
            if got != want:
                self.fail(idx, "the specification reader recovers another content from the emitted PROV-JSON", doc=di,
                          feats=sorted(c01.diagnose(d)) + (["foreign-formal"] if foreign_formal(d) else []), got=dumps(got)[:700], want=dumps(want)[:700])
                return


    def check_xml(self, idx, di):
        from harness.props import c02
        d = self.im.docs[di]
        if c01.has_mixed_kinds(d) or not c02.expressible(d):
            return
        want = canon_content(content_doc(d))
        for ft in (False, True):
            try:
                text = d.serialize(format="xml", force_types=ft)
            except Exception as e:
                self.fail(idx, "serialize(format='xml') raised", doc=di, exc=repr(e)[:300], feats=sorted(c01.diagnose(d)) + (["foreign-formal"] if foreign_formal(d) else []))
                return
            got = spec_read_xml(text)
            if got == ["none"]:
                self.fail(idx, "the emitted PROV-XML is not readable by the specification reader", doc=di, force_types=ft,
                          feats=sorted(c01.diagnose(d)) + (["foreign-formal"] if foreign_formal(d) else []), text=text[:900])
                return
            got = canon_content(got)
            if got != want:
                self.fail(idx, "the specification reader recovers another content from the emitted PROV-XML", doc=di,
                          force_types=ft, feats=sorted(c01.diagnose(d)) + (["foreign-formal"] if foreign_formal(d) else []), got=dumps(got)[:700], want=dumps(want)[:700])
                return


def foreign_formal(d):
    """does some record hold, as an ordinary attribute, a PROV attribute name that is formal for other kinds only?"""
    from prov.constants import PROV_ATTRIBUTES
    for c in [d] + list(d.bundles):
        for r in c.get_records():
            for a, _ in r.attributes:
                if a in PROV_ATTRIBUTES and a not in r.FORMAL_ATTRIBUTES:
                    return True
    return False


def classify(f, ops):
    if "xsi-name" in (f.get("feats") or []) and "PROV-JSON" in f.get("what", ""):
        return "C10-F7"
    if "xsd-uri-without-hash" in (f.get("feats") or []) and "PROV-XML" in f.get("what", ""):
        return "C10-F6"
    if "foreign-formal" in (f.get("feats") or []) and f.get("what", "").startswith("the specification reader recovers another content"):
        return "C10-F5"
    c = c01.classify(f, ops)
    return {"C01-F1": "C10-F1", "C01-F2": "C10-F2", "C01-F3": "C10-F3", "C01-F4": "C10-F4"}.get(c)


def run(tier, seed, log, model_runs=True, enlarged=False):
    from harness import progs
    progs.FOREIGN_FORMAL_RATE = 0      # finding C10-F5 lives there; the fixed program of progs.foreign_formal_programs replays it
    return worldprop.run(PROP, tier, seed, log, model_runs, enlarged, C10Oracle, ["json", "mixed"],
                         n_quick=120, n_thorough=2000, classify=classify, nontrivial=c01.nontrivial,
                         ops_range_quick=(6, 20), ops_range_thorough=(8, 36),
                         rule_text="API programs as in C01; every document, at every export and at the end, is serialised (2 "
                                   "option sets), parsed by json.loads, and read by the extracted specification reader "
                                   "JsonSpec.read; the content it recovers must equal the strict content of the document; "
                                   "non-trivial = >=2 record-creating calls",
                         extra_cases=__import__('harness.progs', fromlist=['x']).same_text_programs(("ExportJson",)) + __import__('harness.progs', fromlist=['x']).scoping_programs(("ExportJson",)) + __import__('harness.progs', fromlist=['x']).value_grid_programs(("ExportJson",)) + __import__('harness.progs', fromlist=['x']).subtype_programs(("ExportJson",)),
                         theorem_note="C10 tables agreement (TablesOK) and JsonSpec.read")


def replay(path, log):
    return worldprop.replay(path, C10Oracle, log)
