"""C17 — writing to a file path is exact and all-or-nothing."""
import io
import json
import os
import random
import shutil
import tempfile
import time
import traceback
from collections import Counter
from unittest import mock

from harness import common
from harness.sexp import dumps, loads

PROP = "C17"
TRUSTED_BASE = [
    "Coq 8.16.1 kernel (coqc); no native_compute",
    "model: coq/theories/IO.v — dest_path (urlparse as used, as repaired) and the step model mkstemp / write c1..cn / close "
    "/ move with a fault before any step; tied to /repo by comparing, for every file name of the run, the model's "
    "destination path with the file the implementation actually wrote, and the model's fault predictions with the observed "
    "file system",
    "atomicity of os.rename within one file system is an assumption of the platform; the temp file lives in the "
    "default temp directory (cross-device moves degrade to copy+remove, below the property's fault granularity)",
    "faults are injected from outside the source with unittest.mock (the stream returned by os.fdopen; shutil.move)",
    "extraction: ExtrOcamlBasic + ExtrOcamlString; ocaml/driver.ml",
]
ASSUMPTIONS = ["file names containing '//' or starting a network location are outside 'local file names'",
               "a temp file left behind in the temp directory after a failure is reported in the evidence, not as a violation"]

NAMES = ["out.json", "with space.prov", "ünï-ファイル.out", "a#b.json", "c d?e;f.json", "x:y.json", "q;p", "a?b#c",
         "sub/dir/deep.xml", "UPPER:CASE.TXT", "file.name.with.dots", "semi;colon?and#hash", "100%.json", "+plus+", "a:b:c",
         "results%20v2.json", "a%23b.json", "%41.json", "p%2Fq.json", "{abs}/pct%3Fname.xml",
         "{abs}/abs.json", "{abs}/sp ace#1.json", "file://{abs}/via-file-url.json"]
REFUSED = ["http://example.org/x.json", "ftp://host/file", "x://y/z"]


def docs():
    import prov.model as M
    import datetime
    out = []
    d = M.ProvDocument()
    d.add_namespace("ex", "http://example.org/")
    e = d.entity("ex:e1", {"ex:label": "ünïcødé \U0001F600", "ex:n": 5, "ex:t": datetime.datetime(2012, 3, 31, 9, 21)})
    a = d.activity("ex:a1")
    d.wasGeneratedBy(e, a, identifier="ex:g1")
    out.append(d)
    d2 = M.ProvDocument()
    d2.add_namespace("ex", "http://example.org/")
    for i in range(40):
        # several stream buffers long, ASCII and multi-byte text mixed (characters and bytes are counted differently)
        d2.entity("ex:e%d" % i, {"ex:payload": "x" * 200, "ex:i": i, "ex:note": "ファイル é \U0001F600 " * 12})
    out.append(d2)
    out.append(M.ProvDocument())
    return out


class Boom(IOError):
    pass


def serializer_options(ds, scratch):
    """The complete serialisation *of that call*: keyword arguments meant for the serializer (indent, sort_keys,
    ensure_ascii for JSON; force_types for XML; rdf_format for RDF) reach it when the destination is a file name as they
    do when the text is returned — the named file holds exactly the text the same call returns without destination."""
    fails, n, distinguishing = [], 0, 0
    work = os.path.join(scratch, "opts")
    shutil.rmtree(work, ignore_errors=True)
    os.makedirs(work)
    cases = [("json", {"indent": 2}), ("json", {"indent": 4, "sort_keys": True}), ("json", {"ensure_ascii": False}),
             ("json", {"separators": (",", ":")}), ("xml", {"force_types": True}), ("rdf", {"rdf_format": "nt"}),
             ("rdf", {"rdf_format": "xml"})]
    for di, doc in enumerate(ds[:2]):
        for ci, (fmt, kw) in enumerate(cases):
            n += 1
            name = os.path.join(work, "o%d_%d.%s" % (di, ci, fmt))
            case = {"name": os.path.basename(name), "format": fmt, "serializer_arguments": {k: repr(v) for k, v in kw.items()}}
            try:
                import warnings
                with warnings.catch_warnings():
                    warnings.simplefilter("ignore")          # rdflib: "NTSerializer always uses UTF-8 encoding"
                    want = doc.serialize(format=fmt, **kw)
                    plain = doc.serialize(format=fmt)
                    with mock.patch("builtins.print"):
                        doc.serialize(name, format=fmt, **kw)
                got = open(name, "rb").read().decode("utf-8")
            except Exception as e:
                fails.append(dict(case, what="serialize to a file name with serializer arguments raised", exc=repr(e)[:200]))
                continue
            if fmt == "rdf":
                # rdflib's line and blank-node order is not repeatable between two calls: compare as sets of lines for
                # N-Triples, by syntax family otherwise (TriG text is neither N-Triples nor RDF/XML)
                if kw["rdf_format"] == "nt":
                    same = sorted(got.split("\n")) == sorted(want.split("\n"))
                else:
                    same = got.lstrip().startswith("<?xml") == want.lstrip().startswith("<?xml")
            else:
                same = got == want
            if want != plain:
                distinguishing += 1
            if not same:
                fails.append(dict(case, what="the named file does not hold the serialisation this call returns without destination "
                                             "(serializer arguments lost or changed on the way to the file)",
                                  file_starts=got[:80], returned_starts=want[:80]))
    return n, distinguishing, fails


def chdir_sequences(ds, scratch):
    """A relative file name means the file of that name in the working directory *at the time of the call*: the same
    relative name written from directory A, then from B, then from A again (other documents, other formats) — after each
    call exactly that directory's file holds exactly that serialisation and no other file of either directory changed."""
    fails = []
    n = 0
    cwd = os.getcwd()
    old_tmp = tempfile.tempdir
    dirs = [os.path.join(scratch, "cwd_" + x) for x in ("A", "B", "C")]
    tmpd = os.path.join(scratch, "tmp_cd")
    try:
        for name in ("out.json", "sub/dir/r e#l.xml", "results%20v2.json"):
            for p in dirs:
                shutil.rmtree(p, ignore_errors=True)
                os.makedirs(os.path.join(p, "sub/dir"))
            shutil.rmtree(tmpd, ignore_errors=True)
            os.makedirs(tmpd)
            tempfile.tempdir = tmpd
            steps = [(0, ds[0], "json"), (1, ds[-1], "xml"), (0, ds[-1], "provn"), (2, ds[0], "rdf"), (1, ds[0], "json")]
            for k, (di, doc, fmt) in enumerate(steps):
                n += 1
                expected = doc.serialize(format=fmt).encode("utf-8")
                before = [snapshot(x) for x in dirs]
                os.chdir(dirs[di])
                try:
                    with mock.patch("builtins.print"):
                        doc.serialize(name, format=fmt)
                    raised = None
                except Exception as e:
                    raised = repr(e)[:200]
                finally:
                    os.chdir(cwd)
                after = [snapshot(x) for x in dirs]
                case = {"name": name, "call": k, "directory": "ABC"[di], "earlier_calls_from": ["ABC"[s[0]] for s in steps[:k]]}
                if raised:
                    fails.append(dict(case, what="serialize to a relative file name raised", exc=raised))
                    continue
                if after[di].get(name) != expected:
                    fails.append(dict(case, what="the file of that name in the current working directory does not hold the serialisation",
                                      changed=[["ABC"[j], f] for j in range(3) for f in sorted(set(before[j]) | set(after[j])) if before[j].get(f) != after[j].get(f)]))
                for j in range(3):
                    ch = [f for f in sorted(set(before[j]) | set(after[j])) if before[j].get(f) != after[j].get(f) and not (j == di and f == name)]
                    if ch:
                        fails.append(dict(case, what="serialize changed a file other than the named one", where="ABC"[j], files=ch))
                if os.listdir(tmpd):
                    fails.append(dict(case, what="a temp file was left behind after a successful write"))
    finally:
        os.chdir(cwd)
        tempfile.tempdir = old_tmp
    return n, fails


def symlink_destinations(ds, scratch):
    """The destination name is a symbolic link (to a file beside it through a relative target, to a file elsewhere through
    an absolute target, dangling), the call is made from another directory than the link's: afterwards reading the named
    path gives exactly the serialisation, and apart from the named entry and the file the link really led to, no entry
    of the tree — the working directory included — was created, removed or changed."""
    fails, n = [], 0
    model_cases = []
    cwd = os.getcwd()
    old_tmp = tempfile.tempdir
    root = os.path.join(scratch, "links")
    tmpd = os.path.join(scratch, "tmp_links")

    def snap():
        out = {}
        for dp, dn, fn in os.walk(root):
            for f in fn + [x for x in dn if os.path.islink(os.path.join(dp, x))]:
                p = os.path.join(dp, f)
                rel = os.path.relpath(p, root)
                if os.path.islink(p):
                    out[rel] = ("link", os.readlink(p), open(p, "rb").read() if os.path.isfile(p) else None)
                else:
                    out[rel] = ("file", open(p, "rb").read())
        return out
    tmpd_same = tmpd
    xdir = other_filesystem_dir()
    try:
      for xfs in ([False, True] if xdir else [False]):
        # xfs: the temp directory is on another file system, shutil.move copies through the links (IOLinks.serialize_to_lx)
        tmpd = os.path.join(xdir, "c17_tmpl_%d" % os.getpid()) if xfs else tmpd_same
        for kind in ("relative-target", "absolute-target", "dangling", "relative-target-up", "chain"):
            for fmt, doc in (("json", ds[0]), ("provn", ds[-1]), ("xml", ds[0])):
                shutil.rmtree(root, ignore_errors=True)
                shutil.rmtree(tmpd, ignore_errors=True)
                os.makedirs(os.path.join(root, "sub"))
                os.makedirs(os.path.join(root, "elsewhere"))
                os.makedirs(tmpd)
                tempfile.tempdir = tmpd
                link = os.path.join(root, "sub", "out." + fmt)
                if kind == "relative-target":
                    open(os.path.join(root, "sub", "data.json"), "wb").write(b"OLD CONTENT")
                    os.symlink("data.json", link)
                    real = "sub/data.json"
                elif kind == "relative-target-up":
                    open(os.path.join(root, "elsewhere", "data.json"), "wb").write(b"OLD CONTENT")
                    os.symlink("../elsewhere/data.json", link)
                    real = "elsewhere/data.json"
                elif kind == "absolute-target":
                    open(os.path.join(root, "elsewhere", "data.json"), "wb").write(b"OLD CONTENT")
                    os.symlink(os.path.join(root, "elsewhere", "data.json"), link)
                    real = "elsewhere/data.json"
                elif kind == "chain":
                    open(os.path.join(root, "elsewhere", "data.json"), "wb").write(b"OLD CONTENT")
                    os.symlink("../elsewhere/data.json", os.path.join(root, "sub", "second"))
                    os.symlink("second", link)
                    real = "elsewhere/data.json"
                else:
                    os.symlink("nothing-here.json", link)
                    real = "sub/nothing-here.json"
                open(os.path.join(root, "data.json"), "wb").write(b"A FILE OF THE WORKING DIRECTORY")
                expected = doc.serialize(format=fmt).encode("utf-8")
                before = snap()
                n += 1
                os.chdir(root)
                try:
                    with mock.patch("builtins.print"):
                        doc.serialize("sub/out." + fmt, format=fmt)
                    raised = None
                except Exception as e:
                    raised = repr(e)[:200]
                finally:
                    os.chdir(cwd)
                after = snap()
                case = {"name": "sub/out." + fmt, "destination_is": "a symbolic link, " + kind, "format": fmt,
                        "temp_dir_on_another_file_system": bool(xfs)}
                model_cases.append((case, before, "sub/out." + fmt, expected, after, bool(xfs)))
                if raised:
                    fails.append(dict(case, what="serialize to a name that is a symbolic link raised", exc=raised))
                    continue
                try:
                    got = open(link, "rb").read()
                except Exception as e:
                    got = repr(e)
                if got != expected:
                    fails.append(dict(case, what="reading the named file does not give the serialisation", got=str(got[:60])))
                # a link is compared as an entry (its target text): what reading *through* it gives changes with the file at the
                # end of the chain, which is `real`
                def ent(e):
                    return e[:2] if e and e[0] == "link" else e
                ch = [f for f in sorted(set(before) | set(after)) if ent(before.get(f)) != ent(after.get(f)) and f not in ("sub/out." + fmt, real)]
                if ch:
                    fails.append(dict(case, what="serialize changed a file other than the named one", files=ch))
                if os.listdir(tmpd):
                    fails.append(dict(case, what="a temp file was left behind after a successful write"))
        # a directory component that is a symbolic link, followed by "..": the operating system resolves the name through
        # the link's target (its parent), not lexically
        for fmt, doc in (("json", ds[0]), ("provn", ds[-1]), ("xml", ds[0])):
            for pre in (False, True):
                shutil.rmtree(root, ignore_errors=True)
                shutil.rmtree(tmpd, ignore_errors=True)
                os.makedirs(os.path.join(root, "dir"))
                os.makedirs(os.path.join(root, "far", "away"))
                os.makedirs(tmpd)
                tempfile.tempdir = tmpd
                os.symlink(os.path.join(root, "far", "away"), os.path.join(root, "dir", "link"))
                name = "dir/link/../out." + fmt                 # = far/out.<fmt>
                open(os.path.join(root, "dir", "out." + fmt), "wb").write(b"A BYSTANDER OF THE SAME NAME")
                if pre:
                    open(os.path.join(root, "far", "out." + fmt), "wb").write(b"OLD CONTENT")
                expected = doc.serialize(format=fmt).encode("utf-8")
                before = snap()
                n += 1
                os.chdir(root)
                try:
                    with mock.patch("builtins.print"):
                        doc.serialize(name, format=fmt)
                    raised = None
                except Exception as e:
                    raised = repr(e)[:200]
                try:
                    got = open(name, "rb").read()
                except Exception as e:
                    got = repr(e).encode()
                finally:
                    os.chdir(cwd)
                after = snap()
                case = {"name": name, "destination_is": "below a symbolic link to a directory, then '..'", "format": fmt, "preexisting": pre}
                if raised:
                    fails.append(dict(case, what="serialize to a name through a linked directory raised", exc=raised))
                    continue
                if got != expected:
                    fails.append(dict(case, what="reading the named file does not give the serialisation", got=str(got[:60])))
                ch = [f for f in sorted(set(before) | set(after)) if before.get(f) != after.get(f) and f != "far/out." + fmt]
                if ch:
                    fails.append(dict(case, what="serialize changed a file other than the named one", files=ch))
    finally:
        os.chdir(cwd)
        tempfile.tempdir = old_tmp
        if xdir:
            shutil.rmtree(os.path.join(xdir, "c17_tmpl_%d" % os.getpid()), ignore_errors=True)
    # the same cases through the model of the write protocol over files and links (IOLinks.serialize_to_l; temp file and
    # destination are on one file system here, so the last step is os.rename): the tree afterwards must be the model's
    if os.path.exists(common.DRIVER) and model_cases:
        def entries(snapd, linkdir_of):
            out = []
            for rel, e in sorted(snapd.items()):
                if e[0] == "file":
                    out.append([rel, ["file", e[1].decode("utf-8", "replace")]])
                else:
                    t = e[1]
                    t = os.path.relpath(t, root) if os.path.isabs(t) else os.path.normpath(os.path.join(os.path.dirname(rel), t))
                    out.append([rel, ["link", t]])
            return out
        reqs = [dumps(["destlinksx" if x else "destlinks", entries(b, None), name, exp.decode("utf-8", "replace")])
                for _, b, name, exp, _, x in model_cases]
        for (case, b, name, exp, a, x), line in zip(model_cases, common.run_model_batch(reqs)):
            m = loads(line)
            want = sorted((x[0], tuple(x[1])) for x in m[1]) if isinstance(m, list) and m and m[0] == "ok" else None
            got = sorted((x[0], tuple(x[1])) for x in entries(a, None))
            if want != got:
                fails.append(dict(case, what="the tree after the call is not the one the model of the write protocol gives "
                                             "(IOLinks.serialize_to_l / serialize_to_lx; C17_links_exact / C17_xdev_exact)",
                                  model=str(want)[:400], implementation=str(got)[:400]))
    return n, fails


def snapshot(root):
    out = {}
    for dp, dn, fn in os.walk(root):
        for f in fn:
            p = os.path.join(dp, f)
            with open(p, "rb") as fh:
                out[os.path.relpath(p, root)] = fh.read()
    return out


def model_dest(names):
    reqs = [dumps(["destpath", n]) for n in names]
    return [loads(x) for x in common.run_model_batch(reqs)]


def other_filesystem_dir():
    """a directory on another file system than the scratch area (shutil.move then copies and unlinks instead of
    renaming), or None when the sandbox offers none"""
    for cand in ("/dev/shm", "/run/shm"):
        try:
            if os.path.isdir(cand) and os.access(cand, os.W_OK) and os.stat(cand).st_dev != os.stat(tempfile.gettempdir()).st_dev:
                return cand
        except OSError:
            pass
    return None


def run_case(doc, fmt, name, preexisting, fault, scratch, cross_fs=False):
    """Returns (record, failures).  fault: None | ('write', k) | ('move',).  cross_fs: the temp directory is on another
    file system than the destination."""
    work = os.path.join(scratch, "work")
    tmpd = os.path.join(scratch, "tmp")
    xfs = other_filesystem_dir() if cross_fs else None
    if xfs:
        tmpd = os.path.join(xfs, "c17_tmp_%d" % os.getpid())
    for p in (work, tmpd):
        shutil.rmtree(p, ignore_errors=True)
        os.makedirs(p)
    real = name.replace("{abs}", os.path.join(work, "absdir"))
    os.makedirs(os.path.join(work, "absdir"), exist_ok=True)
    os.makedirs(os.path.join(work, "sub/dir"), exist_ok=True)
    target = real[len("file://"):] if real.startswith("file://") else real
    target_abs = target if os.path.isabs(target) else os.path.join(work, target)
    # the complete serialisation: the text serialize() returns, UTF-8 encoded (not what a binary stream receives — that goes
    # through the same writer branch as the file and would share its mistakes)
    expected = doc.serialize(format=fmt).encode("utf-8")
    if preexisting:
        if preexisting == "same-length":
            old = b"x" * len(expected)                   # as long as what is about to be written, nothing in common
        elif preexisting == "tail-differs":
            old = expected[:-1] + (b"X" if expected[-1:] != b"X" else b"Y")    # differs from it in the last byte only
        elif preexisting == "head-differs":
            old = (b"X" if expected[:1] != b"X" else b"Y") + expected[1:]
        elif preexisting == "shorter":
            old = expected[:len(expected) // 2]
        else:
            old = b"PREVIOUS CONTENT " * 20000           # longer than any document written over it
        with open(target_abs, "wb") as fh:
            fh.write(old)
    before = snapshot(work)
    fails = []
    writes = [0]
    cwd = os.getcwd()
    os.chdir(work)
    old_tmp = tempfile.tempdir
    tempfile.tempdir = tmpd
    raised = None
    try:
        patches = []
        if fault and fault[0] == "write":
            real_fdopen = os.fdopen

            def fake_fdopen(fd, *a, **k):
                f = real_fdopen(fd, *a, **k)
                orig = f.write

                class W:
                    def __getattr__(self, n):
                        return getattr(f, n)

                    # "with os.fdopen(...) as stream:" looks these up on the type, not through __getattr__
                    def __enter__(self):
                        return self

                    def __exit__(self, *exc):
                        self.close()
                        return False

                    def write(self, data):
                        if writes[0] == fault[1]:
                            writes[0] += 1
                            raise Boom("injected write failure")
                        writes[0] += 1
                        return orig(data)
                return W()
            patches.append(mock.patch("os.fdopen", fake_fdopen))
        else:
            real_fdopen = os.fdopen

            def count_fdopen(fd, *a, **k):
                f = real_fdopen(fd, *a, **k)
                orig = f.write

                class W:
                    def __getattr__(self, n):
                        return getattr(f, n)

                    # "with os.fdopen(...) as stream:" looks these up on the type, not through __getattr__
                    def __enter__(self):
                        return self

                    def __exit__(self, *exc):
                        self.close()
                        return False

                    def write(self, data):
                        writes[0] += 1
                        return orig(data)
                return W()
            patches.append(mock.patch("os.fdopen", count_fdopen))
        if fault and fault[0] == "close":
            # the flush inside close() fails (disk full): nothing of the buffer reaches the temp file
            real_fdopen2 = os.fdopen

            def close_fdopen(fd, *a, **k):
                f = real_fdopen2(fd, *a, **k)
                orig = f.write

                class W:
                    def __getattr__(self, n):
                        return getattr(f, n)

                    # "with os.fdopen(...) as stream:" looks these up on the type, not through __getattr__
                    def __enter__(self):
                        return self

                    def __exit__(self, *exc):
                        self.close()
                        return False

                    def write(self, data):
                        writes[0] += 1
                        return orig(data)

                    def close(self):
                        raise Boom("injected failure of the flush at close")
                return W()
            patches = [mock.patch("os.fdopen", close_fdopen)]
        if fault and fault[0] == "move":
            def boom_move(*a, **k):
                raise Boom("injected move failure")
            patches.append(mock.patch("shutil.move", boom_move))
        for p in patches:
            p.start()
        old_limit = old_sig = None
        if fault and fault[0] == "fsize":
            # the operating system cuts writes short: a file-size limit at half the document (SIGXFSZ ignored, so that
            # write() fails with EFBIG — or, on an unbuffered stream, returns a short count — instead of killing us)
            import resource
            import signal as _signal
            old_limit = resource.getrlimit(resource.RLIMIT_FSIZE)
            old_sig = _signal.signal(_signal.SIGXFSZ, _signal.SIG_IGN)
            resource.setrlimit(resource.RLIMIT_FSIZE, (max(1, len(expected) // 2), old_limit[1]))
        try:
            with mock.patch("builtins.print"):
                doc.serialize(real, format=fmt)
        except Exception as e:
            raised = e
        finally:
            if old_limit is not None:
                import resource
                import signal as _signal
                resource.setrlimit(resource.RLIMIT_FSIZE, old_limit)
                _signal.signal(_signal.SIGXFSZ, old_sig)
            for p in patches:
                p.stop()
    finally:
        os.chdir(cwd)
        tempfile.tempdir = old_tmp
    after = snapshot(work)
    leftovers = os.listdir(tmpd) if os.path.isdir(tmpd) else []
    rel = os.path.relpath(target_abs, work)
    changed = sorted(k for k in set(before) | set(after) if before.get(k) != after.get(k))
    if xfs:
        shutil.rmtree(tmpd, ignore_errors=True)
    rec = {"name": name, "fmt": fmt, "preexisting": preexisting, "fault": fault, "writes": writes[0], "cross_fs": bool(xfs),
           "raised": type(raised).__name__ if raised else None, "changed": changed, "tmp_leftover": len(leftovers)}
    if fault is None:
        if raised is not None:
            fails.append({"what": "serialize to a local file name raised", "exc": repr(raised)[:300]})
        elif after.get(rel) != expected:
            fails.append({"what": "the named file does not hold exactly the serialisation",
                          "wrote": changed, "target": rel})
        elif changed != [rel] and not (changed == [] and before.get(rel) == expected):
            fails.append({"what": "serialize wrote somewhere else as well", "changed": changed, "target": rel})
        if leftovers:
            fails.append({"what": "a temp file was left behind after a successful write", "n": len(leftovers)})
    else:
        effective = not (fault[0] == "write" and fault[1] >= max(writes[0], 1) and raised is None)
        if fault[0] == "fsize" and raised is None and after.get(rel) == expected:
            effective = False           # (the limit did not bite: the whole document was written)
        if effective:
            if raised is None:
                fails.append({"what": "a failing write/move did not surface as an exception"})
            if after.get(rel) != before.get(rel):
                fails.append({"what": "after a failure the named file does not keep its previous content",
                              "had": (before.get(rel) or b"<absent>")[:20].decode("latin1"),
                              "has": (after.get(rel) or b"<absent>")[:40].decode("latin1")})
            if [c for c in changed if c != rel]:
                fails.append({"what": "a failed write changed other files", "changed": changed})
        else:
            rec["fault_not_reached"] = True
    rec["observed_target"] = changed[0] if len(changed) == 1 else (rel if not changed and fault is None else None)
    return rec, fails


def run(tier, seed, log, model_runs=True, enlarged=False):
    t0 = time.time()
    rng = random.Random(seed)
    scratch = tempfile.mkdtemp(prefix="c17_")
    violations, disagreements = [], []
    recs = []
    try:
        ds = docs()
        fmts = ["json", "xml", "provn", "rdf"]
        cases = []
        names = list(NAMES)
        # random local names over an alphabet of URL syntax, percent escapes, spaces and non-ASCII
        alpha = ["a", "b", "Z", "1", " ", "#", "?", ";", ":", "%", "20", "%41", ".", "é", "+", "&", "=", "@", "~", "-", "_", "(", ","]
        while len(names) < len(NAMES) + (25 if tier == "quick" else 400):
            nm = "".join(rng.choice(alpha) for _ in range(rng.randrange(1, 9)))
            if "//" in nm or nm.strip(" .") == "" or nm in names or nm.startswith((" ", "-")) or nm.endswith(" "):
                continue
            names.append(nm if rng.random() < 0.8 else "{abs}/" + nm)
        for name in names:
            for fmt in (fmts if tier == "thorough" else [rng.choice(fmts), "json"]):
                for pre in (False, True):
                    d = ds[0] if tier == "quick" else rng.choice(ds)
                    cases.append((d, fmt, name, pre, None))
        # a destination that already holds something close to what is written: same length, same but for the last or the
        # first byte, a prefix of it (small and multi-block documents)
        for name in (["out.json", "{abs}/sp ace#1.json"] if tier == "quick" else NAMES[:6] + ["{abs}/sp ace#1.json"]):
            for fmt in fmts:
                for pre in ("same-length", "tail-differs", "head-differs", "shorter"):
                    for d in (ds[:2] if len(ds) > 1 else ds):
                        cases.append((d, fmt, name, pre, None))
        # faults: at each successive write call and at the move
        fault_names = ["a#b.json", "out.json", "{abs}/sp ace#1.json", "results%20v2.json"] if tier == "quick" else NAMES[:8] + ["{abs}/sp ace#1.json"]
        for name in fault_names:
            for fmt in fmts:
                for pre in (False, True):
                    for d in (ds[:2] if tier == "thorough" else ds[:1]):
                        cases.append((d, fmt, name, pre, ("move",)))
                        cases.append((d, fmt, name, pre, ("close",)))
                        cases.append((d, fmt, name, pre, ("fsize",)))
                        for k in range(0, 4 if tier == "quick" else 8):
                            cases.append((d, fmt, name, pre, ("write", k)))
        # the temp directory on another file system than the destination (the final move is then a copy and an unlink):
        # small and multi-block documents, every format, with and without a pre-existing file, no fault and a failing move
        if other_filesystem_dir():
            for fmt in fmts:
                for pre in (False, True, "same-length"):
                    for d in (ds[:2] if len(ds) > 1 else ds):
                        cases.append((d, fmt, "out.json", pre, None, True))
                        cases.append((d, fmt, "{abs}/sp ace#1.json", pre, ("move",), True))
        for name in REFUSED:
            cases.append((ds[0], "json", name, False, None))
        for case in cases:
            d, fmt, name, pre, fault = case[:5]
            cross = len(case) > 5 and case[5]
            if name in REFUSED:
                # must write nothing at all
                work = os.path.join(scratch, "work")
                shutil.rmtree(work, ignore_errors=True)
                os.makedirs(work)
                cwd = os.getcwd()
                os.chdir(work)
                try:
                    with mock.patch("builtins.print"):
                        d.serialize(name, format=fmt)
                finally:
                    os.chdir(cwd)
                wrote = snapshot(work)
                recs.append({"name": name, "refused": True, "wrote": sorted(wrote)})
                if wrote:
                    violations.append({"kind": "failing-input", "failure": {"what": "a network location was written to a local file",
                                                                            "files": sorted(wrote)}, "case": [fmt, name]})
                continue
            try:
                rec, fails = run_case(d, fmt, name, pre, fault, scratch, cross_fs=cross)
            except Exception:
                violations.append({"kind": "harness-error", "what": "harness error", "detail": traceback.format_exc()[-1500:]})
                continue
            recs.append(rec)
            for f in fails:
                violations.append({"kind": "failing-input", "failure": f,
                                   "case": {"format": fmt, "name": name, "preexisting": pre, "fault": fault, "temp_dir_on_another_file_system": bool(cross)}})
        try:
            n_cd, cd_fails = chdir_sequences(ds, scratch)
        except Exception:
            n_cd, cd_fails = 0, []
            violations.append({"kind": "harness-error", "what": "harness error", "detail": traceback.format_exc()[-1500:]})
        for f in cd_fails[:3]:
            violations.append({"kind": "failing-input", "failure": f, "case": {"name": f.get("name"), "sequence": "chdir"}})
        try:
            n_ln, ln_fails = symlink_destinations(ds, scratch)
        except Exception:
            n_ln, ln_fails = 0, []
            violations.append({"kind": "harness-error", "what": "harness error", "detail": traceback.format_exc()[-1500:]})
        for f in ln_fails[:3]:
            violations.append({"kind": "failing-input", "failure": f, "case": {"name": f.get("name"), "destination": f.get("destination_is")}})
        n_cd += n_ln
        try:
            n_op, n_op_dist, op_fails = serializer_options(ds, scratch)
        except Exception:
            n_op, n_op_dist, op_fails = 0, 0, []
            violations.append({"kind": "harness-error", "what": "harness error", "detail": traceback.format_exc()[-1500:]})
        for f in op_fails[:3]:
            violations.append({"kind": "failing-input", "failure": f, "case": {"name": f.get("name"), "format": f.get("format"),
                                                                                "serializer_arguments": f.get("serializer_arguments")}})
        log("serializer arguments through a file name: %d calls, %d of them change the text" % (n_op, n_op_dist))
        log("ran %d file-write cases and %d calls in working-directory sequences in %.1fs" % (len(recs), n_cd, time.time() - t0))
        # correspondence: the model's destination path vs the file actually written
        if model_runs:
            names_used = sorted({r["name"] for r in recs})
            md = dict(zip(names_used, model_dest(names_used)))
            for r in recs:
                m = md[r["name"]]
                if r.get("refused"):
                    if m != ["none"]:
                        disagreements.append({"first_difference": "model writes %r for refused name %r" % (m, r["name"]),
                                              "theorem": "correspondence IO.dest_path ~ ProvDocument.serialize"})
                    continue
                if r.get("fault") is None and r.get("raised") is None:
                    want = m[1] if m[0] == "some" else None
                    if want is not None:
                        want = want.replace("{abs}", "absdir")
                        want = want[want.index("absdir"):] if "absdir" in want else want
                    got = r.get("observed_target")
                    if got is not None and want is not None and os.path.normpath(got) != os.path.normpath(want):
                        disagreements.append({"first_difference": "name %r: implementation wrote %r, model path %r" % (r["name"], got, want),
                                              "theorem": "correspondence IO.dest_path ~ ProvDocument.serialize"})
    finally:
        shutil.rmtree(scratch, ignore_errors=True)
    uniq = {}
    for v in violations:
        uniq.setdefault(json.dumps(v.get("failure", {}).get("what", v.get("what"))) + json.dumps(v.get("case", ""))[:60], v)
    violations = list(uniq.values())[:5]
    dist = Counter((r.get("fmt"), "fault" if r.get("fault") else "ok") for r in recs)
    coverage = {
        "evaluations": len(recs),
        "distinct_nontrivial": len({(r.get("name"), r.get("fmt"), r.get("preexisting"), str(r.get("fault"))) for r in recs if not r.get("refused")}),
        "rule": "working-directory sequences (one relative name written from directory A, B, A, C, B: 3 names x 5 calls); destinations that are symbolic links (relative target beside the link or in another directory, absolute target, dangling; called from another directory; 4 x 3 formats) or lie below a linked directory followed by '..' (3 formats x pre-existing or not); file-write cases = format x file name (relative, nested, absolute, spaces, non-ASCII, '#', '?', ';', ':', file: URL) "
                "x pre-existing destination or not x temp directory on the same / on another file system x fault (none, the k-th write call of the stream, the flush at close, the final move, a file-size limit at half the document so that the operating system cuts the write short); each runs "
                "in a scratch directory with its own temp directory; distinct = distinct (name, format, preexisting, fault)",
        "samples": recs[:2] + recs[-2:],
        "traces_validated_against_impl": len([r for r in recs if not r.get("fault")]) if model_runs else 0,
        "disagreements_checked": len(disagreements),
        "exhaustive": tier == "thorough",
        "distribution": {"by_format_and_kind": {"%s/%s" % k: v for k, v in dist.items()},
                         "max_write_calls_seen": max([r.get("writes", 0) for r in recs] or [0]),
                         "faults_not_reached": sum(1 for r in recs if r.get("fault_not_reached")),
                         "tmp_leftovers_after_failure": sum(1 for r in recs if r.get("fault") and r.get("tmp_leftover"))},
    }
    return {"violations": violations, "known": [], "coverage": coverage, "disagreements": disagreements[:2]}


def replay(path, log):
    r = json.load(open(path))
    print(json.dumps(r, indent=1, default=str)[:3000])
    c = r.get("case")
    if isinstance(c, dict) and ("serializer_arguments" in c or "sequence" in c or "destination" in c):
        # the sub-checks are re-run as a whole (fixed cases, a second or two)
        scratch = tempfile.mkdtemp(prefix="c17r_")
        try:
            if "serializer_arguments" in c:
                fails = serializer_options(docs(), scratch)[2]
            elif "sequence" in c:
                fails = chdir_sequences(docs(), scratch)[1]
            else:
                fails = symlink_destinations(docs(), scratch)[1]
            print(fails[:3])
            return 1 if fails else 0
        finally:
            shutil.rmtree(scratch, ignore_errors=True)
    if isinstance(c, dict):
        scratch = tempfile.mkdtemp(prefix="c17r_")
        try:
            rec, fails = run_case(docs()[0], c["format"], c["name"], c["preexisting"],
                                  tuple(c["fault"]) if c["fault"] else None, scratch)
            print(rec, fails)
            return 1 if fails else 0
        finally:
            shutil.rmtree(scratch, ignore_errors=True)
    return 0
