"""C03 — qualified names keep their URI and stay unambiguous under any namespace
history.  Correspondence: Scope.sstep (extracted) vs NamespaceManager on the same op
sequences, full manager state compared after every op.  Direct oracle: clauses
(a), (b), (c) evaluated on the implementation's own behaviour."""
import itertools
import json
import os
import random
import signal
import time
from collections import Counter
from multiprocessing import Pool

from harness import common
from harness.sexp import dumps, loads

PROP = "C03"

TRUSTED_BASE = [
    "Coq 8.16.1 kernel (coqc); vm_compute used for Examples and _refuted witnesses; no native_compute",
    "model: coq/theories/Nsm.v, Scope.v hand-written from src/prov/model.py NamespaceManager and "
    "src/prov/identifier.py; tied to /repo by this correspondence run (full manager state after every op)",
    "coq/gen/Tables.v regenerated from /repo (DEFAULT_NAMESPACES) by harness/gen_tables.py",
    "extraction: ExtrOcamlBasic + ExtrOcamlString only; ocaml/driver.ml (tree parser/printer) trusted glue",
    "CPython dict insertion order / str semantics modelled (association lists, byte strings)",
]
ASSUMPTIONS = [
    "object identity (existing_ns is namespace) is unobservable at value level and not modelled",
    "UTF-8 byte-level startswith/split/replace agree with str-level ones on valid text",
    "usage discipline of the property: a scope's default namespace is not re-bound to another URI",
]

URIS = ["http://a/", "http://a/b/", "http://b/", "http://c/#", "urn:x:", 'http://q/"x/', "ex:", "http://a/x/http://a/"]
PREFIXES = ["ex", "ex_1", "dn", "foo", "default", "ex_2", "prov", "xsd", "p"]
LOCALS = ["e1", "a/b", "x.y", "n-1", "café", "e2", "ex", "1", "e:f"]
BAD_URIS = ["", " ", "\t\n"]


def gen_program(rng, n_ops, disciplined=True, avoid_findings=True):
    """A namespace history.  disciplined: never re-bind a scope's default namespace."""
    ops = []
    nb = 0
    dflt = {}          # target -> uri once set/adopted (for the discipline)
    for _ in range(n_ops):
        t = "d" if nb == 0 or rng.random() < 0.5 else str(rng.randrange(nb))
        r = rng.random()
        if r < 0.08 and nb < 3:
            ops.append(["NewBundle"])
            nb += 1
        elif r < 0.33:
            p = rng.choice(PREFIXES)
            if rng.random() < 0.04 and not avoid_findings:
                p = ""
            u = rng.choice(URIS) if rng.random() > 0.04 else rng.choice(BAD_URIS)
            ops.append(["AddNs", t, p, u])
        elif r < 0.43:
            u = rng.choice(URIS[:4])
            if disciplined and t in dflt:
                u = dflt[t]
            if rng.random() < 0.05:
                u = rng.choice(BAD_URIS)
            else:
                dflt.setdefault(t, u)
            ops.append(["SetDefault", t, u])
        else:
            k = rng.random()
            if k < 0.4:
                p = rng.choice(PREFIXES + ["", ""])
                u = rng.choice(URIS)
                if p == "" and disciplined:
                    if t in dflt and rng.random() < 0.7:
                        u = dflt[t]
                    dflt.setdefault(t, u)
                l = rng.choice(LOCALS)
                x = ["Q", p, u, l]
            elif k < 0.75:
                form = rng.random()
                if form < 0.55:
                    s = rng.choice(PREFIXES) + ":" + rng.choice(LOCALS)
                elif form < 0.75:
                    s = rng.choice(LOCALS)
                elif form < 0.95:
                    s = rng.choice(URIS) + rng.choice(LOCALS)
                else:
                    s = rng.choice(["", "_:b1", ":x", "a:"])
                x = ["S", s]
            else:
                x = ["I", rng.choice(URIS) + rng.choice(LOCALS)] if rng.random() < 0.9 else ["I", rng.choice(LOCALS)]
            ops.append(["Resolve", t, x])
    return ops


# ------------------------------------------------------------------ implementation side
def _ns(n):
    return ["ns", n.prefix, n.uri]


def _qn(q):
    return ["qn", q.namespace.prefix, q.namespace.uri, q.localpart]


def dump_mgr(m):
    return ["mgr",
            ["tbl", [[k, _ns(v)] for k, v in m.items()]],
            ["regd", [[k, _ns(v)] for k, v in m._namespaces.items()]],
            ["dflt", _ns(m._default) if m._default is not None else "none"],
            ["urimap", [[k, _ns(v)] for k, v in m._uri_map.items()]],
            ["renmap", [[_ns(k), _ns(v)] for k, v in m._rename_map.items()]],
            ["prenmap", [[k, _ns(v)] for k, v in m._prefix_renamed_map.items()]]]


def _captures(m, s):
    """Does the bundle's own manager, detached from its parent, resolve s by itself?"""
    import copy
    m2 = copy.copy(m)
    m2.parent = None
    try:
        return m2.valid_qualified_name(s) is not None
    except Exception:
        return False


class Timeout(Exception):
    pass


def _alarm(signum, frame):
    raise Timeout()


def exc_class(e):
    import prov.model as M
    from prov.serializers import provjson, provxml
    for cls, name in ((M.ProvExceptionInvalidQualifiedName, "ProvExceptionInvalidQualifiedName"),
                      (M.ProvElementIdentifierRequired, "ProvElementIdentifierRequired"),
                      (getattr(provjson, "ProvJSONException", ()), "ProvJSONException"),
                      (getattr(provxml, "ProvXMLException", ()), "ProvXMLException"),
                      (M.ProvException, "ProvException"),
                      (ValueError, "ValueError"), (KeyError, "KeyError"), (TypeError, "TypeError"),
                      (AttributeError, "AttributeError")):
        if cls and isinstance(e, cls):
            return name
    return "Other"


def run_impl(ops):
    """Execute a namespace program on the real library.  Returns (observations,
    oracle failures)."""
    import prov.model as M
    from prov.identifier import Namespace, QualifiedName, Identifier
    doc = M.ProvDocument()
    buns = []
    out = []
    fails = []
    handed = {}   # target -> list of (QualifiedName, op index)

    def mgr(t):
        return doc._namespaces if t == "d" else buns[int(t)]._namespaces

    def cont(t):
        return doc if t == "d" else buns[int(t)]

    def all_targets():
        return ["d"] + [str(i) for i in range(len(buns))]

    for idx, op in enumerate(ops):
        before = {t: {k: (v.prefix, v.uri) for k, v in mgr(t).items()} for t in all_targets()}
        try:
            kind = op[0]
            if kind == "NewBundle":
                buns.append(M.ProvBundle(document=doc))
                ob = "unit"
            elif kind == "AddNs":
                _, t, p, u = op
                if t != "d" and int(t) >= len(buns):
                    ob = "bad-target"
                else:
                    n = cont(t).add_namespace(p, u)
                    ob = _ns(n)
                    # (b) clash yields a fresh prefix bound to the requested URI
                    if n.uri != u:
                        fails.append({"clause": "b", "op": idx, "what": "add_namespace returned another URI",
                                      "got": n.uri, "want": u})
                    if n.prefix != p and n.prefix != "" and n.prefix in before[t] and before[t][n.prefix] != (n.prefix, n.uri):
                        fails.append({"clause": "b", "op": idx, "what": "clash prefix was not fresh",
                                      "prefix": n.prefix})
            elif kind == "SetDefault":
                _, t, u = op
                if t != "d" and int(t) >= len(buns):
                    ob = "bad-target"
                else:
                    cont(t).set_default_namespace(u)
                    ob = "unit"
            elif kind == "Resolve":
                _, t, x = op
                if t != "d" and int(t) >= len(buns):
                    ob = "bad-target"
                else:
                    if x[0] == "Q":
                        arg = QualifiedName(Namespace(x[1], x[2]), x[3])
                    elif x[0] == "S":
                        arg = x[1]
                    else:
                        arg = Identifier(x[1])
                    r = cont(t).valid_qualified_name(arg)
                    if r is None:
                        ob = "none"
                    else:
                        ob = _qn(r)
                        handed.setdefault(t, []).append((r, idx))
                        if x[0] == "Q" and r.uri != arg.uri:
                            fails.append({"clause": "a", "op": idx, "what": "QualifiedName changed URI",
                                          "got": r.uri, "want": arg.uri})
                    if x[0] == "Q" and r is None:
                        fails.append({"clause": "a", "op": idx, "what": "QualifiedName resolved to None"})
            else:
                ob = "parse-error"
        except Timeout:
            raise
        except Exception as e:
            ob = ["raise", exc_class(e)]
        state = ["scope", dump_mgr(doc._namespaces)] + [dump_mgr(b._namespaces) for b in buns]
        out.append([ob, state])
        # (b) no registered prefix is re-pointed
        for t in before:
            now = mgr(t)
            for k, v in before[t].items():
                if k == "":
                    continue
                if k not in now or (now[k].prefix, now[k].uri) != v:
                    fails.append({"clause": "b", "op": idx, "what": "prefix re-pointed or dropped",
                                  "target": t, "prefix": k, "was": v,
                                  "now": (now[k].prefix, now[k].uri) if k in now else None})
        # (c) every handed-out name still resolves to its URI
        for t, lst in handed.items():
            for q, at in lst:
                s = str(q)
                try:
                    r = cont(t).valid_qualified_name(s)
                except Exception as e:
                    r = None
                if r is None or r.uri != q.uri:
                    pfx = q.namespace.prefix
                    own = (mgr(t).get(pfx) if pfx != "" else mgr(t)._default)
                    par = None
                    if t != "d":
                        par = (doc._namespaces.get(pfx) if pfx != "" else doc._namespaces._default)
                    fails.append({"clause": "c", "op": idx, "target": t, "handed_at": at,
                                  "name": [q.namespace.prefix, q.namespace.uri, q.localpart],
                                  "printed": s, "now": r.uri if r is not None else None,
                                  "own_binding_differs": _captures(mgr(t), s) if t != "d" else False,
                                  "parent_binding_is_it": par is not None and par == q.namespace})
    return out, fails


def classify_c(f, ops):
    """Class of a clause-(c) failure; None if it matches no known class."""
    p, u, l = f["name"]
    if p == "" and (":" in l):
        return "C03-F2"        # default-namespace local part containing ':'
    if p == "" and l == "":
        return "C03-F2"
    if p == "_":
        return "C03-F2"
    t = f["target"]
    # empty-prefix add_namespace anywhere before
    for o in ops[:f["op"] + 1]:
        if o[0] == "AddNs" and o[2] == "":
            return "C03-F3"
    if t != "d" and f.get("own_binding_differs") and f.get("parent_binding_is_it"):
        # the name was handed out through the parent and the bundle's own binding of the
        # same prefix (or its own default namespace) shadows it
        return "C03-F1"
    return None


def _work(args):
    ops = args
    signal.signal(signal.SIGALRM, _alarm)
    signal.alarm(20)
    try:
        obs, fails = run_impl(ops)
        return ("ok", obs, fails)
    except Timeout:
        return ("timeout", None, None)
    except Exception as e:
        import traceback
        return ("error", traceback.format_exc()[-1500:], None)
    finally:
        signal.alarm(0)


def discipline_ok(ops):
    d = {}
    for o in ops:
        if o[0] == "SetDefault" and common_uri_ok(o[2]):
            if o[1] in d and d[o[1]] != o[2]:
                return False
            d[o[1]] = o[2]
        if o[0] == "Resolve" and o[2][0] == "Q" and o[2][1] == "":
            d.setdefault(o[1], o[2][2])
    return True


def common_uri_ok(u):
    return bool(u) and not u.isspace()


def first_diff(a, b, path=""):
    if isinstance(a, str) or isinstance(b, str):
        return None if a == b else "%s: impl=%r model=%r" % (path, a, b)
    if len(a) != len(b):
        return "%s: length impl=%d model=%d" % (path, len(a), len(b))
    for i, (x, y) in enumerate(zip(a, b)):
        d = first_diff(x, y, "%s/%s" % (path, x[0] if isinstance(x, list) and x and isinstance(x[0], str) else i))
        if d:
            return d
    return None


def shrink(ops, still_fails):
    """Delta debugging over the op list."""
    cur = list(ops)
    n = 2
    while len(cur) >= 2:
        chunk = max(1, len(cur) // n)
        reduced = False
        for i in range(0, len(cur), chunk):
            cand = cur[:i] + cur[i + chunk:]
            if cand and still_fails(cand):
                cur = cand
                n = max(n - 1, 2)
                reduced = True
                break
        if not reduced:
            if chunk == 1:
                break
            n = min(n * 2, len(cur))
    return cur


def exhaustive_programs(maxlen):
    alphabet = [
        ["AddNs", "d", "ex", "http://a/"], ["AddNs", "d", "ex", "http://b/"], ["AddNs", "d", "ex_1", "http://c/#"],
        ["AddNs", "0", "ex", "http://b/"], ["AddNs", "0", "foo", "http://a/"],
        ["SetDefault", "d", "http://a/"], ["SetDefault", "0", "http://b/"],
        ["Resolve", "d", ["Q", "ex", "http://b/", "e1"]], ["Resolve", "0", ["Q", "", "http://c/#", "e2"]],
        ["Resolve", "d", ["Q", "", "http://b/", "e1"]],
        ["Resolve", "0", ["S", "ex:e1"]], ["Resolve", "d", ["S", "e2"]],
        ["Resolve", "0", ["S", "http://a/x.y"]], ["Resolve", "d", ["I", "http://b/e1"]],
    ]
    for n in range(1, maxlen + 1):
        for combo in itertools.product(alphabet, repeat=n):
            yield [["NewBundle"]] + [list(c) for c in combo]


def staleness_programs():
    """Fixed family about state that an earlier *resolution* leaves behind (memo tables): a short setup, a resolution of
    x, one call that changes what x or a name printing like x denotes (a prefix that was only an alias, or is the scheme
    of a URI string, gets registered; a default namespace appears), then x again and the qualified name the new binding
    hands out for the same local part.  All setups of length <= 2 over 5 ops x 7 arguments x 6 changes x 2 targets."""
    A, B = "http://a/", "http://b/"
    setup = [["AddNs", "d", "ex", A], ["AddNs", "d", "foo", A], ["AddNs", "0", "foo", A], ["AddNs", "0", "ex", A],
             ["AddNs", "d", "bar", B]]
    args = [["S", "foo:x"], ["S", "ex:x"], ["S", "x"], ["S", A + "x"], ["S", "urn:x"], ["I", A + "x"], ["S", "bar:x"]]
    changes = [("foo", B), ("urn", "urn:"), ("http", "http:"), ("ex", B), ("bar", A), ("", B)]
    out = []
    for k in (0, 1, 2):
        for pre in itertools.product(setup, repeat=k):
            if len(set(map(tuple, pre))) < k:
                continue
            for x in args:
                for (cp, cu) in changes:
                    for t in ("d", "0"):
                        local = x[1].split(":")[-1].split("/")[-1] or "x"
                        ch = ["SetDefault", t, cu] if cp == "" else ["AddNs", t, cp, cu]
                        out.append([["NewBundle"]] + [list(o) for o in pre] +
                                   [["Resolve", t, x], ch, ["Resolve", t, x], ["Resolve", t, ["Q", cp, cu, local]],
                                    ["Resolve", t, x]])
    return out


def standalone_bundle_scenarios():
    """A bundle built on its own — ProvBundle(identifier=...), with registered prefixes and / or a default namespace of its
    own (set explicitly, or adopted from a prefix-less qualified name) — hands out names and is then attached with
    document.add_bundle(bundle) to documents with and without a default namespace and with a clashing prefix: every name
    it handed out before still prints to a string that the bundle resolves to the same URI, its registered prefixes and
    its default namespace are what they were (clauses (b), (c) across the attachment).  Returns (cases, failures)."""
    import prov.model as M
    from prov.identifier import Namespace, QualifiedName
    A, B, D, E = "http://example.org/a/", "http://example.org/b/", "http://example.org/dflt/", "http://example.org/docdflt/"
    fails = []
    n = 0
    for bundle_default in ("set", "adopted", None):
        for doc_default in (None, E):
            for doc_ex in (None, A, B):
                n += 1
                b = M.ProvBundle(identifier=QualifiedName(Namespace("ex", A), "bundle1"))
                b.add_namespace("ex", A)
                if bundle_default == "set":
                    b.set_default_namespace(D)
                handed = []
                for x in ("ex:e1", QualifiedName(Namespace("ex", A), "e2"), QualifiedName(Namespace("other", B), "e3")):
                    handed.append(b.valid_qualified_name(x))
                if bundle_default == "adopted":
                    handed.append(b.valid_qualified_name(QualifiedName(Namespace("", D), "thing")))
                if bundle_default:
                    handed.append(b.valid_qualified_name("bare"))
                b.entity("ex:e1")
                before_regs = sorted((x.prefix, x.uri) for x in b.namespaces)
                before_dflt = b.get_default_namespace().uri if b.get_default_namespace() is not None else None
                d = M.ProvDocument()
                if doc_default:
                    d.set_default_namespace(doc_default)
                if doc_ex:
                    d.add_namespace("ex", doc_ex)
                case = {"bundle_default": bundle_default, "document_default": doc_default, "document_ex": doc_ex}
                try:
                    d.add_bundle(b)
                except Exception as e:
                    fails.append(dict(case, clause="b", what="add_bundle(stand-alone bundle) raised", exc=repr(e)[:200]))
                    continue
                after_regs = sorted((x.prefix, x.uri) for x in b.namespaces)
                after_dflt = b.get_default_namespace().uri if b.get_default_namespace() is not None else None
                if not set(before_regs) <= set(after_regs):
                    fails.append(dict(case, clause="b", what="attaching a bundle re-pointed or dropped one of its registered prefixes",
                                      before=before_regs, after=after_regs))
                if after_dflt != before_dflt:
                    fails.append(dict(case, clause="c", what="attaching a bundle changed its default namespace", before=before_dflt, after=after_dflt))
                for q in handed:
                    if q is None:
                        continue
                    try:
                        r = b.valid_qualified_name(str(q))
                    except Exception:
                        r = None
                    if r is None or r.uri != q.uri:
                        fails.append(dict(case, clause="c", what="a name the bundle handed out before it was attached no longer resolves to its URI there",
                                          printed=str(q), uri=q.uri, now=(r.uri if r is not None else None)))
                        break
    return n, fails


def near_uri_programs():
    """fixed family: two namespace URIs that differ only at the very end (a trailing '#', '/', a final letter, letter
    case) under one prefix and under two, in both orders, in a document and in a bundle: they are different namespaces —
    the second one clashes, is renamed, and every name keeps its own URI"""
    base = "http://example.org/ns"
    pairs = [(base + "#", base), (base, base + "#"), (base + "/", base), (base, base + "/"), (base, base + "s"), (base, "http://example.org/NS"),
             (base + "#", base + "/")]
    out = []
    for u1, u2 in pairs:
        for t in ("d", "0"):
            for same_prefix in (True, False):
                p2 = "ex" if same_prefix else "other"
                out.append([["NewBundle"], ["AddNs", t, "ex", u1], ["Resolve", t, ["Q", p2, u2, "item"]], ["Resolve", t, ["S", "ex:item"]],
                            ["AddNs", t, p2, u2], ["Resolve", t, ["Q", "ex", u1, "item"]], ["Resolve", t, ["Q", p2, u2, "item"]],
                            ["Resolve", t, ["S", u1 + "item"]], ["Resolve", t, ["S", u2 + "item"]], ["Resolve", t, ["I", u2 + "item"]]])
                out.append([["NewBundle"], ["AddNs", t, "a", u1], ["AddNs", t, "a", u2], ["Resolve", t, ["S", "a:x"]],
                            ["Resolve", t, ["Q", "a", u2, "x"]], ["Resolve", t, ["Q", "a", u1, "x"]]])
    return out


def run(tier, seed, log, model_runs=True, enlarged=False):
    rng = random.Random(seed)
    n_prog = 300 if tier == "quick" else 4000
    max_ops = 25 if tier == "quick" else 60
    if enlarged:
        n_prog *= 5
    progs = []
    # corpus first
    cdir = os.path.join(common.VERIF, "corpus", PROP)
    corpus = []
    if os.path.isdir(cdir):
        for f in sorted(os.listdir(cdir)):
            if f.endswith(".json"):
                corpus.append(json.load(open(os.path.join(cdir, f)))["program"])
    progs.extend(corpus)
    for i in range(n_prog):
        style = rng.random()
        n_ops = rng.randrange(3, max_ops)
        if style < 0.8:
            progs.append(gen_program(rng, n_ops, disciplined=True, avoid_findings=True))
        else:
            progs.append(gen_program(rng, n_ops, disciplined=False, avoid_findings=False))
    stale = staleness_programs()
    progs.extend(stale)
    near = near_uri_programs()
    progs.extend(near)
    log("staleness family: %d programs; near-equal URIs: %d programs" % (len(stale), len(near)))
    exhaustive = False
    if tier == "thorough":
        ex = list(exhaustive_programs(3 if not enlarged else 4))
        progs.extend(ex)
        exhaustive = True
        log("exhaustive part: %d programs (all sequences of length <= %d over 14 ops)"
            % (len(ex), 3 if not enlarged else 4))

    t0 = time.time()
    with Pool(common.NCPU) as pool:
        impl = pool.map(_work, progs, chunksize=16)
    log("implementation ran %d programs in %.1fs" % (len(progs), time.time() - t0))

    model_lines = None
    if model_runs:
        t1 = time.time()
        reqs = [dumps(["nsprog"] + p) for p in progs]
        # shard over processes
        shards = [reqs[i::common.NCPU] for i in range(common.NCPU)]
        with Pool(common.NCPU) as pool:
            outs = pool.map(common.run_model_batch, shards)
        model_lines = [None] * len(reqs)
        for k, o in enumerate(outs):
            for j, line in enumerate(o):
                model_lines[k + j * common.NCPU] = line
        log("model ran %d programs in %.1fs" % (len(reqs), time.time() - t1))

    known = common.load_known_findings()
    open_classes = {k["id"]: k for k in known if k["property"] == PROP and k["status"] == "open"}
    violations, disagreements = [], []
    known_hit = Counter()
    stats = Counter()
    ophist = Counter()
    lens = Counter()
    out_of_domain = 0
    distinct = set()
    n_checked_states = 0
    for i, p in enumerate(progs):
        lens[len(p) // 10 * 10] += 1
        for o in p:
            ophist[o[0] + ("/" + o[2][0] if o[0] == "Resolve" else "")] += 1
        key = dumps(p)
        nontrivial = (len(p) >= 3 and any(o[0] == "Resolve" for o in p)
                      and any(o[0] in ("AddNs", "SetDefault") for o in p))
        if nontrivial:
            distinct.add(key)
        st, obs, fails = impl[i]
        if st != "ok":
            violations.append({"kind": "failing-input", "what": "implementation %s on namespace program" % st,
                               "program": p, "detail": obs})
            continue
        for ob, _ in obs:
            if isinstance(ob, list) and ob[0] == "raise":
                stats["raise:" + ob[1]] += 1
            elif ob == "none":
                stats["none"] += 1
            else:
                stats["ok"] += 1
        # direct oracle
        disc = discipline_ok(p)
        seen_here = set()
        for f in fails:
            if f["clause"] == "c":
                if not disc:
                    continue
                cls = classify_c(f, p)
                if cls in open_classes:
                    known_hit[cls] += 1
                    continue
            sig = (f["clause"], f.get("what"), f.get("printed"))
            if sig in seen_here:
                continue
            seen_here.add(sig)
            violations.append({"kind": "failing-input", "clause": f["clause"], "failure": f, "program": p})
        # correspondence
        if model_lines is not None:
            n_checked_states += len(obs)
            if '"out-of-domain"' in model_lines[i]:
                out_of_domain += 1
            if dumps(obs) != model_lines[i]:
                d = first_diff(obs, loads(model_lines[i]))
                disagreements.append({"program": p, "first_difference": d})

    try:
        nsb, sbfails = standalone_bundle_scenarios()
    except Exception as e:
        import traceback
        nsb, sbfails = 0, [{"clause": "c", "what": "harness error in standalone_bundle_scenarios", "detail": traceback.format_exc()[-800:]}]
    log("stand-alone bundles attached with add_bundle: %d scenarios, %d failures" % (nsb, len(sbfails)))
    for f in sbfails[:3]:
        violations.append({"kind": "failing-input", "failure": f, "program": [["(direct scenario, see failure)"]]})
    # shrink what we found (bounded effort)
    def shrink_violation(v):
        cl = v.get("clause")

        def still(c):
            st, obs, fails = _work(c)
            if st != "ok":
                return v.get("clause") is None
            if cl == "c" and not discipline_ok(c):
                return False
            return any(f["clause"] == cl and (cl != "c" or classify_c(f, c) not in open_classes) for f in fails)
        if len(v["program"]) <= 80:
            v["program"] = shrink(v["program"], still)
            st, obs, fails = _work(v["program"])
            if st == "ok":
                fl = [f for f in fails if f["clause"] == cl and (cl != "c" or classify_c(f, v["program"]) not in open_classes)]
                if fl:
                    v["failure"] = fl[0]
        return v

    uniq = []
    for v in violations[:5]:
        uniq.append(shrink_violation(v) if v.get("clause") else v)
    violations = uniq

    def shrink_dis(dg):
        def still(c):
            st, obs, _ = _work(c)
            if st != "ok":
                return False
            m = loads(common.run_model_batch([dumps(["nsprog"] + c)])[0])
            return first_diff(obs, m) is not None
        if len(dg["program"]) <= 80:
            dg["program"] = shrink(dg["program"], still)
            st, obs, _ = _work(dg["program"])
            m = loads(common.run_model_batch([dumps(["nsprog"] + dg["program"])])[0])
            dg["first_difference"] = first_diff(obs, m)
        dg["theorem"] = "correspondence Scope.sstep ~ NamespaceManager (C03a/b/c are stated over Scope.sstep)"
        return dg
    disagreements = [shrink_dis(d) for d in disagreements[:3]]

    # known findings: replay the witnesses
    known_lines = []
    for fid, k in sorted(open_classes.items()):
        st, obs, fails = _work(k["witness_program"])
        repro = st == "ok" and any(f["clause"] == "c" and classify_c(f, k["witness_program"]) == fid for f in fails)
        if repro:
            known_lines.append("%s: %s" % (fid, k["what_fails"]))
    coverage = {
        "evaluations": len(progs),
        "distinct_nontrivial": len(distinct),
        "rule": "namespace programs from one PRNG (seed) over pools of %d URIs, %d prefixes, %d locals; 80%% disciplined "
                "main stream + 20%% undisciplined/malformed stream; corpus first; thorough adds all sequences of "
                "length<=3 over a 14-op alphabet. non-trivial = >=3 ops with at least one registration/default and "
                "one resolution; distinct = distinct program text" % (len(URIS), len(PREFIXES), len(LOCALS)),
        "samples": [progs[len(corpus)] if len(progs) > len(corpus) else progs[0], progs[-1]],
        "traces_validated_against_impl": len(progs) if model_lines is not None else 0,
        "states_compared": n_checked_states,
        "disagreements_checked": len(disagreements),
        "exhaustive": False,
        "exhaustive_part": "all op sequences of length<=3 over 14 ops" if exhaustive else "none (quick tier)",
        "distribution": {"program_length_buckets": dict(lens), "ops": dict(ophist), "results": dict(stats),
                         "out_of_domain_programs": out_of_domain, "corpus_programs": len(corpus),
                         "known_finding_hits": dict(known_hit)},
    }
    return {"violations": violations, "known": known_lines, "coverage": coverage,
            "disagreements": disagreements}


def replay(path, log):
    r = json.load(open(path))
    p = r.get("program")
    if not p:
        print(json.dumps(r, indent=1)[:3000])
        return 0
    st, obs, fails = _work(p)
    print("implementation:", st)
    for o, (ob, _) in zip(p, obs or []):
        print("  ", o, "->", ob)
    print("oracle failures:", json.dumps(fails, indent=1, default=str)[:3000])
    if os.path.exists(common.DRIVER):
        m = loads(common.run_model_batch([dumps(["nsprog"] + p)])[0])
        print("first difference impl/model:", first_diff(obs, m))
    return 1 if fails else 0
