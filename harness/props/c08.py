"""C08 — unified() merges exactly the records sharing an identifier, losing nothing."""
import copy
from collections import Counter, OrderedDict

from harness import worldprop, impl as I
from harness.content import strict_rec, strict_value, observable_doc

PROP = "C08"
TRUSTED_BASE = [
    "Coq 8.16.1 kernel (coqc); vm_compute for Examples; no native_compute",
    "model: coq/theories/World.v unify_walk / unified_records (grouping by type and identifier, merge through "
    "add_attributes in a scratch manager, first-occurrence emission), Interp.step OUnified; tied to /repo by the "
    "correspondence run over API programs biased to identifier reuse",
    "extraction: ExtrOcamlBasic + ExtrOcamlString; ocaml/driver.ml",
]
ASSUMPTIONS = ["Python dict/set semantics as modelled; record equality as proved in C04"]


def formal_uris():
    from prov.constants import PROV_ATTRIBUTES
    return {a.uri for a in PROV_ATTRIBUTES}


def expected_unified(cont):
    """Independent specification: group by (type, identifier URI); returns
    ('conflict', None) or ('ok', ordered list of (type, id, attribute pair set))."""
    FORMAL = formal_uris()
    groups = OrderedDict()
    order = []
    for r in cont.get_records():
        if r.identifier is None:
            order.append(("anon", r))
            continue
        key = (r.get_type().uri, r.identifier.uri)
        if key not in groups:
            groups[key] = []
            order.append(("grp", key))
        groups[key].append(r)
    out = []
    conflicts = set()
    for kind, x in order:
        if kind == "anon":
            out.append(strict_rec(x))
            continue
        rs = groups[x]
        pairs = set()
        singles = {}
        for r in rs:
            for a, v in r.attributes:
                if a.uri in FORMAL and len(rs) > 1:
                    if a.uri in singles and not (singles[a.uri] == v):
                        conflicts.add((x[0], a.uri))
                    singles.setdefault(a.uri, v)
                pairs.add((a.uri, strict_value(v)))
        # values equal under == but of different kinds collapse in a Python set: compare modulo that
        out.append((x[0], x[1], tuple(sorted(pairs, key=repr))))
    if conflicts:
        return ("conflict", sorted(conflicts))
    return ("ok", out)


def loose_eq(a, b):
    """strict records equal, allowing the set collapse of ==-equal values of different kind"""
    if a == b:
        return True
    if a[0] != b[0] or a[1] != b[1]:
        return False
    sa, sb = set(a[2]), set(b[2])
    def norm(s):
        out = set()
        for u, v in s:
            if v[0] in ("int", "bool", "float"):
                val = float.fromhex(v[1]) if v[0] == "float" else v[1]
                out.add((u, "num", val))
            elif v[0] == "time":
                out.add((u, "time", v[1] if v[2] is None else "aware"))
            else:
                out.add((u, v))
        return out
    return norm(sa) == norm(sb)


class C08Oracle(worldprop.Oracle):
    def after(self, idx, op, ob):
        if op[0] not in ("NewRecord", "Factory", "ElemMethod", "AddAttrs", "AddRecord", "Update", "AddBundleDoc", "SetTime", "AddType"):
            return
        import prov.model as M
        for di in range(len(self.im.docs)):
            d = copy.deepcopy(self.im.docs[di])
            before = observable_doc(d)
            conts = [d] + list(d.bundles)
            exp = [expected_unified(c) for c in conts]
            any_conflict = any(e[0] == "conflict" for e in exp)
            try:
                u = d.unified()
            except M.ProvException:
                if not any_conflict:
                    self.fail(idx, "unified() raised ProvException without a conflicting formal attribute", doc=di)
                if observable_doc(d) != before:
                    self.fail(idx, "unified() changed the original (while raising)", doc=di)
                continue
            except Exception as e:
                self.fail(idx, "unified() raised an unexpected exception", doc=di, exc=repr(e))
                continue
            if any_conflict:
                self.fail(idx, "unified() succeeded although two same-identifier records disagree on a formal attribute",
                          doc=di, conflict_kinds=sorted({k for e in exp if e[0] == "conflict" for k, _ in e[1]}),
                          conflicts=sorted({ka for e in exp if e[0] == "conflict" for ka in e[1]}))
                continue
            if observable_doc(d) != before:
                self.fail(idx, "unified() changed the original", doc=di)
            if u is d or u._namespaces is d._namespaces:
                self.fail(idx, "unified() did not return an independent document", doc=di)
            # "returns a new document ... leaves the original unchanged": no bundle object of the original is part of
            # the result, and the original's bundles still belong to the original
            if any(ub is sb for ub in u.bundles for sb in d.bundles):
                self.fail(idx, "unified() result shares a bundle object with the original", doc=di)
            if any(sb.document is not d or sb._namespaces.parent is not d._namespaces for sb in d.bundles):
                self.fail(idx, "unified() re-parented a bundle of the original", doc=di)
            # bundles kept under the same identifiers
            ids_src = sorted(b.identifier.uri for b in d.bundles)
            ids_u = sorted(b.identifier.uri for b in u.bundles)
            if ids_src != ids_u:
                self.fail(idx, "unified() lost or renamed a bundle", doc=di, src=ids_src, got=ids_u)
                continue
            uconts = [u] + [next(b for b in u.bundles if b.identifier.uri == sb.identifier.uri) for sb in d.bundles]
            for c, uc, (st, want) in zip(conts, uconts, exp):
                got = [strict_rec(r) for r in uc.get_records()]
                if len(got) != len(want) or not all(loose_eq(a, b) for a, b in zip(got, want)):
                    self.fail(idx, "unified() result differs from the merge specification", doc=di,
                              want=repr(want)[:600], got=repr(got)[:600])
            # idempotent
            try:
                uu = u.unified()
                if [sorted(map(repr, (strict_rec(r) for r in c.get_records()))) for c in [uu] + sorted(uu.bundles, key=lambda b: b.identifier.uri)] != \
                   [sorted(map(repr, (strict_rec(r) for r in c.get_records()))) for c in [u] + sorted(u.bundles, key=lambda b: b.identifier.uri)]:
                    self.fail(idx, "unified() is not idempotent", doc=di)
            except Exception as e:
                self.fail(idx, "unified() of a unified document raised", doc=di, exc=repr(e))
            # the result is a structure of its own: writing to it does not reach the original
            try:
                for uc in [u] + list(u.bundles):
                    uc.add_namespace("zzu", "http://zz.test/u/")
                    uc.entity("zzu:probe")
            except Exception as e:
                self.fail(idx, "the unified() result does not accept new records", doc=di, exc=repr(e))
            if observable_doc(d) != before:
                self.fail(idx, "writing to the unified() result changed the original", doc=di)


def classify(f, ops):
    # known: same-identifier memberships that disagree on their *member* only (every conflict of the document is one)
    if f["what"].startswith("unified() succeeded although") and f.get("conflicts") and \
            all(list(c) == ["http://www.w3.org/ns/prov#Membership", "http://www.w3.org/ns/prov#entity"] for c in f["conflicts"]):
        return "C08-F1"
    return None


def post(g):
    """Bias towards identifier reuse: a few more records on identifiers that exist."""
    rng = g.rng
    for _ in range(rng.choice([2, 3, 4, 6])):
        cs = g.crefs()
        c = rng.choice(cs)
        e = g.existing_id(c)
        if e is None:
            g.op_new_record()
            continue
        cont = g.im.cont(c)
        cands = [r for r in cont._records if r.identifier is not None]
        src = rng.choice(cands)
        kind = I.KIND_OF[type(src)] if rng.random() < 0.75 else rng.choice(["Entity", "Agent", "Activity", "Usage", "Generation"])
        q = src.identifier
        ident = rng.choice([["Q", q.namespace.prefix, q.namespace.uri, q.localpart], ["S", q.uri],
                            ["Q", "alt", q.namespace.uri, q.localpart]])
        attrs = g.other_attrs(c, n=rng.choice([0, 1, 2]))
        fa = g.formals(kind)
        for a in fa:
            if rng.random() < 0.5:
                # same formal value as the source (compatible) or a fresh one (possible conflict)
                keys = [k for k in src._attributes if k.localpart == a and k.namespace.uri == I.PROV.uri and src._attributes[k]]
                if keys and rng.random() < 0.7:
                    v = I.sx_value(next(iter(src._attributes[keys[0]])))
                else:
                    v = g.formal_value(c, a)
                attrs.append([["Q", "prov", I.PROV.uri, a], v])
        g.emit(["NewRecord", c, kind, ident, attrs])
    if rng.random() < 0.4:
        g.op_get()                       # a look-up (possibly for an identifier another container holds), then more records
        g.op_new_record()
    if rng.random() < 0.5:
        di = str(rng.randrange(len(g.im.docs)))
        g.emit(["Unified", di])
        if rng.random() < 0.6:
            # a history on one object: unify, change records in place, unify again (the second result must reflect
            # the records as they are now)
            for _ in range(rng.choice([1, 2, 3])):
                rng.choice([g.op_add_attrs, g.op_add_attrs, g.op_add_type, g.op_set_time])()
            g.emit(["Unified", di])


def nontrivial(ops):
    ids = Counter()
    for o in ops:
        if o[0] == "NewRecord" and o[3] != "none":
            ids[repr(o[3][-2:])] += 1
    return any(v >= 2 for v in ids.values())


def fixed_programs():
    """groups whose members give one attribute values that are equal as Python objects but differ in kind — the
    qualified name and the URI value of one URI; 1 and 1.0 are left out (a Python set cannot hold both) — in both
    orders, at document level and in a bundle, with a third member in between"""
    EXU = "http://example.org/"
    out = []
    vals = [["qn", "ex", EXU, "v"], ["id", EXU + "v"], ["str", EXU + "v"], ["qn", "ex2", EXU, "v"]]
    for in_bundle in (False, True):
        for a, b in ((0, 1), (1, 0), (1, 2), (3, 1)):
            p = [["NewDoc"], ["AddNs", ["d", "0"], "ex", EXU]]
            c = ["d", "0"]
            if in_bundle:
                p.append(["NewBundle", "0", ["S", "ex:b"]])
                c = ["b", "0", "0"]
            p += [["NewRecord", c, "Entity", ["S", "ex:e"], [[["S", "ex:k"], vals[a]]]],
                  ["NewRecord", c, "Agent", ["S", "ex:e"], [[["S", "ex:k"], ["int", "7"]]]],
                  ["NewRecord", c, "Entity", ["S", "ex:e"], [[["S", "ex:k"], vals[b]], [["S", "prov:type"], vals[b]]]],
                  ["NewRecord", c, "Entity", ["S", "ex:e"], [[["S", "prov:type"], vals[a]]]],
                  ["Unified", "0"]]
            out.append(p)
    # look-ups that find nothing in a bundle (the identifier is held by the document, or by a sibling bundle) must leave
    # nothing behind there: the bundle then asserts records of the same kind under that identifier and is unified
    for kind in ("Entity", "Activity"):
        p = [["NewDoc"], ["AddNs", ["d", "0"], "ex", EXU],
             ["NewRecord", ["d", "0"], kind, ["S", "ex:x"], [[["S", "ex:doc"], ["int", "1"]]]],
             ["NewRecord", ["d", "0"], kind, ["S", "ex:x"], [[["S", "ex:doc2"], ["int", "2"]]]],
             ["NewBundle", "0", ["S", "ex:b1"]], ["NewBundle", "0", ["S", "ex:b2"]],
             ["NewRecord", ["b", "0", "1"], kind, ["S", "ex:x"], [[["S", "ex:sibling"], ["int", "3"]]]],
             ["GetRecord", ["b", "0", "0"], ["S", "ex:x"]], ["GetRecord", ["b", "0", "0"], ["Q", "ex", EXU, "x"]],
             ["GetRecord", ["b", "0", "0"], ["S", EXU + "x"]],
             ["NewRecord", ["b", "0", "0"], kind, ["S", "ex:x"], [[["S", "ex:own"], ["int", "4"]]]],
             ["Unified", "0"],
             ["GetRecord", ["b", "0", "0"], ["S", "ex:x"]],
             ["NewRecord", ["b", "0", "0"], kind, ["S", "ex:x"], [[["S", "ex:own2"], ["int", "5"]]]],
             ["Unified", "0"]]
        out.append(p)
    # a history on one object: unified(), then a record of a merged group (or a singleton) is changed in place
    # (add_attributes, add_asserted_type, set_time — none of them goes through _add_record), then unified() again:
    # a new attribute must be in the union, a new conflict must raise
    for in_bundle in (False, True):
        for which in ("0", "1", "2"):
            for change in (["AddAttrs", None, [[["S", "ex:late"], ["int", "1"]]]],
                           ["AddType", None, ["qn", "ex", EXU, "Late"]],
                           ["AddAttrs", None, [[["Q", "prov", I.PROV.uri, "startTime"], ["time", "2001", "1", "1", "0", "0", "0", "0", "none"]]]],
                           ["SetTime", None, ["time", "2002", "2", "2", "0", "0", "0", "0", "none"], "none"]):
                p = [["NewDoc"], ["AddNs", ["d", "0"], "ex", EXU]]
                c = ["d", "0"]
                if in_bundle:
                    p.append(["NewBundle", "0", ["S", "ex:b"]])
                    c = ["b", "0", "0"]
                ch = list(change)
                ch[1] = ["r", c, which]
                p += [["NewRecord", c, "Activity", ["S", "ex:a"], [[["S", "ex:k"], ["int", "1"]]]],
                      ["NewRecord", c, "Activity", ["S", "ex:a"], [[["Q", "prov", I.PROV.uri, "startTime"], ["time", "2000", "1", "1", "0", "0", "0", "0", "none"]]]],
                      ["NewRecord", c, "Activity", ["S", "ex:single"], []],
                      ["Unified", "0"], ch, ["Unified", "0"], ["ToGraph", "0"], ch, ["Unified", "0"]]
                out.append(p)
    # "raises exactly on conflict" (C08_conflict_always_raises / _any_attribute): groups of three in which the conflict
    # is not with the first record — the first lacks the attribute and two later ones disagree; the first and the
    # third disagree and the second lacks it; all three agree (must merge) — for time- and reference-valued formal
    # attributes of elements and relations, prov:entity of non-memberships included, in a document and in a bundle
    def tv(y):
        return ["time", str(y), "3", "31", "9", "21", "0", "0", "none"]

    def qv(l):
        return ["qn", "ex", EXU, l]
    shapes = [("Activity", "startTime", tv), ("Activity", "endTime", tv), ("Generation", "time", tv),
              ("Generation", "entity", qv), ("Generation", "activity", qv), ("Usage", "entity", qv),
              ("Association", "plan", qv), ("Derivation", "usage", qv), ("Start", "trigger", qv),
              ("Attribution", "entity", qv), ("Invalidation", "time", tv)]
    for in_bundle in (False, True):
        for kind, attr, mk in shapes:
            a = ["Q", "prov", I.PROV.uri, attr]
            v1, v2 = (mk(2012), mk(2013)) if mk is tv else (mk("v1"), mk("v2"))
            for members in ([None, v1, v2], [v1, None, v2], [None, v1, v1], [v1, None, v1, v2]):
                p = [["NewDoc"], ["AddNs", ["d", "0"], "ex", EXU]]
                c = ["d", "0"]
                if in_bundle:
                    p.append(["NewBundle", "0", ["S", "ex:b"]])
                    c = ["b", "0", "0"]
                for i, v in enumerate(members):
                    attrs = [[["S", "ex:k"], ["int", str(i)]]]
                    if v is not None:
                        attrs.append([a, v])
                    p.append(["NewRecord", c, kind, ["S", "ex:r"], attrs])
                p.append(["Unified", "0"])
                out.append(p)
    return out


def run(tier, seed, log, model_runs=True, enlarged=False):
    return worldprop.run(PROP, tier, seed, log, model_runs, enlarged, C08Oracle, ["merge", "mixed"],
                         n_quick=140, n_thorough=2500, post=post, nontrivial=nontrivial, classify=classify,
                         ops_range_quick=(5, 16), ops_range_thorough=(6, 30),
                         rule_text="API programs (profiles merge/mixed) followed by a reuse phase: extra records on existing "
                                   "identifiers (same/different kind, same URI through other prefixes or full URI, compatible and "
                                   "conflicting formal values) in documents and bundles; after every record-changing call every "
                                   "document of a deep copy is unified and compared with an independent merge specification; "
                                   "non-trivial = some identifier used by >=2 NewRecord calls",
                         extra_cases=fixed_programs() + __import__('harness.progs', fromlist=['x']).same_text_programs((), derive=True),
                         theorem_note="C08_* over World.unified_records")


def replay(path, log):
    return worldprop.replay(path, C08Oracle, log)
