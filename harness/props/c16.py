"""C16 — all source/destination kinds agree, and prov.read detects the format."""
import io
import json
import os
import random
import shutil
import tempfile
import time
import traceback
from collections import Counter

from harness import common, simpledocs
from harness.content import strict_doc, lc_doc

PROP = "C16"
TRUSTED_BASE = [
    "Coq 8.16.1 kernel (coqc); vm_compute over the finite format x destination x source grid; no native_compute",
    "model: coq/theories/IO.v — destination dispatch (string / text stream / binary stream / path), text-vs-bytes branch of "
    "each serializer, prov.read's trial loop over the registry order generated from /repo; the three external parsers are "
    "oracles with the recorded laws: a format's reader accepts its own writer's payloads and rejects the other formats', "
    "the TriG reader accepts empty input",
    "tie: the full grid is executed on the implementation for generated documents with non-ASCII content; the laws about "
    "the parsers are validated on every case (each reader is run on every other format's output)",
    "UTF-8 coding and file I/O are the runtime's",
]
ASSUMPTIONS = ["documents are taken from the intersection of the C01/C02/C07 spaces; RDF results are compared set-based "
               "against unified() (C07)"]

FMTS = ["json", "xml", "rdf", "provn"]


class DuckReader:
    """a source that has read() and nothing else of the io classes (what wrappers such as tempfile's or a network
    response look like to the library)"""
    def __init__(self, data):
        self._s = io.BytesIO(data) if isinstance(data, bytes) else io.StringIO(data)

    def read(self, *a):
        return self._s.read(*a)


def produce(doc, fmt, dest, scratch, **kw):
    """Returns (artefact kind, payload) for destination kind dest (kw: keyword arguments of the serializer)."""
    if dest == "string":
        return doc.serialize(format=fmt, **kw)
    if dest == "text":
        s = io.StringIO()
        doc.serialize(s, format=fmt, **kw)
        return s.getvalue()
    if dest == "binary":
        b = io.BytesIO()
        doc.serialize(b, format=fmt, **kw)
        return b.getvalue()
    if dest == "text16":
        # a text stream whose own encoding is not UTF-8: what counts is the text written through it
        b = io.BytesIO()
        w = io.TextIOWrapper(b, encoding="utf-16", newline="")
        doc.serialize(w, format=fmt)
        w.flush()
        return b.getvalue().decode("utf-16")
    if dest == "path-xfs":
        # the temp directory on another file system than the destination: the final move is a copy and an unlink
        from harness.props import c17
        xfs = c17.other_filesystem_dir()
        old = tempfile.tempdir
        if xfs:
            tempfile.tempdir = os.path.join(xfs, "c16_tmp_%d" % os.getpid())
            os.makedirs(tempfile.tempdir, exist_ok=True)
        try:
            return produce(doc, fmt, "path", scratch, **kw)
        finally:
            if xfs:
                shutil.rmtree(tempfile.tempdir, ignore_errors=True)
            tempfile.tempdir = old
    p = os.path.join(scratch, "out #1?x;y_%s.%s" % (fmt, fmt))      # characters that are URL syntax
    # the destination exists already and holds a longer file (a previous, larger save to the same path)
    with open(p, "wb") as fh:
        fh.write(b"x" * 400000)
    doc.serialize(p, format=fmt, **kw)
    with open(p, "rb") as fh:
        return fh.read()


def positioned_streams():
    """A stream source is read from where it stands: two documents written one after the other into one text or binary
    stream, the stream put back to where the second one starts — deserialize(source=stream, format) and prov.read(stream),
    with and without format, must give the second document alone (and afterwards the stream stands at its end)."""
    import prov
    import prov.model as M
    EXU = "http://example.org/"
    fails = []
    n = 0

    def mk(tag, k):
        d = M.ProvDocument()
        d.add_namespace("ex", EXU)
        for i in range(k):
            d.entity("ex:%s%d" % (tag, i), {"ex:k": "é%d" % i})
        d.activity("ex:%sact" % tag)
        d.wasGeneratedBy("ex:%s0" % tag, "ex:%sact" % tag)
        return d
    a, b = mk("first", 3), mk("second", 2)
    for fmt in ("json", "xml", "rdf"):
        want = content_of(b.unified() if fmt == "rdf" else b, fmt)
        for kind in ("text", "binary"):
            for how in ("deserialize", "read-format", "read"):
                n += 1
                st = io.StringIO() if kind == "text" else io.BytesIO()
                a.serialize(st, format=fmt)
                pos = st.tell()
                b.serialize(st, format=fmt)
                st.seek(pos)
                try:
                    if how == "deserialize":
                        d2 = M.ProvDocument.deserialize(source=st, format=fmt)
                    elif how == "read-format":
                        d2 = prov.read(st, format=fmt)
                    else:
                        d2 = prov.read(st)
                    got = content_of(d2, fmt)
                except Exception as e:
                    fails.append({"what": "reading a stream from its current position raised", "format": fmt, "stream": kind, "call": how,
                                  "exc": repr(e)[:200]})
                    continue
                if got != want:
                    fails.append({"what": "a stream source was not read from its current position: another document came back",
                                  "format": fmt, "stream": kind, "call": how})
    return n, fails


def dispatch_correspondence(scratch):
    """the model of the text/bytes dispatch (IODispatch.v) against the implementation: for every format x destination
    kind x source kind, whether a str or a bytes is written and what the format's parser is handed — observed from
    outside by wrapping json.load, lxml's etree.parse and rdflib's ConjunctiveGraph.parse — must be the kind the model
    predicts, and must be the payload itself (or exactly its UTF-8 bytes), as C16_same_parser_input states."""
    import json as _json
    from unittest import mock
    import lxml.etree as ET
    import rdflib
    import prov.model as M
    from harness.sexp import dumps, loads
    doc = simpledocs.all_strings_doc()
    pred = {}
    for row in loads(common.run_model_batch([dumps(["iodispatch"])])[0]):
        if isinstance(row, list):
            pred[(row[0], row[1], row[2])] = (row[3], row[4])
    seen = []
    real_json_load, real_parse, real_rdf_parse = _json.load, ET.parse, rdflib.ConjunctiveGraph.parse

    def json_load(stream, *a, **k):
        data = stream.read()
        seen.append(("text" if isinstance(data, str) else "bytes", data))
        return _json.loads(data, *a, **k)

    def xml_parse(source, *a, **k):
        if hasattr(source, "read"):
            data = source.read()
            seen.append(("text" if isinstance(data, str) else "bytes", data))
            return real_parse(io.BytesIO(data) if isinstance(data, bytes) else io.StringIO(data), *a, **k)
        seen.append(("name", source))
        return real_parse(source, *a, **k)

    def rdf_parse(self, source=None, *a, **k):
        if hasattr(source, "read"):
            data = source.read()
            seen.append(("text" if isinstance(data, str) else "bytes", data))
            return real_rdf_parse(self, data=data, *a, **k)
        seen.append(("other", repr(source)[:80]))
        return real_rdf_parse(self, source, *a, **k)
    bad = []
    n = 0
    for fmt in ("json", "xml", "rdf"):
        payload = doc.serialize(format=fmt)
        for dest in ("string", "text", "binary", "path"):
            art = produce(doc, fmt, dest, scratch)
            akind = "str" if isinstance(art, str) else "bytes"
            as_text = art if isinstance(art, str) else art.decode("utf-8")
            as_bytes = art if isinstance(art, bytes) else art.encode("utf-8")
            if fmt != "rdf" and not (art == payload if akind == "str" else art == payload.encode("utf-8")):
                if not (fmt == "xml" and same_xml(as_text, payload)):
                    bad.append({"what": "what is written is not the payload (or its UTF-8 bytes)", "format": fmt, "destination": dest})
            fp = os.path.join(scratch, "disp_%s_%s.%s" % (fmt, dest, fmt))
            with open(fp, "wb") as fh:
                fh.write(as_bytes)
            sources = {"content-str": dict(content=as_text), "content-bytes": dict(content=as_bytes),
                       "text-stream": dict(source=io.StringIO(as_text)), "binary-stream": dict(source=io.BytesIO(as_bytes)),
                       "path": dict(source=fp)}
            for sk, kw in sources.items():
                n += 1
                del seen[:]
                try:
                    with mock.patch.object(_json, "load", json_load), mock.patch.object(ET, "parse", xml_parse), \
                            mock.patch.object(rdflib.ConjunctiveGraph, "parse", rdf_parse):
                        M.ProvDocument.deserialize(format=fmt, **kw)
                except Exception as e:
                    bad.append({"what": "deserialize raised under observation", "format": fmt, "destination": dest, "source": sk, "exc": repr(e)[:200]})
                    continue
                want = pred.get((fmt, dest, sk))
                got = seen[0] if seen else ("nothing", None)
                if want is None or want[0] != akind or want[1] != got[0]:
                    bad.append({"what": "dispatch differs from IODispatch", "format": fmt, "destination": dest, "source": sk,
                                "model": want, "implementation": [akind, got[0]]})
                    continue
                handed = got[1]
                ok = (handed == as_text) if got[0] == "text" else (handed == as_bytes)
                if not ok:
                    bad.append({"what": "the parser is not handed the payload that was written", "format": fmt, "destination": dest, "source": sk})
    return n, bad


def _read_tempfile(prov, data):
    with tempfile.NamedTemporaryFile("w+b") as fh:
        fh.write(data)
        fh.seek(0)
        return prov.read(fh)


def same_xml(a, b):
    from lxml import etree
    def canon(x):
        return etree.tostring(etree.fromstring(x if isinstance(x, bytes) else x.encode("utf-8")), method="c14n")
    try:
        return canon(a) == canon(b)
    except etree.XMLSyntaxError:
        return False            # one of the two artefacts is not even well-formed XML


def content_of(d, fmt):
    if fmt == "rdf":
        from harness.props import c07
        return c07.sc_doc(d)          # set-based (RDF is a set of triples) but strict about the kind of every value
    return strict_doc(d)


def run_doc(doc, scratch, idx):
    import prov
    import prov.model as M
    fails = []
    n = 0
    laws = Counter()
    for fmt in FMTS:
        arts = {}
        for dest in ("string", "text", "binary", "path", "text16", "path-xfs"):
            try:
                arts[dest] = produce(doc, fmt, dest, scratch)
            except Exception as e:
                fails.append({"what": "serialize raised", "format": fmt, "destination": dest, "exc": repr(e)[:300]})
        if len(arts) < 6:
            continue
        n += 6
        if fmt != "rdf" and arts["path-xfs"] != arts["path"]:
            fails.append({"what": "a file written through a temp directory on another file system holds another text", "format": fmt,
                          "bytes": [len(arts["path"]), len(arts["path-xfs"])]})
        text = arts["string"]
        if not isinstance(text, str) or not isinstance(arts["text"], str) or not isinstance(arts["binary"], bytes):
            fails.append({"what": "wrong artefact type", "format": fmt})
            continue
        if fmt != "rdf" and arts["text16"] != text:
            fails.append({"what": "a text stream with another encoding received another text", "format": fmt})
        if fmt == "rdf":
            pass        # rdflib's output order is hash dependent: compared through the parsed documents below
        elif fmt == "xml":
            if not (text == arts["text"] and same_xml(text, arts["binary"]) and arts["binary"] == arts["path"]):
                fails.append({"what": "destinations disagree on the XML written", "format": fmt})
        else:
            if not (text == arts["text"] and text.encode("utf-8") == arts["binary"] and arts["binary"] == arts["path"]):
                fails.append({"what": "destinations disagree on the text written", "format": fmt})
        # the same with keyword arguments of the serializer: every destination kind gets the text the options ask for
        for kw in ({"json": [{"indent": 2, "sort_keys": True}, {"ensure_ascii": False}, {"indent": 0}], "xml": [{"force_types": True}]}.get(fmt, [])):
            try:
                ks = produce(doc, fmt, "string", scratch, **kw)
                kt = produce(doc, fmt, "text", scratch, **kw)
                kb = produce(doc, fmt, "binary", scratch, **kw)
                kp = produce(doc, fmt, "path", scratch, **kw)
                n += 4
            except Exception as e:
                fails.append({"what": "serialize with serializer options raised", "format": fmt, "options": repr(kw), "exc": repr(e)[:300]})
                continue
            same = (ks == kt and ((same_xml(ks, kb) and kb == kp) if fmt == "xml" else (ks.encode("utf-8") == kb and kb == kp)))
            if not same:
                fails.append({"what": "destinations disagree on the text written when serializer options are given", "format": fmt,
                              "options": repr(kw), "lengths": [len(ks), len(kt), len(kb), len(kp)]})
            elif ks == text and fmt == "json" and kw.get("indent") == 2:
                fails.append({"what": "serializer options had no effect", "format": fmt, "options": repr(kw)})
        if fmt == "provn":
            continue
        # every artefact, through every source kind, gives the same document
        base = None
        results = {}
        for dest, art in arts.items():
            as_text = art if isinstance(art, str) else art.decode("utf-8")
            as_bytes = art if isinstance(art, bytes) else art.encode("utf-8")
            p = os.path.join(scratch, "src #2?q;r_%s_%s.%s" % (fmt, dest, fmt))
            with open(p, "wb") as fh:
                fh.write(as_bytes)
            sources = {
                "content-str": lambda: M.ProvDocument.deserialize(content=as_text, format=fmt),
                "content-bytes": lambda: M.ProvDocument.deserialize(content=as_bytes, format=fmt),
                "text-stream": lambda: M.ProvDocument.deserialize(source=io.StringIO(as_text), format=fmt),
                "binary-stream": lambda: M.ProvDocument.deserialize(source=io.BytesIO(as_bytes), format=fmt),
                "text16-stream": lambda: M.ProvDocument.deserialize(
                    source=io.TextIOWrapper(io.BytesIO(as_text.encode("utf-16")), encoding="utf-16", newline=""), format=fmt),
                "path": lambda: M.ProvDocument.deserialize(source=p, format=fmt),
                "duck-binary-stream": lambda: M.ProvDocument.deserialize(source=DuckReader(as_bytes), format=fmt),
                "read-duck-binary-stream": lambda: prov.read(DuckReader(as_bytes)),
                "read-duck-text-stream": lambda: prov.read(DuckReader(as_text)),
                "read-tempfile": lambda: _read_tempfile(prov, as_bytes),
                "read-text-stream": lambda: prov.read(io.StringIO(as_text)),
                "read-binary-stream": lambda: prov.read(io.BytesIO(as_bytes)),
                "read-path": lambda: prov.read(p),
                "read-path-format": lambda: prov.read(p, format=fmt),
                "read-text-stream-format": lambda: prov.read(io.StringIO(as_text), format=fmt),
            }
            for sk, fn in sources.items():
                n += 1
                try:
                    d2 = fn()
                    results[(dest, sk)] = content_of(d2, fmt)
                except Exception as e:
                    fails.append({"what": "reading back raised", "format": fmt, "destination": dest, "source": sk,
                                  "exc": repr(e)[:300]})
        vals = list(results.items())
        if vals:
            ref_key, ref = vals[0]
            for k, v in vals[1:]:
                if v != ref:
                    fails.append({"what": "the same document read through another source/destination kind differs",
                                  "format": fmt, "a": list(ref_key), "b": list(k)})
                    break
            want = content_of(doc.unified() if fmt == "rdf" else doc, fmt)
            if ref != want:
                fails.append({"what": "the document read back differs from the original", "format": fmt, "via": list(ref_key)})
        # laws about the external parsers: every other reader rejects this payload
        for other in ("json", "xml", "rdf"):
            if other == fmt:
                continue
            try:
                M.ProvDocument.deserialize(content=arts["string"], format=other)
                laws["%s-reader-accepts-%s" % (other, fmt)] += 1
            except Exception:
                laws["%s-reader-rejects-%s" % (other, fmt)] += 1
    return n, fails, laws


def run(tier, seed, log, model_runs=True, enlarged=False):
    import logging
    logging.disable(logging.CRITICAL)
    t0 = time.time()
    rng = random.Random(seed)
    ndocs = 8 if tier == "quick" else 120
    if enlarged:
        ndocs *= 3
    scratch = tempfile.mkdtemp(prefix="c16_")
    violations = []
    total = 0
    laws = Counter()
    sizes = Counter()
    try:
        nbig = 1 if tier == "quick" else 6
        for i in range(-2, ndocs + nbig):
            d = simpledocs.dense_doc() if i == -2 else simpledocs.all_strings_doc() if i < 0 else simpledocs.simple_doc(rng) if i < ndocs else simpledocs.big_doc(rng, rng.choice([60, 150, 400]) if tier != "quick" else 150)
            sizes[len(d.get_records()) + sum(len(b.get_records()) for b in d.bundles)] += 1
            try:
                n, fails, lw = run_doc(d, scratch, i)
            except Exception:
                violations.append({"kind": "harness-error", "what": "harness error", "detail": traceback.format_exc()[-1500:]})
                continue
            total += n
            laws.update(lw)
            for f in fails:
                violations.append({"kind": "failing-input", "failure": f, "provn": d.get_provn()[:1500]})
    finally:
        shutil.rmtree(scratch, ignore_errors=True)
    log("ran %d serialize/deserialize/read calls on %d documents in %.1fs" % (total, ndocs + nbig + 1, time.time() - t0))
    try:
        npos, pfails = positioned_streams()
    except Exception:
        npos, pfails = 0, []
        violations.append({"kind": "harness-error", "what": "harness error", "detail": traceback.format_exc()[-1500:]})
    log("positioned streams: %d cases, %d failures" % (npos, len(pfails)))
    for f in pfails[:3]:
        violations.append({"kind": "failing-input", "failure": f, "provn": "two documents written one after the other into one stream"})
    ndisp, dbad = 0, []
    if model_runs:
        scratch2 = tempfile.mkdtemp(prefix="c16d_")
        try:
            ndisp, dbad = dispatch_correspondence(scratch2)
        except Exception:
            violations.append({"kind": "harness-error", "what": "harness error", "detail": traceback.format_exc()[-1500:]})
        finally:
            shutil.rmtree(scratch2, ignore_errors=True)
        log("text/bytes dispatch: %d format x destination x source cells, %d disagreements" % (ndisp, len(dbad)))
        for b in dbad[:2]:
            violations.append({"kind": "broken-correspondence", "what": "the text/bytes dispatch differs from the model",
                               "first_difference": json.dumps(b)[:800],
                               "theorem": "correspondence IODispatch.artefact / deserialize_input ~ ProvDocument.serialize / deserialize and "
                                          "the serializers (C16_same_text, C16_same_parser_input are stated over the model)"})
    bad_laws = {k: v for k, v in laws.items() if "accepts" in k}
    if bad_laws:
        violations.append({"kind": "broken-correspondence", "what": "a law assumed about the external parsers does not hold",
                           "first_difference": json.dumps(bad_laws),
                           "theorem": "IO.reads_back (a reader rejects the other formats' payloads)"})
    uniq = {}
    for v in violations:
        uniq.setdefault(json.dumps(v.get("failure", v.get("what")), sort_keys=True)[:200], v)
    violations = list(uniq.values())[:5]
    coverage = {
        "evaluations": total,
        "distinct_nontrivial": ndocs * 4 * 4,
        "rule": "one fixed document holding every string of the pool (multi-byte, astral, line separators, text that is not in Unicode normalisation form C), generated documents with non-ASCII content from the intersection of the JSON/XML/RDF spaces, plus large "
                "documents (serialisations of 20-150 KiB dense in multi-byte characters, beyond the 8 KiB / 64 KiB stream buffers); for each: 4 "
                "formats x 4 destination kinds (returned string, text stream, binary stream, file path) compared, then every "
                "artefact x 10 ways of reading it (content str/bytes, text/binary stream, path, prov.read on stream/path with and "
                "without format) compared by strict content (RDF: set-based against unified()); distinct_nontrivial counts "
                "document x format x destination cells",
        "samples": [{"formats": FMTS, "destinations": ["string", "text", "binary", "path"],
                     "sources": ["content-str", "content-bytes", "text-stream", "binary-stream", "path", "read-*"]}],
        "traces_validated_against_impl": total,
        "disagreements_checked": len(bad_laws),
        "exhaustive": True,
        "distribution": {"records_per_document": dict(sizes), "parser_laws": dict(laws)},
    }
    return {"violations": violations, "known": [], "coverage": coverage, "disagreements": []}


def replay(path, log):
    print(open(path).read()[:4000])
    return 0
