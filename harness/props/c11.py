"""C11 — reading foreign PROV-JSON / PROV-XML is stable under re-serialisation."""
import copy
import glob
import json
import os
import random
import signal
import time
import traceback
from collections import Counter
from multiprocessing import Pool

from harness import common, corr, impl as I
from harness.content import strict_doc, content_doc, canon_content
from harness.sexp import dumps, loads
from harness.props import c01

PROP = "C11"
TRUSTED_BASE = [
    "Coq 8.16.1 kernel (coqc); vm_compute for Examples; no native_compute",
    "model: coq/theories/Json.v decode_doc (decode_json_document/container/representation incl. membership expansion and "
    "the multi-value guard); tied to /repo by LoadJson on every generated tree (result document or error class compared)",
    "independent reader JsonSpec.read (Spec.v tables) for 'never drops or invents'",
    "the trees are produced by a specification-driven generator and by single-point mutations of the 398 ProvToolbox "
    "JSON files shipped with the tests — not by the library's writer",
    "extraction: ExtrOcamlBasic + ExtrOcamlString; ocaml/driver.ml",
]
ASSUMPTIONS = [
    "documented refusals count as library errors: multi-valued formal attributes outside membership (ProvJSONException)",
    "excluded: values that collapse in a Python set ([1, true]); NaN; unknown record-kind keys (KeyError, not well-formed)",
    "PROV-XML half and cross-format stability are covered by the XML part of this check once built (see level text)",
]

XSD = "http://www.w3.org/2001/XMLSchema#"
NS_POOL = [("ex", "http://example.org/"), ("ex2", "http://example.org/2/"), ("foo", "http://foo.test/ns#"), ("u", "urn:x:")]
LOCALS = ["e1", "e2", "a1", "ag1", "r1", "x/y", "n-1", "p.q", "été", "k_2"]
KINDS = {
    "entity": [], "activity": ["startTime", "endTime"], "wasGeneratedBy": ["entity", "activity", "time"],
    "used": ["activity", "entity", "time"], "wasInformedBy": ["informed", "informant"],
    "wasStartedBy": ["activity", "trigger", "starter", "time"], "wasEndedBy": ["activity", "trigger", "ender", "time"],
    "wasInvalidatedBy": ["entity", "activity", "time"],
    "wasDerivedFrom": ["generatedEntity", "usedEntity", "activity", "generation", "usage"], "agent": [],
    "wasAttributedTo": ["entity", "agent"], "wasAssociatedWith": ["activity", "agent", "plan"],
    "actedOnBehalfOf": ["delegate", "responsible", "activity"], "wasInfluencedBy": ["influencee", "influencer"],
    "specializationOf": ["specificEntity", "generalEntity"], "alternateOf": ["alternate1", "alternate2"],
    "mentionOf": ["specificEntity", "generalEntity", "bundle"], "hadMember": ["collection", "entity"],
}
ELEMENTS = ("entity", "activity", "agent")
TIMES = ["2012-03-31T09:21:00", "2012-03-31T09:21:00Z", "2011-11-16T16:05:00.123+01:00", "2000-01-01T00:00:00-05:30"]
STRINGS = ["", "plain", 'quo"te', "two\nlines", "back\\slash", "ünïcødé", "\U0001F600", "a:b", "1", "true"]


def gen_value(rng, prefixes):
    """One attribute value in one of the spellings PROV-JSON allows."""
    r = rng.random()
    if r < 0.15:
        return rng.choice(STRINGS)
    if r < 0.25:
        return rng.choice([0, 1, -7, 2 ** 40, 10 ** 30])
    if r < 0.32:
        return rng.choice([0.5, -2.25, 1e300, 0.1, 3.0])
    if r < 0.38:
        return rng.choice([True, False])
    if r < 0.46:
        return {"$": rng.choice(STRINGS), "type": "xsd:string"}
    if r < 0.56:
        k = rng.choice(["xsd:int", "xsd:long"])
        v = rng.choice([5, -3, 10 ** 25])
        return {"$": v if rng.random() < 0.5 else str(v), "type": k}
    if r < 0.64:
        if rng.random() < 0.12:
            # the special values of xsd:double in their XML Schema spelling (a foreign text may hold them; NaN is excluded)
            return {"$": rng.choice(["INF", "-INF", "+INF"]), "type": "xsd:double"}
        v = rng.choice([0.5, 1e300, 3.0, 0.1])
        return {"$": v if rng.random() < 0.5 else repr(v), "type": "xsd:double"}
    if r < 0.70:
        return {"$": rng.choice(["true", "false", "1", "0", True, False]), "type": "xsd:boolean"}
    if r < 0.77:
        return {"$": rng.choice(TIMES), "type": "xsd:dateTime"}
    if r < 0.82:
        return {"$": "http://example.org/thing", "type": "xsd:anyURI"}
    if r < 0.90:
        p = rng.choice(prefixes)
        return {"$": p + ":" + rng.choice(LOCALS), "type": "prov:QUALIFIED_NAME"}
    if r < 0.93:
        return {"$": rng.choice(STRINGS), "lang": rng.choice(["en", "fr-CA"])}
    if r < 0.95:
        # a language tag next to an explicit datatype (the tag wins: the literal is a prov:InternationalizedString)
        return {"$": rng.choice(STRINGS), "lang": rng.choice(["en", "fr-CA"]),
                "type": rng.choice(["xsd:string", "prov:InternationalizedString", rng.choice(prefixes) + ":MyType"])}
    return {"$": rng.choice(STRINGS), "type": rng.choice(prefixes) + ":MyType"}


def gen_container(rng, prefixes, nrec):
    c = {}
    again = None
    for _ in range(nrec):
        if again is not None and rng.random() < 0.3:
            kind, ident = again               # a record array: the same kind and identifier again
        else:
            kind = rng.choice(list(KINDS)) if rng.random() < 0.85 else "hadMember"
            p = rng.choice(prefixes)
            ident = p + ":" + rng.choice(LOCALS) if (kind in ELEMENTS or rng.random() < 0.5) else "_:id%d" % rng.randrange(1, 4)
        again = (kind, ident)
        formals = KINDS[kind]
        rec = {}
        for i, f in enumerate(formals):
            if rng.random() < (0.9 if i < 2 else 0.45):
                if f in ("time", "startTime", "endTime"):
                    v = rng.choice(TIMES)
                else:
                    v = rng.choice(prefixes) + ":" + rng.choice(LOCALS)
                if rng.random() < 0.15:
                    v = [v]                       # single value wrapped in an array
                rec["prov:" + f] = v
        if kind == "hadMember" and rng.random() < 0.4:
            rec["prov:entity"] = [rng.choice(prefixes) + ":" + l for l in rng.sample(LOCALS, rng.choice([2, 3]))]
        for _ in range(rng.choice([0, 1, 1, 2, 3])):
            an = rng.choice(["prov:type", "prov:label", "prov:role", "prov:location", "prov:value"]) if rng.random() < 0.3 \
                else rng.choice(prefixes) + ":" + rng.choice(["k", "v2", "size"])
            v = gen_value(rng, prefixes)
            if rng.random() < 0.25:
                v = [v] if rng.random() < 0.4 else [v, gen_value(rng, prefixes)]
            elif rng.random() < 0.06:
                # the same URI as an xsd:anyURI value and as a qualified name
                pfx = rng.choice(prefixes)
                uri = dict(NS_POOL)[pfx] + "same"
                v = [{"$": uri, "type": "xsd:anyURI"}, {"$": pfx + ":same", "type": "prov:QUALIFIED_NAME"}]
            rec[an] = v
        if kind in ("entity", "agent", "wasDerivedFrom") and rng.random() < 0.25:
            # PROV-defined subtypes of the record's own kind (one, two or three) as qualified names, next to whatever
            # prov:type the record has already
            fam = {"entity": ["Plan", "Collection", "EmptyCollection", "Bundle"], "agent": ["Person", "Organization", "SoftwareAgent"],
                   "wasDerivedFrom": ["Revision", "Quotation", "PrimarySource"]}[kind]
            subs = [{"$": "prov:" + t, "type": "prov:QUALIFIED_NAME"} for t in rng.sample(fam, rng.choice([1, 2, 2, 3]))]
            cur = rec.get("prov:type")
            rec["prov:type"] = (cur if isinstance(cur, list) else ([cur] if cur is not None else [])) + subs
        slot = c.setdefault(kind, {})
        if ident in slot:
            cur = slot[ident]
            slot[ident] = (cur if isinstance(cur, list) else [cur]) + [rec]
        else:
            slot[ident] = rec if rng.random() < 0.9 else [rec]
    return c


def gen_tree(rng):
    nss = rng.sample(NS_POOL, rng.choice([1, 2, 3]))
    prefixes = [p for p, _ in nss]
    doc = {"prefix": {p: u for p, u in nss}}
    if rng.random() < 0.3:
        doc["prefix"]["default"] = "http://default.test/"
    doc.update(gen_container(rng, prefixes, rng.choice([1, 2, 3, 5])))
    if rng.random() < 0.4:
        doc["bundle"] = {}
        for j in range(rng.choice([1, 2])):
            bpfx = list(prefixes)
            b = {}
            if rng.random() < 0.5:
                extra = rng.choice([x for x in NS_POOL if x[0] not in prefixes] or NS_POOL)
                b["prefix"] = {extra[0]: extra[1]}
                bpfx.append(extra[0])
            if rng.random() < 0.3:
                # the bundle's prefix block re-binds a prefix of the document to another URI
                b.setdefault("prefix", {})[rng.choice(prefixes)] = "http://rebound.test/%d/" % j
            b.update(gen_container(rng, bpfx, rng.choice([1, 2, 3])))
            doc["bundle"][rng.choice(prefixes) + ":b%d" % j] = b
    return doc


# ---------------------------------------------------------------- corpus mutations
def walk_values(tree, fn):
    """Apply fn(container, key, value) on every attribute value position."""
    def cont(c):
        for kind, recs in c.items():
            if kind in ("prefix", "bundle") or not isinstance(recs, dict):
                continue
            for rid, body in recs.items():
                for el in (body if isinstance(body, list) else [body]):
                    if isinstance(el, dict):
                        for k in list(el):
                            fn(el, k, el[k])
    cont(tree)
    for b in tree.get("bundle", {}).values():
        if isinstance(b, dict):
            cont(b)


def mutate(rng, tree):
    t = copy.deepcopy(tree)
    kind = rng.choice(["value-kind", "wrap", "reorder", "rename-prefix", "move-prefix"])
    slots = []
    walk_values(t, lambda el, k, v: slots.append((el, k)))
    if kind == "value-kind" and slots:
        el, k = rng.choice(slots)
        if not k.startswith("prov:") or k in ("prov:type", "prov:label", "prov:value", "prov:role", "prov:location"):
            el[k] = gen_value(rng, [p for p in t.get("prefix", {"ex": 1}) if p != "default"] or ["prov"])
    elif kind == "wrap" and slots:
        el, k = rng.choice(slots)
        v = el[k]
        el[k] = v[0] if isinstance(v, list) and len(v) == 1 else ([v] if not isinstance(v, list) else v)
    elif kind == "reorder":
        def shuffle(d):
            if isinstance(d, dict):
                items = list(d.items())
                rng.shuffle(items)
                return {k: shuffle(v) for k, v in items}
            if isinstance(d, list):
                return [shuffle(x) for x in d]
            return d
        t = shuffle(t)
    elif kind == "rename-prefix" and t.get("prefix"):
        cands = [p for p in t["prefix"] if p != "default"]
        if cands:
            old = rng.choice(cands)
            new = old + "zz"
            text = json.dumps(t)
            text = text.replace('"%s:' % old, '"%s:' % new).replace('"%s":' % old, '"%s":' % new)
            t = json.loads(text)
    elif kind == "move-prefix" and t.get("prefix") and t.get("bundle"):
        cands = [p for p in t["prefix"] if p != "default"]
        if cands:
            p = rng.choice(cands)
            for b in t["bundle"].values():
                if isinstance(b, dict):
                    b.setdefault("prefix", {})[p] = t["prefix"][p]
    return kind, t


_corpus = None


def corpus_trees():
    global _corpus
    if _corpus is None:
        _corpus = []
        for f in sorted(glob.glob(os.path.join(common.REPO, "src/prov/tests/json/*.json"))):
            try:
                _corpus.append((os.path.basename(f), json.load(open(f))))
            except Exception:
                pass
    return _corpus


# ---------------------------------------------------------------- one case
LIB_ERRORS = ("ProvException", "ProvExceptionInvalidQualifiedName", "ProvElementIdentifierRequired", "ProvJSONException")


def collapses(tree):
    """[1, true]-style arrays whose members are ==-equal but of different kind."""
    bad = []

    def chk(el, k, v):
        if isinstance(v, list):
            nums = []
            for x in v:
                y = x.get("$") if isinstance(x, dict) and x.get("type") in ("xsd:int", "xsd:long", "xsd:double", "xsd:boolean") else x
                if isinstance(y, str):
                    try:
                        y = float(y)
                    except ValueError:
                        y = {"true": True, "false": False}.get(y, y)
                if isinstance(y, (int, float, bool)):
                    nums.append(y)
            for i in range(len(nums)):
                for j in range(i + 1, len(nums)):
                    if nums[i] == nums[j]:
                        bad.append(k)
    walk_values(tree, chk)
    return bool(bad)


def run_case(args):
    label, tree = args
    if isinstance(tree, str):
        return run_xml_case(args)
    import prov.model as M
    signal.signal(signal.SIGALRM, I._alarm)
    signal.alarm(60)
    out = {"label": label, "fails": [], "status": None}
    try:
        jt = I.py_to_jv(tree)
        ops = [["LoadJson", jt], ["ObserveAll"]]
        im = I.Impl()
        obs = [im.step(o) for o in ops]
        out["ops"], out["obs"] = ops, obs
        r = obs[0]
        if isinstance(r, list) and r and r[0] == "raise":
            out["status"] = "raise:" + r[1]
            if r[1] not in LIB_ERRORS and r[1] not in ("KeyError",):
                out["fails"].append({"what": "loading well-formed PROV-JSON raised a non-library error", "exc": r[1]})
            return out
        out["status"] = "loaded"
        d = im.docs[0]
        feats = sorted(c01.diagnose(d))
        out["feats"] = feats
        if c01.has_mixed_kinds(d) or collapses(tree):
            out["status"] = "loaded-excluded"
            return out
        want = strict_doc(d)
        try:
            text = d.serialize(format="json")
            d2 = M.ProvDocument.deserialize(content=text, format="json")
            if strict_doc(d2) != want:
                out["fails"].append({"what": "write/re-load of a loaded document changed its content", "feats": feats})
        except Exception as e:
            out["fails"].append({"what": "write/re-load of a loaded document raised", "exc": repr(e)[:300], "feats": feats})
        # across formats: JSON text -> d -> XML -> d' has the content of d when d is XML-expressible
        from harness.props import c02
        if c02.expressible(d):
            out["xml"] = "expressible"
            for ft in (False, True):
                try:
                    xt = d.serialize(format="xml", force_types=ft)
                    d3 = M.ProvDocument.deserialize(content=xt, format="xml")
                    if strict_doc(d3) != want:
                        out["fails"].append({"what": "JSON -> d -> XML -> d' changed the content", "force_types": ft,
                                             "feats": feats})
                        break
                except Exception as e:
                    out["fails"].append({"what": "JSON -> d -> XML -> d' raised", "exc": repr(e)[:300], "feats": feats,
                                         "force_types": ft})
                    break
        # never drops or invents: against the specification reader
        spec = loads(common.run_model_batch([dumps(["jsonspec", I.float_table(jt), jt])])[0])
        if spec != ["none"]:
            if canon_content(spec) != canon_content(content_doc(d)):
                out["fails"].append({"what": "loaded document differs from what the specification reader sees",
                                     "feats": feats, "spec": dumps(canon_content(spec))[:600],
                                     "lib": dumps(canon_content(content_doc(d)))[:600]})
            out["spec"] = "agree"
        else:
            out["spec"] = "spec-rejects"
        return out
    except I.Timeout:
        out["status"] = "timeout"
        out["fails"].append({"what": "loading did not terminate"})
        return out
    except Exception:
        out["status"] = "harness-error"
        out["error"] = traceback.format_exc()[-1500:]
        return out
    finally:
        signal.alarm(0)


XML_LIB_ERRORS = LIB_ERRORS + ("ProvXMLException",)


def xml_document_correspondence(tier, seed):
    """the model of the PROV-XML reader above record level (XmlReadDoc.xml_read_document: a fresh document, prov:other
    skipped, bundleContent -> document.bundle(identifier read in the element's scope) and its children, record elements)
    against ProvDocument.deserialize on whole texts — foreign ones from the specification-driven generator and texts the
    library wrote for generated documents (force_types off and on): the document built (records, bundles under their
    URIs, both managers with every table) or the class of the error."""
    import random
    import warnings
    import logging
    from lxml import etree
    import prov.model as M
    from harness import common, xmltree, xmlgen, progs
    from harness.sexp import dumps, loads
    from harness.props import c13
    logging.disable(logging.CRITICAL)
    warnings.simplefilter("ignore")
    rng = random.Random(seed * 7919 + 3)
    texts = []
    for _ in range(120 if tier == "quick" else 1500):
        texts.append(xmlgen.gen_xml(rng))
    programs = progs.scoping_programs(()) + c13.fixed_programs() + progs.subtype_programs(())
    for ops in programs[::(2 if tier == "quick" else 1)]:
        im = I.Impl()
        try:
            for op in ops:
                im.step(op)
        except Exception:
            continue
        for d in im.docs:
            for ft in (False, True):
                try:
                    texts.append(d.serialize(format="xml", force_types=ft))
                except Exception:
                    pass
    reqs, exp = [], []
    skipped = Counter()
    for text in texts:
        try:
            root = etree.fromstring(text.encode("utf-8"))
        except Exception:
            skipped["not well-formed"] += 1
            continue
        # the prefix lxml reports for the children of record elements: the model takes it as a function of the namespace
        pm = {}
        ok = True
        for el in root.iter():
            if not isinstance(el.tag, str) or el is root:
                continue
            par = el.getparent()
            if par is root or (isinstance(par.tag, str) and etree.QName(par).localname == "bundleContent" and par.getparent() is root):
                continue                                   # a record element or a bundleContent itself
            ns = etree.QName(el).namespace or ""
            if pm.setdefault(ns, el.prefix) != el.prefix:
                ok = False
        if not ok:
            skipped["one namespace under two prefixes"] += 1
            continue
        try:
            with warnings.catch_warnings():
                warnings.simplefilter("ignore")
                d2 = M.ProvDocument.deserialize(content=text, format="xml")
            got = ["ok", I.dump_doc(d2)]
        except Exception as e:
            got = ["raise", I.exc_class(e)]
        t = xmltree.tree_of(text)
        pmap = [[ns, ["some", p] if p else "none"] for ns, p in sorted(pm.items())]
        ftab = I.float_table([["str", x] for x in sorted(xmltree.leaf_texts(t, set()))])
        reqs.append(dumps(["xmlreaddoc", ftab, pmap, t]))
        exp.append((text[:900], got))
    outs = common.run_model_batch(reqs)
    bad = []
    n = 0
    for (text, got), o in zip(exp, outs):
        m = loads(o)
        if m == "out-of-domain":
            skipped["outside the model"] += 1
            continue
        n += 1
        if I.canon(m) != I.canon(got):
            a, b = dumps(I.canon(got)), dumps(I.canon(m))
            k = next((i for i in range(min(len(a), len(b))) if a[i] != b[i]), min(len(a), len(b)))
            bad.append({"text": text, "implementation": a[max(0, k - 200):k + 300], "model": b[max(0, k - 200):k + 300]})
    return n, dict(skipped), bad


def run_xml_case(args):
    """the PROV-XML half: a foreign text is loaded; stability in the same format and across formats; agreement with
    the specification reader"""
    label, text = args
    import logging
    import warnings
    import prov.model as M
    from harness.props import c10
    logging.disable(logging.CRITICAL)
    warnings.simplefilter("ignore")
    signal.signal(signal.SIGALRM, I._alarm)
    signal.alarm(60)
    out = {"label": label, "fails": [], "status": None, "xmlcase": True}
    try:
        try:
            d = M.ProvDocument.deserialize(content=text, format="xml")
        except I.Timeout:
            raise
        except Exception as e:
            name = type(e).__name__
            out["status"] = "raise:" + name
            if name not in XML_LIB_ERRORS:
                out["fails"].append({"what": "loading well-formed PROV-XML raised a non-library error", "exc": repr(e)[:300]})
            return out
        out["status"] = "loaded"
        feats = sorted(c01.diagnose(d))
        import re as _re
        if _re.search(r'xml:lang="[^"]*"\s+xsi:type=', text):
            feats.append("lang-then-type")       # finding C11-F4: which of the two attributes wins follows their order
        out["feats"] = feats
        if c01.has_mixed_kinds(d):
            out["status"] = "loaded-excluded"
            return out
        want = strict_doc(d)
        for ft in (False, True):
            try:
                d2 = M.ProvDocument.deserialize(content=d.serialize(format="xml", force_types=ft), format="xml")
                if strict_doc(d2) != want:
                    out["fails"].append({"what": "write/re-load of a loaded XML document changed its content", "feats": feats,
                                         "force_types": ft})
                    break
            except Exception as e:
                out["fails"].append({"what": "write/re-load of a loaded XML document raised", "exc": repr(e)[:300], "feats": feats})
                break
        try:
            d3 = M.ProvDocument.deserialize(content=d.serialize(format="json"), format="json")
            if strict_doc(d3) != want:
                out["fails"].append({"what": "XML -> d -> JSON -> d' changed the content", "feats": feats})
        except Exception as e:
            out["fails"].append({"what": "XML -> d -> JSON -> d' raised", "exc": repr(e)[:300], "feats": feats})
        spec = c10.spec_read_xml(text)
        if spec != ["none"]:
            if canon_content(spec) != canon_content(content_doc(d)):
                out["fails"].append({"what": "loaded XML document differs from what the specification reader sees",
                                     "feats": feats, "spec": dumps(canon_content(spec))[:700],
                                     "lib": dumps(canon_content(content_doc(d)))[:700]})
            out["spec"] = "agree"
        else:
            out["spec"] = "spec-rejects"
        return out
    except I.Timeout:
        out["status"] = "timeout"
        out["fails"].append({"what": "loading did not terminate"})
        return out
    except Exception:
        out["status"] = "harness-error"
        out["error"] = traceback.format_exc()[-1500:]
        return out
    finally:
        signal.alarm(0)


def classify(f):
    feats = set(f.get("feats", []))
    if "lang-then-type" in feats and f.get("what", "").startswith("loaded XML document differs from what the specification reader sees"):
        return "C11-F4"
    if "prefix-named-default" in feats:
        return "C11-F3"
    if "unprintable-name" in feats:
        return "C11-F2"
    if "ambiguous-name" in feats or "empty-prefix-registered" in feats:
        return "C11-F1"
    return None


def fixed_cases():
    """two different default namespaces in one text: PROV-JSON whose bundles carry a "default" entry of their own in
    their prefix block (bare record names, bare bundle keys, bare names as values), PROV-XML whose inner elements
    re-declare xmlns — every bare name belongs to the default namespace in scope where it stands"""
    A, B, C = "http://a.example.org/ns/", "http://b.example.org/ns/", "http://c.example.org/ns/"
    out = []
    for doc_default in (A, None):
        for key in ("b1", "ex:b1"):
            t = {"prefix": {"ex": "http://example.org/"}, "entity": {"ex:e0": {"ex:k": "v"}}}
            if doc_default:
                t["prefix"]["default"] = doc_default
                t["entity"]["e1"] = {"colour": "red"} if False else {"ex:k": {"$": "e1", "type": "prov:QUALIFIED_NAME"}}
            if key == "b1" and not doc_default:
                continue
            t["bundle"] = {key: {"prefix": {"default": B},
                                 "entity": {"e2": {}, "ex:e3": {"prov:type": {"$": "T", "type": "prov:QUALIFIED_NAME"}}},
                                 "activity": {"a2": {}},
                                 "used": {"u2": {"prov:activity": "a2", "prov:entity": "e2"}},
                                 "wasDerivedFrom": {"_:d1": {"prov:generatedEntity": "ex:e3", "prov:usedEntity": "e2"}}}}
            out.append(("fixed:json-two-defaults", t))
            t2 = copy.deepcopy(t)
            t2["bundle"]["ex:b2"] = {"prefix": {"default": C}, "agent": {"ag": {}}, "entity": {"e2": {}},
                                     "wasAttributedTo": {"_:w": {"prov:entity": "e2", "prov:agent": "ag"}}}
            out.append(("fixed:json-three-defaults", t2))
    PROVNS = "http://www.w3.org/ns/prov#"
    for root_default in (A, None):
        rd = ' xmlns="%s"' % root_default if root_default else ""
        out.append(("fixed:xml-inner-default", """<?xml version="1.0" encoding="UTF-8"?>
<prov:document xmlns:prov="%s" xmlns:ex="http://example.org/"%s>
  <prov:entity prov:id="%s"/>
  <prov:entity xmlns="%s" prov:id="e2"><ex:k>v</ex:k></prov:entity>
  <prov:activity xmlns="%s" prov:id="a2"/>
  <prov:wasDerivedFrom>
    <prov:generatedEntity xmlns="%s" prov:ref="e2"/>
    <prov:usedEntity prov:ref="%s"/>
  </prov:wasDerivedFrom>
  <prov:used xmlns="%s"><prov:activity prov:ref="a2"/><prov:entity prov:ref="e2"/></prov:used>
  <prov:bundleContent prov:id="ex:b1" xmlns="%s">
    <prov:entity prov:id="e2"/>
    <prov:agent prov:id="ag"/>
    <prov:wasAttributedTo><prov:entity prov:ref="e2"/><prov:agent prov:ref="ag"/></prov:wasAttributedTo>
  </prov:bundleContent>
</prov:document>
""" % (PROVNS, rd, "e1" if root_default else "ex:e1", B, C, B, "e1" if root_default else "ex:e1", C, C)))
    return out


def run(tier, seed, log, model_runs=True, enlarged=False):
    t0 = time.time()
    rng = random.Random(seed)
    n_gen = 150 if tier == "quick" else 2500
    n_mut = 150 if tier == "quick" else 1990     # thorough: 398 files x 5 mutations
    if enlarged:
        n_gen *= 3
        n_mut *= 2
    cases = []
    cdir = os.path.join(common.VERIF, "corpus", PROP)
    ncorp = 0
    if os.path.isdir(cdir):
        for f in sorted(os.listdir(cdir)):
            if f.endswith(".json"):
                cases.append(("corpus:" + f, json.load(open(os.path.join(cdir, f)))["tree"]))
                ncorp += 1
    cases.extend(fixed_cases())
    for i in range(n_gen):
        cases.append(("gen", gen_tree(rng)))
    corp = corpus_trees()
    if tier == "thorough" and not enlarged:
        for name, t in corp:
            for _ in range(5):
                k, m = mutate(rng, t)
                cases.append(("mut:%s:%s" % (k, name), m))
    else:
        for i in range(n_mut):
            name, t = rng.choice(corp)
            k, m = mutate(rng, t)
            cases.append(("mut:%s:%s" % (k, name), m))
    for name, t in (corp if tier == "thorough" else rng.sample(corp, 40)):
        cases.append(("orig:" + name, t))
    # the PROV-XML half: specification-driven foreign texts and the 45 XML files shipped with the tests
    from harness import xmlgen
    n_xml = 200 if tier == "quick" else 3000
    for i in range(n_xml * (3 if enlarged else 1)):
        cases.append(("xmlgen", xmlgen.gen_xml(rng)))
    import glob
    for f in sorted(glob.glob(os.path.join(common.REPO, "src", "prov", "tests", "xml", "*.xml"))):
        try:
            cases.append(("xmlfile:" + os.path.basename(f), open(f, encoding="utf-8").read()))
        except Exception:
            pass
    with Pool(common.NCPU) as pool:
        res = pool.map(run_case, cases, chunksize=8)
    log("implementation + oracle ran %d trees in %.1fs" % (len(res), time.time() - t0))

    known = common.load_known_findings()
    open_classes = {k["id"]: k for k in known if k["property"] == PROP and k["status"] == "open"}
    violations, disagreements = [], []
    stat, kinds = Counter(), Counter()
    known_hit = Counter()
    distinct = set()
    good = []
    for (label, tree), r in zip(cases, res):
        stat[r["status"]] += 1
        kinds[label.split(":")[0] + (":" + label.split(":")[1] if label.startswith("mut") else "")] += 1
        if r["status"] == "harness-error":
            violations.append({"kind": "harness-error", "what": "harness error", "detail": r.get("error"), "tree": tree})
            continue
        if r.get("ops"):
            good.append((r["ops"], r["obs"], tree))
        if isinstance(tree, str):
            nrec = tree.count("prov:id=") + tree.count(":ref=")
        else:
            nrec = sum(len(v) for k, v in tree.items() if isinstance(v, dict) and k not in ("prefix", "bundle"))
        if nrec >= 1:
            distinct.add(json.dumps(tree, sort_keys=True))
        seen = set()
        for f in r["fails"]:
            cls = classify(f)
            if cls in open_classes:
                known_hit[cls] += 1
                continue
            if f["what"] in seen:
                continue
            seen.add(f["what"])
            violations.append({"kind": "failing-input", "failure": f, "case": label, "tree": tree,
                               "program": [["LoadJson", I.py_to_jv(tree)]] if not isinstance(tree, str) else None})
    # correspondence on every tree
    ood = 0
    if model_runs:
        t1 = time.time()
        lines = corr.model_run([o for o, _, _ in good])
        log("model ran %d trees in %.1fs" % (len(good), time.time() - t1))
        for (ops, obs, tree), line in zip(good, lines):
            if corr.is_ood(line):
                ood += 1
                continue
            d = corr.compare(ops, obs, line)
            if d:
                disagreements.append({"program": ops, "first_difference": d[1][:1500], "tree": tree,
                                      "theorem": "correspondence Json.decode_doc ~ provjson.decode_json_document"})
    nxd, xskip = 0, {}
    if model_runs:
        try:
            nxd, xskip, xbad = xml_document_correspondence(tier, seed)
        except Exception:
            nxd, xskip, xbad = 0, {}, []
            violations.append({"kind": "harness-error", "what": "harness error", "detail": traceback.format_exc()[-1500:]})
        log("PROV-XML documents read by the model: %d texts (%s), %d disagreements" % (nxd, xskip, len(xbad)))
        for b in xbad[:2]:
            disagreements.append({"first_difference": json.dumps(b)[:2000],
                                  "theorem": "correspondence XmlReadDoc.xml_read_document ~ ProvXMLSerializer.deserialize / deserialize_subtree"})
    uniq = {}
    for v in violations:
        uniq.setdefault(v.get("failure", {}).get("what", v.get("what")), v)
    violations = list(uniq.values())[:4]
    known_lines = []
    for fid, k in sorted(open_classes.items()):
        r = run_case(("witness", k["witness_tree"]))
        if any(classify(f) == fid for f in r["fails"]):
            known_lines.append("%s: %s" % (fid, k["what_fails"]))
    coverage = {
        "evaluations": len(cases),
        "distinct_nontrivial": len(distinct),
        "rule": "PROV-JSON trees: specification-driven generator (all record kinds, every literal spelling, single values "
                "wrapped in arrays, multi-entity memberships, record arrays for repeated identifiers, bundle-level prefix "
                "blocks) + single-point mutations of the 398 ProvToolbox files (value kind, wrap/unwrap, key reorder, "
                "consistent prefix renaming, prefix moved into bundles) + originals; each tree: load (document or library "
                "error), write/re-load stability by strict content, agreement with the specification reader, and the same "
                "load in the extracted model; JSON -> d -> XML -> d' for XML-expressible d. PROV-XML texts: specification-driven "
                "generator of foreign dialects (any prefix or the default namespace for prov, declarations on inner elements, subtype "
                "elements, xsi:type on record elements, every literal spelling, prov:other, comments, hadMember with several "
                "entities, bundles re-binding prefixes) + the XML files shipped with the tests; each text: load, XML re-write/"
                "re-load (force_types off/on), XML -> d -> JSON -> d', agreement with the specification reader XmlSpec.read; whole texts "
                "(foreign and library-written) are also read by the extracted model of the library's reader above record level "
                "(XmlReadDoc.xml_read_document) and the document built — records, bundles under their URIs, every table of both "
                "managers — or the error class is compared with ProvDocument.deserialize. "
                "non-trivial = at least one record; distinct = distinct tree/text",
        "samples": [cases[ncorp][1] if len(cases) > ncorp else None, cases[-1][0]],
        "traces_validated_against_impl": (len(good) - ood if model_runs else 0) + nxd,
        "xml_documents_read_by_model": nxd, "xml_documents_skipped": xskip,
        "disagreements_checked": len(disagreements),
        "exhaustive": False,
        "distribution": {"status": dict(stat), "case_kinds": dict(kinds), "out_of_domain": ood,
                         "known_finding_hits": dict(known_hit),
                         "spec_reader": dict(Counter(r.get("spec") for r in res))},
    }
    return {"violations": violations, "known": known_lines, "coverage": coverage, "disagreements": disagreements[:2]}


def replay(path, log):
    r = json.load(open(path))
    tree = r.get("tree")
    if tree is None:
        print(json.dumps(r, indent=1)[:3000])
        return 0
    out = run_case(("replay", tree))
    print(json.dumps({k: v for k, v in out.items() if k not in ("ops", "obs")}, indent=1, default=str)[:4000])
    return 1 if out["fails"] else 0
