"""C02 — PROV-XML round trip preserves every document exactly."""
import re

from harness import worldprop, impl as I
from harness.content import strict_doc
from harness.props import c01

PROP = "C02"
TRUSTED_BASE = [
    "Coq 8.16.1 kernel (coqc); vm_compute for Examples; no native_compute",
    "model: coq/theories/Xml.v — the value-level logic of provxml.py: what the writer emits for one attribute value (text, "
    "xsi:type, xml:lang, prov:ref; the ALWAYS_CHECK / force_types / prov-time / label rules) and what _extract_attributes "
    "rebuilds from it; the element tree assembly (nsmap, child order, subtype element names) is not modelled",
    "lxml/libxml2 (text <-> element tree, escaping, prefix choice) is trusted; the whole writer/reader is exercised by the "
    "direct round-trip oracle for both values of force_types",
    "extraction: ExtrOcamlBasic + ExtrOcamlString; ocaml/driver.ml",
]
ASSUMPTIONS = [
    "XML-expressible documents (property quantifier): NCName attribute local parts, XML 1.0 characters without CR, "
    "prov:label plain or language-tagged, no xsd:QName-typed literal",
    "same known-finding classes of ambiguous / unprintable names as C01",
]

NCNAME = re.compile(r"^[^\W\d][\w.\-]*$", re.UNICODE)
XSD_QNAME = "http://www.w3.org/2001/XMLSchema#QName"
PROVU = "http://www.w3.org/ns/prov#"


def xml_chars_ok(s):
    for ch in s:
        o = ord(ch)
        if o == 0x0D:
            return False
        if o < 0x20 and o not in (0x09, 0x0A):
            return False
        if 0xD800 <= o <= 0xDFFF or o in (0xFFFE, 0xFFFF):
            return False
    return True


def expressible(d):
    import prov.model as M
    for c in [d] + list(d.bundles):
        for r in c.get_records():
            for a, v in r.attributes:
                if not NCNAME.match(a.localpart) or ":" in a.localpart:
                    return False
                if isinstance(v, str) and not xml_chars_ok(v):
                    return False
                if isinstance(v, M.Literal):
                    if not xml_chars_ok(v.value):
                        return False
                    if v.datatype is not None and getattr(v.datatype, "uri", None) == XSD_QNAME:
                        return False
                if a.uri == PROVU + "label":
                    if not (isinstance(v, str) or (isinstance(v, M.Literal) and v.langtag is not None)):
                        return False
    return True


class C02Oracle(worldprop.Oracle):
    def finish(self, ops):
        import prov.model as M
        for di, d in enumerate(self.im.docs):
            if c01.has_mixed_kinds(d) or not expressible(d):
                continue
            want = strict_doc(d)
            for ft in (False, True):
                try:
                    text = d.serialize(format="xml", force_types=ft)
                except Exception as e:
                    self.fail(len(ops), "serialize(format='xml') raised", doc=di, force_types=ft, exc=repr(e)[:300],
                              feats=sorted(c01.diagnose(d)))
                    continue
                try:
                    d2 = M.ProvDocument.deserialize(content=text, format="xml")
                except Exception as e:
                    self.fail(len(ops), "deserialising the emitted PROV-XML raised", doc=di, force_types=ft,
                              exc=repr(e)[:300], feats=sorted(c01.diagnose(d)))
                    continue
                got = strict_doc(d2)
                if got != want:
                    diff = []
                    for k in set(want) | set(got):
                        a, b = want.get(k), got.get(k)
                        if a != b:
                            if a is None or b is None:
                                diff.append(("bundle", k, "missing" if b is None else "extra"))
                            else:
                                diff.append((k, list((a - b).elements())[:1], list((b - a).elements())[:1]))
                    self.fail(len(ops), "PROV-XML round trip changed the content", doc=di, force_types=ft,
                              diff=repr(diff)[:1100], feats=sorted(c01.diagnose(d)))


def value_grid_correspondence():
    """model Xml.xml_emit vs the implementation on attribute class x value kind x force_types"""
    import datetime
    from lxml import etree
    import prov.model as M
    from prov.identifier import Namespace, Identifier
    from harness import common
    from harness.sexp import dumps, loads
    EX = Namespace('ex', 'http://example.org/')
    PROV = M.PROV
    attrs = [EX['k'], PROV['type'], PROV['location'], PROV['value'], PROV['label'], PROV['role'], PROV['time'],
             PROV['startTime'], EX['mytime'], EX['ünï'], PROV['generatedAtTime'], PROV['timeless']]
    vals = ["", "plain", "prov:Person", 'quo"te', "two\nlines", 5, -2 ** 70, 0.5, 1e300, True, False,
            datetime.datetime(2012, 3, 31, 9, 21), datetime.datetime(2012, 3, 31, 9, 21, tzinfo=datetime.timezone.utc),
            Identifier('http://u/x'), Identifier('prov:weird'), EX['qv'], PROV['Person'], M.Literal('hi', langtag='en'),
            M.Literal('x', EX['T']), M.Literal('---30', M.XSD['gDay']), M.Literal('yes', M.XSD_BOOLEAN)]
    XSI = '{http://www.w3.org/2001/XMLSchema-instance}type'
    XML = '{http://www.w3.org/XML/1998/namespace}lang'
    REF = '{http://www.w3.org/ns/prov#}ref'
    reqs, exp = [], []
    for ft in (False, True):
        for a in attrs:
            for v in vals:
                d = M.ProvDocument()
                d.add_namespace(EX)
                try:
                    r = d.activity(EX['e']) if a.localpart == 'startTime' else d.entity(EX['e'])
                    r.add_attributes([(a, v)])
                    stored = [x for k, x in r.attributes][0]
                    x = d.serialize(format='xml', force_types=ft)
                except Exception:
                    continue
                root = etree.fromstring(x.encode())
                el = [c for c in root[0]]
                if len(el) != 1:
                    continue
                c = el[0]
                got = ["xout", ["some", c.text if c.text is not None else ""] if REF not in c.attrib else "none",
                       ["some", c.attrib[XSI]] if XSI in c.attrib else "none",
                       ["some", c.attrib[XML]] if XML in c.attrib else "none",
                       ["some", c.attrib[REF]] if REF in c.attrib else "none"]
                reqs.append(dumps(["xmlvalue", "true" if ft else "false", I.sx_qn(r.attributes[0][0]), I.sx_value(stored)]))
                exp.append((ft, str(a), repr(v), got))
    outs = common.run_model_batch(reqs)
    bad = []
    for (ft, a, v, got), o in zip(exp, outs):
        m = loads(o)
        if m != got:
            bad.append({"force_types": ft, "attribute": a, "value": v, "implementation": got, "model": m})
    return len(exp), bad


def label_correspondence():
    """the element-name choice of the writer (_derive_record_label) and the reader's inverse against the model
    (XmlLabel.v), on ordered attribute lists: for every subtype, the qualified name under two prefixes, the plain URI,
    the string and an unrelated type, in every order, on the subtype's class and on another class"""
    import itertools
    from harness import common
    from harness.sexp import dumps, loads
    from prov.serializers.provxml import ProvXMLSerializer, FULL_NAMES_MAP
    from prov.constants import PROV_BASE_CLS, PROV_TYPE, PROV_LABEL, PROV
    from prov.identifier import Namespace, QualifiedName, Identifier
    from prov.model import ProvDocument
    ser = ProvXMLSerializer(None)
    PROVU = PROV.uri
    ex = Namespace("ex", "http://example.org/")
    p2 = Namespace("p2", PROVU)
    reqs, exp = [], []
    subs = sorted((k for k in PROV_BASE_CLS if PROV_BASE_CLS[k] != k), key=lambda q: q.localpart)
    for sub in subs:
        l = sub.localpart
        pool = [(PROV_TYPE, PROV[l]), (PROV_TYPE, p2[l]), (PROV_TYPE, Identifier(PROVU + l)), (PROV_TYPE, "prov:" + l),
                (ex["k"], PROV[l]), (PROV_TYPE, ex["T"]), (PROV_LABEL, "x")]
        base = PROV_BASE_CLS[sub]
        other = PROV["Activity"] if base != PROV["Activity"] else PROV["Entity"]
        for n in (1, 2, 3):
            for combo in itertools.permutations(pool, n):
                for kind in (base, other):
                    attrs = list(combo)
                    label = ser._derive_record_label(kind, attrs)
                    got = ["some", label, [[I.sx_qn(k), I.sx_value(v)] for k, v in attrs]]
                    reqs.append(dumps(["xmllabel", kind.localpart, [[I.sx_qn(k), I.sx_value(v)] for k, v in combo]]))
                    exp.append(("write", kind.localpart, repr(combo), got))
    for rec_type, label in sorted(FULL_NAMES_MAP.items(), key=lambda kv: kv[1]):
        text = ('<prov:document xmlns:prov="%s" xmlns:ex="http://example.org/"><prov:%s prov:id="ex:x"/></prov:document>'
                % (PROVU, label))
        d = ProvDocument.deserialize(content=text, format="xml")
        r = d.get_records()[0]
        types = sorted(t.localpart for t in r.get_asserted_types() if isinstance(t, QualifiedName) and t.namespace.uri == PROVU)
        got = ["some", r.get_type().localpart, (["some", types[0]] if len(types) == 1 else ["none"] if not types else ["many"] + types)]
        reqs.append(dumps(["xmlreadlabel", label]))
        exp.append(("read", label, text, got))
    outs = common.run_model_batch(reqs)
    bad = []
    for (what, k, inp, got), o in zip(exp, outs):
        m = loads(o)
        if m != got:
            bad.append({"direction": what, "kind_or_label": k, "input": inp[:600], "implementation": got, "model": m})
    return len(exp), bad


def record_correspondence(tier):
    """the record loop of the writer against the model (XmlRec.v): for every record of a set of documents the element
    lxml holds after serialisation — name, prov:id, the children with their xsi:type / xml:lang / prov:ref and text, in
    order — is compared with the element the model builds from the record's kind, identifier and attribute list.
    Same-name siblings are compared as a multiset (the library orders them by printed value)."""
    from harness import common, xmltree, progs
    from harness.sexp import dumps, loads
    from harness.props import c13
    import prov.model as M
    from lxml import etree
    PROVU = "http://www.w3.org/ns/prov#"
    programs = progs.value_grid_programs(()) + progs.subtype_programs(()) + progs.scoping_programs(()) + c13.fixed_programs()
    EXU = "http://example.org/"
    multi = [["NewDoc"], ["AddNs", ["d", "0"], "ex", EXU],
             ["NewRecord", ["d", "0"], "Entity", ["S", "ex:e"],
              [[["S", "prov:type"], ["qn", "ex", EXU, "T1"]], [["S", "ex:z"], ["int", "1"]], [["S", "prov:type"], ["qn", "ex", EXU, "T2"]],
               [["S", "prov:label"], ["str", "l1"]], [["S", "prov:type"], ["str", "T3"]], [["S", "prov:label"], ["lit", "l2", "none", ["some", "en"]]],
               [["S", "ex:a"], ["str", "x"]], [["S", "ex:a"], ["int", "2"]], [["S", "prov:location"], ["str", "here"]],
               [["S", "prov:location"], ["id", EXU + "there"]], [["S", "prov:value"], ["float", "0.5"]]]],
             ["NewRecord", ["d", "0"], "Activity", ["S", "ex:act"],
              [[["S", "prov:startTime"], ["time", "2012", "3", "31", "9", "21", "0", "0", "none"]],
               [["S", "prov:type"], ["str", "a"]], [["S", "prov:type"], ["str", "b"]], [["S", "prov:type"], ["str", "c"]],
               [["S", "ex:k"], ["bool", "true"]], [["S", "prov:label"], ["str", "act"]]]],
             ["NewRecord", ["d", "0"], "Usage", ["S", "ex:u"],
              [[["S", "prov:activity"], ["str", "ex:act"]], [["S", "prov:role"], ["str", "r1"]], [["S", "prov:role"], ["str", "r2"]],
               [["S", "prov:entity"], ["str", "ex:e"]], [["S", "ex:k"], ["int", "1"]], [["S", "prov:type"], ["str", "t"]],
               [["S", "prov:time"], ["time", "2012", "3", "31", "9", "21", "0", "0", "60"]]]]]
    programs = [multi] + programs
    docs = []
    for ops in programs:
        im = I.Impl()
        for op in ops:
            im.step(op)
        docs.extend(im.docs)

    def canon(t):
        # (ns, local, attrs, text, children grouped by name with each group sorted)
        kids = [canon(k) for k in t[6]]
        groups = []
        for k in kids:
            if groups and groups[-1][0] == (k[0], k[1]):
                groups[-1][1].append(k)
            else:
                groups.append([(k[0], k[1]), [k]])
        return [t[1], t[2], sorted(map(tuple, t[3])), t[5], [[list(g[0]), sorted(g[1], key=repr)] for g in groups]]

    reqs, exp = [], []
    for d in docs:
        if not expressible(d) or c01.has_mixed_kinds(d):
            continue
        for ft in (False, True):
            try:
                text = d.serialize(format="xml", force_types=ft)
            except Exception:
                continue
            root = xmltree.tree_of(text)
            conts = [(d, [k for k in root[6] if k[2] != "bundleContent"])] + \
                    [(b, k[6]) for b, k in zip(d.bundles, [k for k in root[6] if k[2] == "bundleContent"])]
            for c, elems in conts:
                recs = c.get_records()
                if len(recs) != len(elems):
                    exp.append((ft, "record count", None, None)); reqs.append(dumps(["xmlreadlabel", "entity"]))
                    continue
                for r, el in zip(recs, elems):
                    pairs = [[I.sx_qn(k), I.sx_value(v)] for k, v in r.attributes]
                    ident = I.sx_qn(r.identifier) if r.identifier is not None else "none"
                    reqs.append(dumps(["xmlrecord", "true" if ft else "false", I.KIND_OF[type(r)], ident, pairs]))
                    exp.append((ft, str(r), canon(el), r))
    outs = common.run_model_batch(reqs)
    bad = []
    for (ft, what, want, r), o in zip(exp, outs):
        if want is None:
            bad.append({"what": "the document element does not hold one child per record"})
            continue
        m = loads(o)
        if not (isinstance(m, list) and m and m[0] == "e"):
            bad.append({"force_types": ft, "record": what[:300], "model": dumps(m)[:200]})
            continue
        if canon(m) != want:
            bad.append({"force_types": ft, "record": what[:400], "implementation": repr(want)[:700], "model": repr(canon(m))[:700]})
    return len(exp), bad


SCOPE_LEVEL = True       # switched on with the xmlscopes request of the model driver


def scope_correspondence(tier, seed):
    """the prefix map the writer attaches to the element of every container (document, each bundleContent) against
    the model (XmlScope.nsmap_of): generated API programs plus the scoping and fixed families are run on the
    implementation, every document of the final world is written, and lxml's nsmap of the document element and of each
    bundleContent element is compared with the model's map for the same program ("" stands for the default namespace)"""
    import random
    from harness import common, progs, corr
    from harness.sexp import dumps, loads
    from harness.props import c13
    from lxml import etree
    rng = random.Random(seed * 31 + 7)
    programs = progs.scoping_programs(()) + c13.fixed_programs()
    n = 60 if tier == "quick" else 800
    for i in range(n):
        ops, _ = progs.generate(rng.randrange(1 << 60), rng.randrange(5, 22), rng.choice(["json", "mixed", "records"]), observe_each=False)
        programs.append(progs.without_exports(ops))
    PROVU = "http://www.w3.org/ns/prov#"
    exp, reqs = [], []
    for ops in programs:
        im = I.Impl()
        ok = True
        for op in ops:
            try:
                im.step(op)
            except Exception:
                ok = False
                break
        if not ok:
            continue
        maps = []
        for d in im.docs:
            try:
                text = d.serialize(format="xml")
                root = etree.fromstring(text.encode("utf-8"))
            except Exception:
                maps.append(None)              # not expressible in XML (a prefix lxml refuses, ...)
                continue
            conts = [root] + [k for k in root if k.tag == "{%s}bundleContent" % PROVU]
            maps.append([{("" if k is None else k): v for k, v in c.nsmap.items()} for c in conts])
        exp.append((ops, maps))
        reqs.append(dumps(["xmlscopes", I.float_table(ops)] + ops))
    outs = common.run_model_batch(reqs)
    bad = []
    ncont = 0
    for (ops, maps), o in zip(exp, outs):
        m = loads(o)
        if not isinstance(m, list) or len(m) != len(maps):
            bad.append({"program": ops, "model": str(m)[:200]})
            continue
        for di, (mm, im_) in enumerate(zip(m, maps)):
            if im_ is None:
                continue
            got = [{p: u for p, u in sc} for sc in mm]
            ncont += len(im_)
            if got != im_:
                bad.append({"program": ops, "doc": di, "model": repr(got)[:600], "implementation": repr(im_)[:600]})
                break
    return ncont, bad


def document_correspondence(tier, seed):
    """the whole tree serialize() builds against the model (XmlScope.xml_document): document element and its scope, one
    element per record in order, then one bundleContent per bundle with prov:id, its own scope and its records — for
    generated API programs plus the scoping, value-grid, subtype and fixed families, force_types False and True.
    Same-name sibling attribute elements are compared as a multiset (the library orders them by printed value); the scope
    of an element below a container is the container's."""
    import random
    from harness import common, progs, xmltree
    from harness.sexp import dumps, loads
    from harness.props import c13
    rng = random.Random(seed * 131 + 3)
    programs = progs.scoping_programs(()) + c13.fixed_programs() + progs.subtype_programs(())[:40] + progs.value_grid_programs(())[:60]
    n = 40 if tier == "quick" else 600
    for i in range(n):
        ops, _ = progs.generate(rng.randrange(1 << 60), rng.randrange(5, 22), rng.choice(["json", "mixed", "records"]), observe_each=False)
        programs.append(progs.without_exports(ops))

    def canon(t, container=True):
        kids = [canon(k, k[2] == "bundleContent") for k in t[6]]
        groups = []
        for k in kids:
            if groups and groups[-1][0] == (k[0], k[1]) and not container:
                groups[-1][1].append(k)
            else:
                groups.append([(k[0], k[1]), [k]])
        scope = sorted(tuple(x) for x in t[4] if x[0] != "xml") if container else None
        return [t[1], t[2], sorted(map(tuple, t[3])), scope, t[5], [[list(g[0]), sorted(g[1], key=repr)] for g in groups]]
    exp, reqs = [], []
    skipped = 0
    for ops in programs:
        im = I.Impl()
        ok = True
        for op in ops:
            try:
                im.step(op)
            except Exception:
                ok = False
                break
        if not ok:
            continue
        if any((not expressible(d)) or c01.has_mixed_kinds(d) or c01.diagnose(d) for d in im.docs):
            skipped += 1                       # a document outside the XML space or with a known-finding trait
            continue

        def several_subtypes(d):
            # which of several subtype names becomes the element name follows Python's set order: compared per record,
            # with the implementation's own order, by record_correspondence
            import prov.model as M
            for c in [d] + list(d.bundles):
                for r in c.get_records():
                    vs = [v for a, v in r.attributes if a == M.PROV_TYPE and isinstance(v, M.QualifiedName) and v.namespace.uri == M.PROV.uri]
                    if len(vs) > 1:
                        return True
            return False
        if any(several_subtypes(d) for d in im.docs):
            skipped += 1
            continue
        for ft in (False, True):
            trees = []
            try:
                for d in im.docs:
                    trees.append(canon(xmltree.tree_of(d.serialize(format="xml", force_types=ft))))
            except Exception:
                continue
            exp.append((ops, ft, trees))
            reqs.append(dumps(["xmldocs", "true" if ft else "false", I.float_table(ops)] + ops))
    outs = common.run_model_batch(reqs)
    bad = []
    ndocs = 0
    for (ops, ft, trees), o in zip(exp, outs):
        m = loads(o)
        if not isinstance(m, list) or len(m) != len(trees):
            bad.append({"program": ops, "model": str(m)[:200]})
            continue
        for di, (mt, it) in enumerate(zip(m, trees)):
            ndocs += 1
            if mt == "none":
                bad.append({"program": ops, "doc": di, "force_types": ft, "model": "no element"})
                break
            got = canon(mt)
            if got != it:
                bad.append({"program": ops, "doc": di, "force_types": ft, "model": repr(got)[:900], "implementation": repr(it)[:900]})
                break
    return ndocs, skipped, bad


def read_correspondence(tier):
    """the reader's loop body against the model (XmlRead.v): every record element of the serialised documents is put, with
    the prefix bindings in scope, under a fresh prov:document and read by the library; the records it makes are compared
    with the records the model makes from the same element tree (names resolved against the element's own scope)."""
    import copy as _copy
    from harness import common, xmltree, progs
    from harness.sexp import dumps, loads
    from harness.props import c13
    import prov.model as M
    from lxml import etree
    PROVU = "http://www.w3.org/ns/prov#"
    programs = progs.value_grid_programs(()) + progs.subtype_programs(()) + progs.scoping_programs(()) + c13.fixed_programs()
    if tier != "thorough":
        programs = programs[::2]
    docs = []
    for ops in programs:
        im = I.Impl()
        for op in ops:
            im.step(op)
        docs.extend(im.docs)
    reqs, exp = [], []
    seen = set()
    for d in docs:
        if not expressible(d) or c01.has_mixed_kinds(d):
            continue
        for ft in (False, True):
            try:
                text = d.serialize(format="xml", force_types=ft)
            except Exception:
                continue
            root = etree.fromstring(text.encode("utf-8"))
            elems = []
            for k in root:
                if not isinstance(k.tag, str):
                    continue
                if etree.QName(k).localname == "bundleContent":
                    elems.extend(c for c in k if isinstance(c.tag, str))
                else:
                    elems.append(k)
            for el in elems:
                key = etree.tostring(el) + repr(sorted((p or "", u) for p, u in el.nsmap.items())).encode()
                if key in seen:
                    continue
                seen.add(key)
                nsmap = dict(el.nsmap)
                nsmap.setdefault("prov", PROVU)
                newroot = etree.Element("{%s}document" % PROVU, nsmap=nsmap)
                newroot.append(_copy.deepcopy(el))
                payload = etree.tostring(newroot)
                try:
                    d2 = M.ProvDocument.deserialize(content=payload, format="xml")
                    got = ["ok", [I.sx_rec(r) for r in d2.get_records()]]
                except Exception as e:
                    got = ["raise", I.exc_class(e)]
                t = xmltree.tree_of(payload)[6][0]
                pm = {}
                for c in newroot[0]:
                    if isinstance(c.tag, str):
                        pm.setdefault(etree.QName(c).namespace or "", c.prefix)
                pmap = [[ns, ["some", p] if p else "none"] for ns, p in sorted(pm.items())]
                ftab = I.float_table([["str", x] for x in sorted(xmltree.leaf_texts(t, set()))])
                reqs.append(dumps(["xmlreadrecord", ftab, pmap, t]))
                exp.append((payload.decode("utf-8", "replace")[:600], got))
    outs = common.run_model_batch(reqs)
    bad = []
    skipped = 0
    for (payload, got), o in zip(exp, outs):
        m = loads(o)
        if m == "out-of-domain":
            skipped += 1
            continue
        if I.canon(m) != I.canon(got):
            bad.append({"element": payload, "implementation": dumps(I.canon(got))[:700], "model": dumps(I.canon(m))[:700]})
    return len(exp), skipped, bad


def classify(f, ops):
    if "xsd-uri-without-hash" in (f.get("feats") or []):
        return "C02-F3"
    c = c01.classify(f, ops)
    if c == "C01-F4" and ("ambiguous-name" in (f.get("feats") or []) or "empty-prefix-registered" in (f.get("feats") or [])):
        # two bundle identifiers that print alike (the PROV-JSON finding C01-F4) in a document that also has a name whose
        # printed form denotes another URI in its own container: in PROV-XML that is the C02-F1 situation — a bundle's
        # prov:id, read in the bundle's scope, lands on the other bundle's URI
        c = "C01-F1"
    return {"C01-F1": "C02-F1", "C01-F2": "C02-F2", "C01-F3": None}.get(c)


def fixed_programs():
    """names of a default namespace whose local part holds a colon (run:42): as identifiers, as reference targets and as
    qualified-name values, at document level and in a bundle with a default namespace of its own, next to names
    with a colon in the local part under a declared prefix"""
    D1, D2, EXU = "http://default.test/", "http://d2.test/", "http://example.org/"
    PROVU = "http://www.w3.org/ns/prov#"
    out = []
    for with_bundle in (False, True):
        for declared_too in (False, True):
            p = [["NewDoc"], ["SetDefault", ["d", "0"], D1], ["AddNs", ["d", "0"], "ex", EXU]]
            c, D = ["d", "0"], D1
            if with_bundle:
                p += [["NewBundle", "0", ["S", "ex:b"]], ["SetDefault", ["b", "0", "0"], D2]]
                c, D = ["b", "0", "0"], D2
            p.append(["NewRecord", c, "Entity", ["Q", "", D, "run:42"], [[["S", "ex:k"], ["qn", "", D, "v:1"]]]])
            p.append(["NewRecord", c, "Activity", ["Q", "", D, "a:b"], []])
            p.append(["NewRecord", c, "Usage", ["Q", "", D, "u:1:2"],
                      [[["Q", "prov", PROVU, "activity"], ["qn", "", D, "a:b"]], [["Q", "prov", PROVU, "entity"], ["qn", "", D, "run:42"]]]])
            p.append(["NewRecord", c, "Entity", ["Q", "", D, "plain"], []])
            if declared_too:
                p.append(["NewRecord", c, "Entity", ["Q", "ex", EXU, "part:7"], [[["S", "ex:k"], ["qn", "ex", EXU, "w:2"]]]])
            out.append(p)
    return out


def run(tier, seed, log, model_runs=True, enlarged=False):
    res = worldprop.run(PROP, tier, seed, log, model_runs, enlarged, C02Oracle, ["json", "mixed", "records"],
                         n_quick=160, n_thorough=3000, classify=classify, nontrivial=c01.nontrivial,
                         ops_range_quick=(6, 20), ops_range_thorough=(8, 36),
                         rule_text="API programs as in C01; every XML-expressible document of the final world is written with "
                                   "force_types False and True, read back and compared by strict content (kind, identifier URI, "
                                   "attribute URI, value with Python kind / datatype / language / offset, multiplicity, bundle); "
                                   "non-trivial = >=2 record-creating calls",
                         extra_cases=__import__('harness.progs', fromlist=['x']).same_text_programs(()) + __import__('harness.progs', fromlist=['x']).scoping_programs(()) + __import__('harness.progs', fromlist=['x']).value_grid_programs(()) + __import__('harness.progs', fromlist=['x']).subtype_programs(()) + fixed_programs(),
                         theorem_note="C02 value-level round trip (Xml.v)")
    if model_runs:
        n, bad = value_grid_correspondence()
        res["coverage"]["value_grid_cases"] = n
        log("value grid: %d cases, %d disagreements" % (n, len(bad)))
        for b in bad[:2]:
            res["disagreements"].append({"first_difference": repr(b)[:900],
                                         "theorem": "correspondence Xml.xml_emit ~ provxml.serialize_bundle (value level)"})
        n, bad = record_correspondence(tier)
        res["coverage"]["record_element_cases"] = n
        log("record elements: %d cases, %d disagreements" % (n, len(bad)))
        for b in bad[:2]:
            res["disagreements"].append({"first_difference": repr(b)[:1500],
                                         "theorem": "correspondence XmlRec.xml_record ~ provxml.serialize_bundle (record loop)"})
        n, skipped, bad = read_correspondence(tier)
        res["coverage"]["read_element_cases"] = n
        res["coverage"]["read_element_out_of_domain"] = skipped
        log("read elements: %d cases (%d outside the model), %d disagreements" % (n, skipped, len(bad)))
        for b in bad[:2]:
            res["disagreements"].append({"first_difference": repr(b)[:1500],
                                         "theorem": "correspondence XmlRead.xml_read_record ~ provxml.deserialize_subtree (loop body)"})
        if SCOPE_LEVEL:
            n, bad = scope_correspondence(tier, seed)
            res["coverage"]["container_scope_cases"] = n
            log("container scopes: %d containers, %d disagreements" % (n, len(bad)))
            for b in bad[:2]:
                res["disagreements"].append({"first_difference": repr(b)[:1500], "program": b.get("program"),
                                             "theorem": "correspondence XmlScope.nsmap_of ~ the nsmap provxml.serialize_bundle attaches "
                                                        "(C02_scope_* are stated over the model)"})
        if SCOPE_LEVEL:
            n, sk, bad = document_correspondence(tier, seed)
            res["coverage"]["document_tree_cases"] = n
            log("document trees: %d documents (%d programs outside the space), %d disagreements" % (n, sk, len(bad)))
            for b in bad[:2]:
                res["disagreements"].append({"first_difference": repr({k: v for k, v in b.items() if k != "program"})[:1800], "program": b.get("program"),
                                             "theorem": "correspondence XmlScope.xml_document ~ the tree provxml.serialize builds "
                                                        "(C10_xml_document is stated over the model)"})
        n, bad = label_correspondence()
        res["coverage"]["element_name_cases"] = n
        log("element names: %d cases, %d disagreements" % (n, len(bad)))
        for b in bad[:2]:
            res["disagreements"].append({"first_difference": repr(b)[:1200],
                                         "theorem": "correspondence XmlLabel.record_label / read_label ~ provxml._derive_record_label / "
                                                    "deserialize_subtree (C02_element_name_conserves)"})
    return res


def replay(path, log):
    return worldprop.replay(path, C02Oracle, log)
