"""C13 — exporting never mutates the document and is repeatable."""
import io
import json
import os
import subprocess

import datetime
from harness import worldprop, impl as I, common
from harness.content import observable_doc

PROP = "C13"
TRUSTED_BASE = [
    "Coq 8.16.1 kernel (coqc); no native_compute",
    "model: coq/theories/Interp.v — exporters (ExportJson, ExportProvn, ToGraph, Eq, EqRec, GetRecords) are functions of the "
    "world that return it unchanged; unified/flattened/graph round trip only append a document (frame theorem C12). In the "
    "model exports cannot write; that the implementation's exporters do not write is established by the correspondence (the "
    "model must predict every document after every export) and by the direct before/after oracle below — proof on the "
    "model + correspondence for the 'does not write' half",
    "PROV-XML, RDF and DOT exporters are not in the Coq model: they are covered by the direct oracle only",
    "defaultdict reads that insert empty entries (_attributes[PROV_LABEL], _id_map[x]) are not content and not observed",
]
ASSUMPTIONS = ["RDF output is compared up to graph isomorphism (rdflib.compare)"]


def exporters():
    """name -> function(doc) -> comparable artefact (text) or None"""
    import prov.model as M
    from prov.dot import prov_to_dot
    from prov.graph import prov_to_graph, graph_to_prov

    def ser(fmt, **kw):
        return lambda d: d.serialize(format=fmt, **kw)

    def rdf(d):
        return d.serialize(format="rdf")

    def dot(d):
        return prov_to_dot(d).to_string()

    def dot2(d):
        return prov_to_dot(d, use_labels=True, show_nary=False).to_string()

    def graph(d):
        g = prov_to_graph(d)
        return "%d nodes %d edges" % (g.number_of_nodes(), g.number_of_edges())

    def compare(d):
        return repr((d == d, d != d, [hash(r) for r in d.get_records()][:0]))

    def hashing(d):
        for r in d.get_records():
            hash(r)
        return "hashed"

    def unify(d):
        try:
            return d.unified().get_provn()
        except M.ProvException:
            return "ProvException"

    def flatten(d):
        return d.flattened().get_provn()

    def listing(d):
        return repr((len(d.get_records()), len(list(d.get_records(M.ProvElement))), len(d.records),
                     [str(r) for r in d.get_records()][:0], [r.args for r in d.get_records()][:0]))

    def reuse(fmt, **kw):
        """one serializer object used for two exports in a row (as an application holding a serializer does): the second
        text must be the first, and both what document.serialize returns"""
        def f(d):
            import io
            import prov.serializers
            s_ = prov.serializers.get(fmt)(d)
            outs = []
            for _ in range(2):
                buf = io.StringIO()
                s_.serialize(buf, **kw)
                outs.append(buf.getvalue())
            if outs[0] != outs[1]:
                return "SECOND EXPORT OF ONE SERIALIZER DIFFERS: " + outs[1][:300]
            return outs[0]
        return f

    return {"json-reuse": reuse("json"), "xml-reuse": reuse("xml"), "provn-reuse": reuse("provn"),
            "json": ser("json"), "json-indent": ser("json", indent=2, sort_keys=True), "xml": ser("xml"),
            "xml-force": ser("xml", force_types=True), "provn": ser("provn"), "get_provn": lambda d: d.get_provn(),
            "rdf": rdf, "dot": dot, "dot-labels": dot2, "graph": graph, "compare": compare, "hash": hashing,
            "unified": unify, "flattened": flatten, "listing": listing}


TEXT_STABLE = ("json", "json-indent", "xml", "xml-force", "provn", "get_provn", "dot", "dot-labels", "unified", "flattened",
               "json-reuse", "xml-reuse", "provn-reuse")
SAME_TEXT = {"json-reuse": "json", "xml-reuse": "xml", "provn-reuse": "provn"}


def rdf_iso(a, b):
    from rdflib import ConjunctiveGraph
    from rdflib.compare import isomorphic
    ga, gb = ConjunctiveGraph(), ConjunctiveGraph()
    ga.parse(data=a, format="trig")
    gb.parse(data=b, format="trig")
    return isomorphic(ga, gb)


class C13Oracle(worldprop.Oracle):
    def finish(self, ops):
        exps = exporters()
        idx = len(ops)
        order = list(exps)
        # a deterministic but program-dependent order and repetition of the export calls
        k = sum(len(o) for o in ops) % len(order)
        order = order[k:] + order[:k]
        for di, d in enumerate(self.im.docs):
            before_all = [observable_doc(x) for x in self.im.docs]
            first = {}
            # every text export once before and once after all the others, whatever the rotation
            bracket = ["json", "json-indent", "xml", "xml-force", "get_provn"]
            for name in bracket + order + order[:5] + bracket:
                try:
                    out = exps[name](d)
                except Exception as e:
                    out = "EXC:" + type(e).__name__
                after_all = [observable_doc(x) for x in self.im.docs]
                if after_all != before_all:
                    changed = [i for i, (a, b) in enumerate(zip(before_all, after_all)) if a != b]
                    self.fail(idx, "an export changed a document", exporter=name, exported_doc=di, changed_docs=changed)
                    before_all = after_all
                if name in first:
                    if name == "rdf":
                        if isinstance(out, str) and isinstance(first[name], str) and not out.startswith("EXC") \
                                and not rdf_iso(first[name], out):
                            self.fail(idx, "two RDF exports of the same document are not isomorphic", doc=di)
                    elif name in TEXT_STABLE and out != first[name]:
                        self.fail(idx, "the same export called twice returned different text", exporter=name, doc=di)
                else:
                    first[name] = out
                if isinstance(out, str) and out.startswith("SECOND EXPORT OF ONE SERIALIZER DIFFERS"):
                    self.fail(idx, "one serializer object exporting twice returned different text", exporter=name, doc=di)
            for name, base in SAME_TEXT.items():
                if name in first and base in first and first[name] != first[base] and not str(first[base]).startswith("EXC"):
                    self.fail(idx, "a serializer object and document.serialize return different text", exporter=name, doc=di)
        self.texts = None
        self.exported_midway(ops)

    def exported_midway(self, ops):
        """two worlds built by the same calls, one of them exported, compared, hashed, unified and flattened after every
        single call: since exporting changes nothing, both must end up exporting the same texts (and equal documents);
        in both, records whose time is set with set_time after the exports"""
        import prov.model as M
        idx = len(ops)
        exps = exporters()
        mid = ["xml", "rdf", "compare", "hash", "unified", "flattened", "json", "get_provn", "graph", "dot", "listing"]
        worlds = []
        for with_exports in (True, False):
            im = I.Impl()
            for o in ops:
                if o[0] == "ObserveAll":
                    continue
                try:
                    im.step(o)
                except Exception:
                    pass
                if with_exports:
                    for d in im.docs:
                        for name in mid:
                            try:
                                exps[name](d)
                            except Exception:
                                pass
            # a time set in place at the very end, in both worlds alike
            k = 0
            for d in im.docs:
                for c in [d] + list(d.bundles):
                    for r in c.get_records(M.ProvActivity):
                        k += 1
                        if k <= 3:
                            try:
                                r.set_time(datetime.datetime(2001, 2, 3, 4, 5, 6 + k), datetime.datetime(2002, 3, 4, 5, 6, 7))
                            except Exception:
                                pass
            worlds.append(im)
        a, b = worlds
        if len(a.docs) != len(b.docs):
            self.fail(idx, "exporting after every call changed how many documents the same calls build")
            return
        for di, (da, db) in enumerate(zip(a.docs, b.docs)):
            # (the texts themselves may order attributes differently: a read accessor leaves an empty entry behind in a
            # record's attribute dictionary, which is not content; what each text *says* must be the same)
            if observable_doc(da) != observable_doc(db):
                self.fail(idx, "a document exported after every call and its twin built by the same calls differ in content", doc=di)
                return
            for name, fmt in (("json", "json"), ("xml", "xml"), ("xml-force", "xml")):
                try:
                    ta, tb = exps[name](da), exps[name](db)
                    ca = observable_doc(M.ProvDocument.deserialize(content=ta, format=fmt))
                    cb = observable_doc(M.ProvDocument.deserialize(content=tb, format=fmt))
                except Exception as e:
                    ca = cb = None
                if ca != cb:
                    self.fail(idx, "a document exported after every call and its twin built by the same calls export texts that read back differently",
                              exporter=name, doc=di)
                    return
            try:
                ra, rb = exps["rdf"](da), exps["rdf"](db)
                iso = rdf_iso(ra, rb)
            except Exception:
                iso = True
            if not iso:
                self.fail(idx, "a document exported after every call and its twin built by the same calls give non-isomorphic RDF", doc=di)
                return
            if not (da == db) or (da != db):
                self.fail(idx, "a document exported after every call differs (==) from its twin built by the same calls", doc=di)
                return


def same_calls_texts(ops, hashseed):
    """In a fresh interpreter (possibly under another PYTHONHASHSEED) build the documents of the program twice, by
    the same calls, and return the text exports of both builds.  (Texts of different interpreters are not compared:
    the iteration order of Python sets of strings changes with the hash seed, and the property speaks of two
    documents built by the same calls, not of two processes.)"""
    code = (
        "import sys, json\n"
        "from harness import impl as I\n"
        "ops = json.load(sys.stdin)\n"
        "builds = []\n"
        "for k in range(2):\n"
        "    im = I.Impl()\n"
        "    for o in ops:\n"
        "        if o[0] != 'ObserveAll': im.step(o)\n"
        "    def ex(f):\n"
        "        try: return f()\n"
        "        except Exception as e: return 'EXC:' + type(e).__name__\n"
        "    builds.append([[ex(lambda: d.serialize(format='json')), ex(lambda: d.serialize(format='xml')), ex(lambda: d.get_provn())] for d in im.docs])\n"
        "print(json.dumps(builds))\n")
    env = common.impl_env({"PYTHONHASHSEED": str(hashseed)})
    p = subprocess.run([common.PY, "-c", code], input=json.dumps(ops), capture_output=True, text=True, env=env, timeout=120)
    lines = [l for l in p.stdout.split("\n") if l.startswith("[")]
    return json.loads(lines[-1]) if lines else None


def nontrivial(ops):
    return sum(1 for o in ops if o[0] in ("NewRecord", "Factory")) >= 2


def fixed_programs():
    """documents on which exporters have real work to do: records sharing an identifier with different attribute values
    (unified, graph and DOT merge them), at document level and in a bundle, unset optional arguments, multi-valued
    attributes"""
    EXU = "http://example.org/"
    PROVU = "http://www.w3.org/ns/prov#"
    out = []
    for in_bundle in (False, True):
        p = [["NewDoc"], ["AddNs", ["d", "0"], "ex", EXU]]
        c = ["d", "0"]
        if in_bundle:
            p.append(["NewBundle", "0", ["S", "ex:b"]])
            c = ["b", "0", "0"]
        p += [["NewRecord", c, "Entity", ["S", "ex:e"], [[["S", "ex:k"], ["str", "one"]], [["S", "prov:type"], ["qn", "ex", EXU, "T1"]]]],
              ["NewRecord", c, "Entity", ["S", "ex:e"], [[["S", "ex:k"], ["str", "two"]], [["S", "prov:label"], ["str", "l2"]],
                                                         [["S", "prov:type"], ["qn", "ex", EXU, "T2"]]]],
              ["NewRecord", c, "Activity", ["S", "ex:a"], []],
              ["NewRecord", c, "Activity", ["S", "ex:a"], [[["Q", "prov", PROVU, "startTime"], ["time", "2012", "3", "31", "9", "21", "0", "0", "none"]]]],
              ["NewRecord", c, "Generation", ["S", "ex:g"], [[["Q", "prov", PROVU, "entity"], ["str", "ex:e"]], [["S", "ex:k"], ["int", "1"]]]],
              ["NewRecord", c, "Generation", ["S", "ex:g"], [[["Q", "prov", PROVU, "entity"], ["str", "ex:e"]],
                                                             [["Q", "prov", PROVU, "activity"], ["str", "ex:a"]], [["S", "ex:k"], ["int", "2"]]]],
              ["NewRecord", c, "Usage", "none", [[["Q", "prov", PROVU, "activity"], ["str", "ex:a"]], [["Q", "prov", PROVU, "entity"], ["str", "ex:undeclared"]]]]]
        out.append(p)
    # a bundle that re-declares the prefix (and the default namespace) through which its own identifier was given
    out.append([["NewDoc"], ["AddNs", ["d", "0"], "ex", EXU], ["SetDefault", ["d", "0"], "http://default.test/"],
                ["NewBundle", "0", ["S", "ex:b"]], ["AddNs", ["b", "0", "0"], "ex", "http://other.org/"],
                ["NewRecord", ["b", "0", "0"], "Entity", ["S", "ex:e"], []],
                ["NewBundle", "0", ["S", "b2"]], ["SetDefault", ["b", "0", "1"], "http://d2.test/"],
                ["NewRecord", ["b", "0", "1"], "Entity", ["S", "e2"], [[["S", "ex:k"], ["str", "v"]]]]])
    # unified() raises on this one (two activities ex:a with different start times): exporters that fall back to the
    # original document must still leave it alone
    out.append([["NewDoc"], ["AddNs", ["d", "0"], "ex", EXU],
                ["NewRecord", ["d", "0"], "Activity", ["S", "ex:a"], [[["Q", "prov", PROVU, "startTime"], ["time", "2012", "3", "31", "9", "21", "0", "0", "none"]],
                                                                    [["S", "prov:label"], ["str", "first"]]]],
                ["NewRecord", ["d", "0"], "Activity", ["S", "ex:a"], [[["Q", "prov", PROVU, "startTime"], ["time", "2012", "3", "31", "10", "21", "0", "0", "none"]],
                                                                    [["S", "prov:label"], ["lit", "second", "none", ["some", "en"]]]]],
                ["NewRecord", ["d", "0"], "Entity", ["S", "ex:e"], [[["S", "prov:label"], ["str", "labelled"]], [["S", "ex:k"], ["int", "1"]]]],
                ["NewRecord", ["d", "0"], "Usage", ["S", "ex:u"], [[["Q", "prov", PROVU, "activity"], ["str", "ex:a"]], [["Q", "prov", PROVU, "entity"], ["str", "ex:e"]],
                                                                 [["S", "prov:label"], ["str", "used"]]]]])
    # the same without labels, types and values on most records: exporters that fall back to the original document read
    # attributes the records do not have
    out.append([["NewDoc"], ["AddNs", ["d", "0"], "ex", EXU],
                ["NewRecord", ["d", "0"], "Activity", ["S", "ex:a"], [[["Q", "prov", PROVU, "startTime"], ["time", "2012", "3", "31", "9", "21", "0", "0", "none"]]]],
                ["NewRecord", ["d", "0"], "Activity", ["S", "ex:a"], [[["Q", "prov", PROVU, "startTime"], ["time", "2012", "3", "31", "10", "21", "0", "0", "none"]]]],
                ["NewRecord", ["d", "0"], "Entity", ["S", "ex:e"], [[["S", "ex:k"], ["int", "1"]]]],
                ["NewRecord", ["d", "0"], "Agent", ["S", "ex:ag"], []],
                ["NewBundle", "0", ["S", "ex:b"]],
                ["NewRecord", ["b", "0", "0"], "Entity", ["S", "ex:e2"], []],
                ["NewRecord", ["d", "0"], "Usage", ["S", "ex:u"], [[["Q", "prov", PROVU, "activity"], ["str", "ex:a"]], [["Q", "prov", PROVU, "entity"], ["str", "ex:e"]]]]])
    return out


def run(tier, seed, log, model_runs=True, enlarged=False):
    res = worldprop.run(PROP, tier, seed, log, model_runs, enlarged, C13Oracle, ["json", "provn", "graph", "mixed"],
                        n_quick=100, n_thorough=1500, nontrivial=nontrivial,
                        ops_range_quick=(6, 18), ops_range_thorough=(8, 34),
                        rule_text="API programs with export calls (ExportJson/LoadJson, ExportProvn, ToGraph, Eq, EqRec, unified, "
                                  "flattened) compared against the model after every call; oracle: on every document of the final "
                                  "world 18 exporters (PROV-JSON with two option sets, one serializer object exporting twice for PROV-JSON / PROV-XML / PROV-N, PROV-XML with and without force_types, "
                                  "PROV-N, RDF, DOT with two option sets, graph, ==/!=, hash, unified, flattened, listing) are "
                                  "called in a program-dependent order with repetitions; after every call the strict content, "
                                  "record order, registered namespaces and default namespace of every document must be "
                                  "unchanged, repeated text exports identical, RDF isomorphic; same-calls determinism: a sample "
                                  "of programs is built twice in one fresh interpreter and the texts of the two builds compared "
                                  "(thorough: under three PYTHONHASHSEEDs)",
                        extra_cases=fixed_programs() + __import__('harness.progs', fromlist=['x']).equal_values_programs() + __import__('harness.progs', fromlist=['x']).same_text_programs((), derive=False, memberships=True) + __import__('harness.progs', fromlist=['x']).same_text_programs(("ExportJson", "ExportProvn"), derive=True, memberships=True),
                        theorem_note="C13_exports_frame / C12_frame over Interp.step")
    # two documents built by the same calls export identical text
    import random
    rng = random.Random(seed)
    from harness import progs
    n_same = 6 if tier == "quick" else 40
    seeds = [0] if tier == "quick" else [0, 1, 7]
    same_checked = 0
    for i in range(n_same):
        ops, _ = progs.generate(rng.randrange(1 << 60), rng.randrange(6, 18), "json", observe_each=False)
        ops = [o for o in ops if o[0] not in ("LoadJson",)]
        builds = [same_calls_texts(ops, hs) for hs in seeds]
        same_checked += 1
        if any(t is None for t in builds):
            res["violations"].append({"kind": "harness-error", "what": "same-calls subprocess failed", "program": ops})
            continue
        for hs, (b1, b2) in zip(seeds, builds):
            if b1 != b2:
                which = [(i, j) for i, (a, b) in enumerate(zip(b1, b2)) for j in range(3) if a[j] != b[j]]
                res["violations"].append({"kind": "failing-input", "program": ops,
                                          "failure": {"what": "two documents built by the same calls export different text",
                                                      "doc_and_format": which[:3], "hashseed": hs}})
                break
    res["coverage"]["same_calls_programs"] = same_checked
    res["coverage"]["hashseeds"] = seeds
    return res


def replay(path, log):
    return worldprop.replay(path, C13Oracle, log)
