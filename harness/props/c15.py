"""C15 — DOT output is always valid Graphviz: one node per element, one path per relation."""
import html
import itertools
import json
import re
import subprocess
from collections import Counter

from harness import worldprop, impl as I, common
from harness.sexp import dumps, loads

PROP = "C15"
TRUSTED_BASE = [
    "Coq 8.16.1 kernel (coqc); no native_compute",
    "model: coq/theories/Dot.v — the two quoting layers of prov/dot.py as repaired (DOT double-quoted strings, html.escape "
    "for HTML-like label text and href values) with acceptors written from the Graphviz grammar; tied to /repo by comparing "
    "dot_quote / html_escape with prov.dot._quoted / html.escape on every string of the run",
    "the structure prov_to_dot builds is not modelled in Coq: it is checked on every case against the real Graphviz "
    "(dot -Tdot_json: acceptance and the parsed structure) — proof about the quoting layer, validation of the structure",
    "pydot 4.0.1 rendering and Graphviz 2.43 are outside the logic",
]
ASSUMPTIONS = ["C0 control characters other than tab/newline/CR are not XML characters: known finding C15-F1",
               "relations lacking one of their first two arguments are drawn to a blank node (not claimed)"]

DIRECTIONS = ["BT", "TB", "LR", "RL", "sideways"]
PROVU = "http://www.w3.org/ns/prov#"


def run_dot(text):
    p = subprocess.run(["dot", "-Tdot_json"], input=text.encode("utf-8"), capture_output=True, timeout=60)
    err = p.stderr.decode("utf-8", "replace").strip()
    if p.returncode != 0 or err:
        return None, err[:300]
    try:
        return json.loads(p.stdout.decode("utf-8")), ""
    except Exception as e:
        return None, "unparsable dot_json: %r" % (e,)


def has_ctrl(d):
    import prov.model as M
    def bad(s):
        return any(ord(ch) < 32 and ch not in "\t\n\r" for ch in s)
    for c in [d] + list(d.bundles):
        for r in c.get_records():
            if r.identifier is not None and bad(str(r.identifier) + r.identifier.uri):
                return True
            for a, v in r.attributes:
                if bad(str(a)) or bad(str(v.value) if isinstance(v, M.Literal) else str(v)):
                    return True
    return False


def unesc(s):
    """escString: the DOT lexer has already turned \\" into a quote; a doubled backslash denotes one"""
    return s.replace("\\\\", "\\") if isinstance(s, str) else s


def unhtml(s):
    return html.unescape(re.sub(r"<[^>]*>", "\x00", s))


class C15Oracle(worldprop.Oracle):
    combos = None

    def finish(self, ops):
        rng_state = len(ops)
        all_combos = list(itertools.product([True, False], [True, False], [True, False], [True, False], DIRECTIONS))
        for di, d in enumerate(self.im.docs):
            # a deterministic sample of the 80 option combinations per document (all in thorough)
            if self.combos == "all":
                cs = all_combos
            else:
                cs = [all_combos[(rng_state * 7 + di * 13 + k * 17) % 80] for k in range(5)] + [all_combos[0], all_combos[-1]]
            for (nary, labels, ea, ra, direction) in cs:
                self.check(len(ops), di, d, nary, labels, ea, ra, direction)

    def check(self, idx, di, d, nary, labels, ea, ra, direction):
        import prov.model as M
        from prov.dot import prov_to_dot
        from prov.constants import PROV_ATTRIBUTE_QNAMES
        opts = dict(show_nary=nary, use_labels=labels, show_element_attributes=ea, show_relation_attributes=ra,
                    direction=direction)
        feats = ["control-character"] if has_ctrl(d) else []
        try:
            text = prov_to_dot(d, **opts).to_string()
        except Exception as e:
            self.fail(idx, "prov_to_dot raised", doc=di, opts=repr(opts), exc=repr(e)[:300], feats=feats)
            return
        g, err = run_dot(text)
        if g is None:
            self.fail(idx, "Graphviz rejects the DOT text", doc=di, opts=repr(opts), error=err, feats=feats, text=text[:500])
            return
        want_dir = direction if direction in ("BT", "TB", "LR", "RL") else "BT"
        if g.get("rankdir") != want_dir:
            self.fail(idx, "rankdir is not the requested direction", got=g.get("rankdir"), want=want_dir)
        try:
            u = d.unified()
        except M.ProvException:
            u = d
        objs = g.get("objects", [])
        by_id = {o["_gvid"]: o for o in objs}
        clusters = [o for o in objs if "nodes" in o or o.get("name", "").startswith("cluster")]
        in_cluster = {}          # node -> URLs of the clusters it is drawn in (a node that an edge inside a
        for c in clusters:       # cluster mentions also becomes a member of that cluster: Graphviz semantics)
            for nid in c.get("nodes", []):
                in_cluster.setdefault(nid, set()).add(unesc(c.get("URL")))
        nodes = [o for o in objs if o not in clusters]
        # one labelled node per element, in its bundle's cluster
        conts = [(None, u)] + [(b.identifier.uri, b) for b in u.bundles]
        for buri, c in conts:
            want = Counter()
            for r in c.get_records():
                if r.is_element():
                    lab = str(r.label) if labels else str(r.identifier)
                    want[(r.identifier.uri, lab, str(r.identifier))] += 1
            got = Counter()
            for n in nodes:
                member_of = in_cluster.get(n["_gvid"], set())
                if buri is not None and buri not in member_of:
                    continue
                if n.get("shape") in ("point", "note"):
                    continue
                lab = n.get("label", "")
                # Graphviz hands out an HTML-like label without its outer angle brackets: the two-line label of an element
                # drawn under its prov:label starts with the (escaped) label text, not with a tag
                if not (lab.startswith("<") or "<br />" in lab or "<br/>" in lab.lower()):
                    lab = unesc(lab)
                got[(unesc(n.get("URL")), lab)] += 1
            for (uri, lab, ident), k in want.items():
                cands = [kk for kk in got if kk[0] == uri]
                if sum(got[kk] for kk in cands) < k:
                    self.fail(idx, "an element has no node in its bundle's cluster", doc=di, opts=repr(opts), uri=uri,
                              bundle=buri)
                    return
                # label: plain identifier, or label text (HTML form shows label and identifier)
                ok = False
                for kk in cands:
                    shown = kk[1]
                    if shown == lab or (labels and lab in unhtml(shown) and ident in unhtml(shown)):
                        ok = True
                if not ok:
                    self.fail(idx, "an element node does not show the right label", doc=di, opts=repr(opts), uri=uri,
                              want=lab, got=[kk[1][:80] for kk in cands])
                    return
        # one path per relation with two endpoints
        url_of = {n["_gvid"]: unesc(n.get("URL")) for n in nodes}
        blank = {n["_gvid"] for n in nodes if n.get("shape") == "point"}
        out_edges = {}
        for e in g.get("edges", []):
            out_edges.setdefault(e["tail"], []).append(e)
        got_paths = Counter()
        for e in g.get("edges", []):
            t, h = e["tail"], e["head"]
            if t in blank or url_of.get(t) is None:
                continue
            if h in blank:
                for e2 in out_edges.get(h, []):
                    if not e2.get("label") and url_of.get(e2["head"]) is not None and e2["head"] not in blank:
                        got_paths[(url_of[t], url_of[e2["head"]], e.get("label"), True)] += 1
            elif by_id[h].get("shape") != "note" and by_id[t].get("shape") != "note":
                got_paths[(url_of[t], url_of[h], e.get("label"), False)] += 1
        from prov.dot import DOT_PROV_STYLE
        want_paths = Counter()
        ann_rows_want = 0
        for buri, c in conts:
            for r in c.get_records():
                nonref = [(a, v) for a, v in r.attributes if a not in PROV_ATTRIBUTE_QNAMES]
                if r.is_element():
                    if ea and nonref:
                        ann_rows_want += len(nonref)
                    continue
                refs = [(a, v) for a, v in r.formal_attributes if a in PROV_ATTRIBUTE_QNAMES]
                if len(refs) < 2:
                    continue
                via = (len(refs) > 2 and nary) or (ra and bool(nonref))
                if via and ra and nonref:
                    ann_rows_want += len(nonref)
                if refs[0][1] is None or refs[1][1] is None:
                    continue
                want_paths[(refs[0][1].uri, refs[1][1].uri, DOT_PROV_STYLE[r.get_type()]["label"], bool(via))] += 1
        # the further ends of an n-ary relation: one labelled edge from its blank node to a node of every other reference
        got_fans = Counter()
        blank_tail = {}
        for e in g.get("edges", []):
            if e["head"] in blank and e.get("label") and e["tail"] not in blank:      # the first segment carries the relation's label
                blank_tail[e["head"]] = url_of.get(e["tail"])
        for h in blank:
            if blank_tail.get(h) is None:
                continue                      # a relation drawn without its first end: not a two-ended relation
            main = [url_of.get(e2["head"]) for e2 in out_edges.get(h, []) if not e2.get("label")]
            more = sorted((e2.get("label"), url_of.get(e2["head"])) for e2 in out_edges.get(h, []) if e2.get("label"))
            if more and main and all(m is not None for m in main):      # (a relation drawn without its first end has no fan)
                got_fans[(tuple(main), tuple(more))] += 1
        want_fans = Counter()
        for buri, c in conts:
            for r in c.get_records():
                if r.is_element():
                    continue
                refs = [(a, v) for a, v in r.formal_attributes if a in PROV_ATTRIBUTE_QNAMES]
                if len(refs) > 2 and nary and refs[0][1] is not None and refs[1][1] is not None:
                    more = sorted((a.localpart, v.uri) for a, v in refs[2:] if v is not None)
                    if more:
                        want_fans[((refs[1][1].uri,), tuple(more))] += 1
        if got_fans != want_fans:
            self.fail(idx, "the further ends of n-ary relations in the drawing differ from the document's", doc=di,
                      opts=repr(opts), missing=repr(list((want_fans - got_fans).items())[:2])[:400],
                      extra=repr(list((got_fans - want_fans).items())[:2])[:400], feats=feats)
            return
        if got_paths != want_paths:
            self.fail(idx, "relation paths in the drawing differ from the two-ended relations of the document", doc=di,
                      opts=repr(opts), missing=repr(list((want_paths - got_paths).items())[:2])[:400],
                      extra=repr(list((got_paths - want_paths).items())[:2])[:400], feats=feats)
            return
        rows = sum(o.get("label", "").count("<TR>") for o in nodes if o.get("shape") == "note")
        if rows != ann_rows_want:
            self.fail(idx, "annotation rows differ from the non-reference attributes", doc=di, opts=repr(opts),
                      got=rows, want=ann_rows_want)


class C15OracleAll(C15Oracle):
    combos = "all"


STRUCT_LEVEL = True       # switched on with the dotstruct request of the model driver


def unquote(s_):
    """the text a DOT double-quoted string holds (the inverse of prov.dot._quoted)"""
    if s_ is None:
        return None
    if len(s_) >= 2 and s_[0] == '"' and s_[-1] == '"':
        out, i, body = [], 0, s_[1:-1]
        while i < len(body):
            if body[i] == "\\" and i + 1 < len(body) and body[i + 1] in '\\"':
                out.append(body[i + 1]); i += 2
            else:
                out.append(body[i]); i += 1
        return "".join(out)
    return s_


def pydot_structure(g):
    """the statements of a pydot graph in insertion order, without texts and styles: the form Dotg.sx_stmt prints"""
    items = []
    for name, lst in g.obj_dict["nodes"].items():
        for nd in lst:
            a = nd["attributes"]
            shape = a.get("shape")
            url = a.get("URL")
            if shape == "point":
                cls = "blank"
            elif shape == "note":
                cls = "ann:%d" % a.get("label", "").count("<TR>")
            else:
                cls = None
            items.append((nd["sequence"], ["node", name.strip('"'), cls, url, a]))
    for key, lst in g.obj_dict["edges"].items():
        for ed in lst:
            a = ed["attributes"]
            t, h = [str(x).strip('"') for x in ed["points"]]
            link = a.get("style") == "dashed"
            items.append((ed["sequence"], ["edge", t, h, ["some", a["label"]] if "label" in a else "none", "link" if link else "edge"]))
    subs = []
    for name, lst in g.obj_dict["subgraphs"].items():
        for sg in lst:
            items.append((sg["sequence"], ["sub", name, unquote(sg["attributes"].get("URL"))]))
            subs.append((sg["sequence"], sg))
    items.sort(key=lambda x: x[0])
    return [x for _, x in items], [sg for _, sg in sorted(subs, key=lambda x: x[0])]


class _G:
    def __init__(self, od):
        self.obj_dict = od


def structure_correspondence(tier, seed):
    """the structure prov_to_dot builds against the model (Dotg.dot_structure): for generated API programs and the fixed
    families, every document of the final world is converted with every combination of show_nary x show_element_attributes
    x show_relation_attributes, and the statements of the pydot graph and of every cluster — node identifiers, the class of
    every node (element of which kind / generic with which inferred class / blank / annotation with how many rows), its
    URL, every edge with its label, the clusters with their URLs — are compared, in order, with the model's."""
    import itertools
    import random
    import prov.model as M
    from prov.dot import prov_to_dot, DOT_PROV_STYLE, GENERIC_NODE_STYLE
    from harness import common, progs
    from harness.sexp import dumps, loads
    from harness.props import c01
    rng = random.Random(seed * 17 + 5)
    programs = list(fixed_programs())
    n = 30 if tier == "quick" else 400
    for i in range(n):
        ops, _ = progs.generate(rng.randrange(1 << 60), rng.randrange(5, 20), rng.choice(["graph", "mixed", "records"]), observe_each=False)
        programs.append(progs.without_exports(ops))
    elem_cls = {}
    for k in ("Entity", "Activity", "Agent"):
        elem_cls[json.dumps(DOT_PROV_STYLE[M.PROV[k]], sort_keys=True)] = "elem:" + k
    gen_cls = {json.dumps(DOT_PROV_STYLE[0], sort_keys=True): "gen:-"}
    for c, st in GENERIC_NODE_STYLE.items():
        if c is not None:
            gen_cls.setdefault(json.dumps(st, sort_keys=True), "gen:" + c.__name__[4:])

    def classify_node(stmt, is_elem_ids):
        _, name, cls, url, a = stmt
        if cls is None:
            style = json.dumps({k: v for k, v in a.items() if k not in ("label", "URL")}, sort_keys=True)
            cls = elem_cls.get(style) or gen_cls.get(style) or "unknown-style"
        return ["node", name, cls, ["some", unquote(url)] if url is not None else "none"]
    exp, reqs = [], []
    for ops in programs:
        im = I.Impl()
        ok = True
        for op in ops:
            try:
                im.step(op)
            except Exception:
                ok = False
                break
        if not ok:
            continue
        if any(c01.has_mixed_kinds(d) for d in im.docs):
            continue
        multi = False
        for d in im.docs:
            for c in [d] + list(d.bundles):
                for r in c.get_records():
                    if r.is_relation() and any(len(vs) > 1 for a, vs in r._attributes.items() if a in M.PROV_ATTRIBUTE_QNAMES):
                        multi = True           # first(set) of several values of a reference attribute: Python's set order
        if multi:
            continue
        for nary, ea, ra in itertools.product([True, False], repeat=3):
            structs = []
            try:
                for d in im.docs:
                    g = prov_to_dot(d, show_nary=nary, show_element_attributes=ea, show_relation_attributes=ra)
                    main, subs = pydot_structure(g)
                    main = [classify_node(x, None) if x[0] == "node" else x for x in main]
                    cl = []
                    for sg in subs:
                        body, _ = pydot_structure(_G(sg))
                        cl.append([classify_node(x, None) if x[0] == "node" else x for x in body])
                    structs.append([main, cl])
            except Exception as e:
                structs = None
            exp.append((ops, (nary, ea, ra), structs))
            reqs.append(dumps(["dotstruct", "true" if nary else "false", "true" if ea else "false", "true" if ra else "false",
                               I.float_table(ops)] + ops))
    outs = common.run_model_batch(reqs)
    bad = []
    ndocs = 0
    for (ops, opts, structs), o in zip(exp, outs):
        m = loads(o)
        if structs is None:
            continue
        if not isinstance(m, list) or len(m) != len(structs):
            bad.append({"program": ops, "opts": list(opts), "model": str(m)[:200]})
            continue
        for di, (mm, ii) in enumerate(zip(m, structs)):
            if mm == "ood":
                continue
            ndocs += 1
            # a generic node of inferred class Entity has the very style of one without inferred class: not told apart here
            mm = [[(["node", x[1], "gen:-", x[3]] if x[0] == "node" and x[2] == "gen:Entity" else x) for x in part] for part in [mm[0]] + mm[1]]
            mm = [mm[0], mm[1:]]
            if mm != ii:
                diff = None
                for k, (x, y) in enumerate(zip(mm[0] + sum(mm[1], []), ii[0] + sum(ii[1], []))):
                    if x != y:
                        diff = {"statement": k, "model": x, "implementation": y}
                        break
                bad.append({"program": ops, "opts": list(opts), "doc": di, "first": diff,
                            "model_len": [len(mm[0])] + [len(c) for c in mm[1]], "implementation_len": [len(ii[0])] + [len(c) for c in ii[1]]})
                break
    return ndocs, bad


def label_correspondence(tier, seed):
    """the HTML-like labels against the model (DotLabel.ann_label / fancy_label, character by character) and the
    extracted acceptor (DotLabel.html_label_ok) against the real Graphviz: single-record documents over pools of
    attribute names and values full of markup characters; for each the label of the one annotation node is compared
    with the model's text for the rows (attribute URI, printed name, link target of an Identifier, text) the document's
    record gives, the acceptor must accept it unless a text holds a control character that is no XML character, and
    Graphviz must accept every text the acceptor accepts.  Returns (cases, disagreements, failing inputs)."""
    import datetime
    import random
    import prov.model as M
    from prov.dot import prov_to_dot
    from prov.constants import PROV_ATTRIBUTE_QNAMES
    from prov.identifier import Identifier, Namespace, QualifiedName
    from harness import common
    from harness.sexp import dumps, loads
    rng = random.Random(seed * 31 + 7)
    EX = Namespace("ex", "http://example.org/")
    AMP = Namespace("amp", 'http://example.org/?a=1&b=<2>"\'#')
    texts = ["", "plain", 'quo"te', "a<b & c>d", "it's", "two\nlines", "ünï ファイル", "&amp;", "<TD>x</TD>", "</TABLE>", "<br />",
             "\\", "]]>", "&#x27;", "tab\there", "  ", "\U0001F600", "&lt", "a;b", "<!-- c -->", "Ame\u0301lie"]
    ctrl = ["a\x0bb", "\x01"]
    tz = datetime.timezone
    values = texts + [5, -7, 2.5, True, datetime.datetime(2012, 3, 31, 9, 21, tzinfo=tz(datetime.timedelta(hours=1))),
                      Identifier("http://u/x?a=1&b=2"), Identifier('http://u/"q"<r>'), EX["e"], AMP["l<o>cal"],
                      M.Literal("x<y", langtag="en"), M.Literal("a&b", EX["My<Type>"]), M.Literal("1", M.XSD_INT)]
    names = [EX["k"], EX["k<2>"], AMP["n&m"], M.PROV["label"], M.PROV["type"], M.PROV["value"], M.PROV["location"], M.PROV["role"]]
    n = 120 if tier == "quick" else 1500
    cases, reqs = [], []
    forced = [M.Literal(t, langtag="en") for t in ("R&D <draft> report", "<b>approved</b>", 'q"uote', "it's", "plain")] + \
             ["a<b & c>d", "<TD>x</TD>", "&amp;"]
    for i in range(n):
        d = M.ProvDocument()
        d.add_namespace(EX); d.add_namespace(AMP)
        kind = rng.choice(["entity", "activity", "agent", "relation"])
        attrs = []
        if i < 2 * len(forced):
            # the first cases: every label of a fixed list (plain and language-tagged, full of markup), drawn under it
            kind = ["entity", "agent"][i % 2]
            attrs.append((M.PROV["label"], forced[i // 2]))
        for _ in range(rng.choice([1, 1, 2, 3, 5])):
            a = rng.choice(names)
            if a == M.PROV["value"] and any(x == a for x, _ in attrs):
                continue
            v = rng.choice(values) if rng.random() > 0.05 else rng.choice(ctrl)
            attrs.append((a, v))
        use_labels = rng.random() < 0.5 or i < 2 * len(forced)
        if use_labels and kind != "relation" and rng.random() < 0.7 and i >= 2 * len(forced):
            attrs.append((M.PROV["label"], rng.choice(texts + [M.Literal("l<a>b", langtag="en")])))
        # at most one prov:label: with several, which one an element is drawn under follows the iteration order of a set
        seen_label = False
        kept = []
        for a, v in attrs:
            if a == M.PROV["label"]:
                if seen_label:
                    continue
                seen_label = True
            kept.append((a, v))
        attrs = kept
        if kind == "relation":
            d.entity(EX["e1"]); d.activity(EX["a1"])
            r = d.wasGeneratedBy(EX["e1"], EX["a1"], None, EX["g"] if rng.random() < 0.5 else None, attrs)
        else:
            r = getattr(d, kind)(EX[rng.choice(["x", "y<z>", "q&r"])], other_attributes=attrs)
        try:
            g = prov_to_dot(d, use_labels=use_labels)
        except Exception as e:
            cases.append(("raise", repr(e)[:200], d.get_provn(), None, None, None, None))
            reqs.append(dumps(["htmlok", ""]))
            continue
        notes, fancy = [], []
        for name, lst in g.obj_dict["nodes"].items():
            for nd in lst:
                a = nd["attributes"]
                if a.get("shape") == "note":
                    notes.append(a.get("label", ""))
                elif a.get("label", "").startswith("<"):
                    fancy.append(a["label"])
        shown = [(a, v) for a, v in M.sorted_attributes(r.get_type(), [(a, v) for a, v in r.attributes if a not in PROV_ATTRIBUTE_QNAMES])]
        rows = [[a.uri, str(a), ["some", v.uri] if isinstance(v, Identifier) else "none",
                 v.isoformat() if isinstance(v, datetime.datetime) else str(v)] for a, v in shown]
        bad_ctrl = any(ord(ch) < 32 and ch not in "\t\n\r" for row in rows for x in row for ch in (x if isinstance(x, str) else x[1] if isinstance(x, list) else ""))
        accepted = run_dot(g.to_string())[0] is not None
        cases.append(("ok", notes, d.get_provn(), rows, bad_ctrl, accepted, fancy))
        reqs.append(dumps(["annlabel", rows]))
        want_fancy = None
        if use_labels and kind != "relation" and r.label != r.identifier:
            want_fancy = [str(r.label), str(r.identifier)]
        cases[-1] = cases[-1] + (want_fancy,)
        reqs.append(dumps(["fancylabel"] + (want_fancy or ["", ""])))
        cases.append(None)
    outs = [loads(x) for x in common.run_model_batch(reqs)]
    bad, fails = [], []
    k = 0
    ncase = 0
    stats = Counter()
    for c, o in zip(cases, outs):
        if c is None:
            continue
    i = 0
    while i < len(cases):
        c = cases[i]
        if c[0] == "raise":
            fails.append({"what": "prov_to_dot raised", "exc": c[1], "provn": c[2][:600]})
            i += 1
            continue
        _, notes, provn, rows, bad_ctrl, accepted, fancy, want_fancy = c
        ann, fan = outs[i], outs[i + 1]
        i += 2
        ncase += 1
        if rows:
            if len(notes) != 1:
                bad.append({"what": "a record with %d displayed attributes has %d annotation nodes" % (len(rows), len(notes)), "provn": provn[:600]})
                continue
            if not isinstance(ann, list) or ann[0] != notes[0]:
                bad.append({"what": "annotation label differs from DotLabel.ann_label", "impl": notes[0][:500],
                            "model": (ann[0] if isinstance(ann, list) else repr(ann))[:500], "provn": provn[:600]})
                continue
            verdict = ann[1] == "true"
            stats["annotation:" + ("accepted" if verdict else "rejected")] += 1
            if not bad_ctrl and not verdict:
                bad.append({"what": "the acceptor rejects an annotation table without control characters (C15_annotation_table_accepted says it cannot)",
                            "label": notes[0][:500]})
            if verdict and not accepted and not (want_fancy and False):
                fails.append({"what": "Graphviz rejects a DOT text whose annotation table the acceptor accepts", "provn": provn[:600], "label": notes[0][:400]})
            if bad_ctrl and accepted and not verdict:
                stats["acceptor stricter than Graphviz"] += 1
        elif notes:
            bad.append({"what": "annotation node for a record without displayed attributes", "provn": provn[:600]})
        if want_fancy:
            if len(fancy) != 1 or not isinstance(fan, list) or fan[0] != fancy[0]:
                bad.append({"what": "two-line element label differs from DotLabel.fancy_label", "impl": [x[:300] for x in fancy],
                            "model": (fan[0] if isinstance(fan, list) else repr(fan))[:300], "provn": provn[:600]})
            else:
                stats["fancy:" + fan[1]] += 1
                lab_ctrl = any(ord(ch) < 32 and ch not in "\t\n\r" for x in want_fancy for ch in x)
                if fan[1] != "true" and not lab_ctrl:
                    bad.append({"what": "the acceptor rejects a two-line label without control characters", "label": fancy[0][:300]})
    return ncase, bad, fails, dict(stats)


def classify(f, ops):
    if "control-character" in f.get("feats", []):
        return "C15-F1"
    return None


def post(g):
    """labels and values with quotes, angle brackets, ampersands, backslashes, newlines"""
    rng = g.rng
    nasty = ['quo"te', "a<b & c>d", "back\\slash\\", "two\nlines", "ünï \U0001F600", "&amp; &#x27; ]]>", "tab\there", "%s {x}", '"']
    for _ in range(rng.choice([1, 2, 3])):
        c = g.pick_cref()
        attrs = [[["Q", "prov", PROVU, "label"], ["str", rng.choice(nasty)]],
                 [["Q", "wz", 'http://w.test/?a=1&b="2"#', "k<>"], ["str", rng.choice(nasty)]],
                 [["Q", "ex", "http://example.org/", "u"], ["id", 'http://u.test/?q="x"&y=<z>']]]
        rng.shuffle(attrs)
        ident = ["Q", "wz", 'http://w.test/?a=1&b="2"#', rng.choice(['i"d', "back\\", "a<b", "plain"])]
        g.emit(["NewRecord", c, rng.choice(["Entity", "Activity", "Agent"]), ident, attrs[:rng.choice([1, 2, 3])]])
    if rng.random() < 0.5:
        c = g.pick_cref()
        g.emit(["NewRecord", c, "Usage", "none", [[["Q", "prov", PROVU, "activity"], ["qn", "wz", 'http://w.test/?a=1&b="2"#', 'a"1']],
                                                    [["Q", "prov", PROVU, "entity"], ["qn", "ex", "http://example.org/", "e\\"]],
                                                    [["Q", "ex", "http://example.org/", "note"], ["str", rng.choice(nasty)]]]])


def quoting_correspondence(strings):
    import prov.dot as D
    reqs = [dumps(["dotquote", s]) for s in strings]
    outs = [loads(x) for x in common.run_model_batch(reqs)]
    bad = []
    for s, o in zip(strings, outs):
        if o[0] != D._quoted(s) or o[1] != html.escape(s):
            bad.append({"string": s, "model": o, "impl": [D._quoted(s), html.escape(s)]})
    return bad


def fixed_programs():
    """documents whose duplicates live only inside a bundle, identifiers shared across scopes, relations whose only
    attribute is a time"""
    EXU = "http://example.org/"
    PROVU = "http://www.w3.org/ns/prov#"
    b = ["b", "0", "0"]
    t = ["time", "2012", "3", "31", "9", "21", "0", "0", "none"]
    same = [["NewDoc"], ["AddNs", ["d", "0"], "ex", "http://a.test/"],
            ["NewRecord", ["d", "0"], "Entity", ["S", "ex:e1"], []], ["NewRecord", ["d", "0"], "Activity", ["S", "ex:a1"], []],
            ["NewRecord", ["d", "0"], "Generation", "none", [[["Q", "prov", PROVU, "entity"], ["str", "ex:e1"]], [["Q", "prov", PROVU, "activity"], ["str", "ex:a1"]]]],
            ["NewBundle", "0", ["S", "ex:b"]], ["AddNs", b, "ex", "http://b.test/"],
            ["NewRecord", b, "Entity", ["S", "ex:e1"], []], ["NewRecord", b, "Activity", ["S", "ex:a1"], []],
            ["NewRecord", b, "Generation", "none", [[["Q", "prov", PROVU, "entity"], ["str", "ex:e1"]], [["Q", "prov", PROVU, "activity"], ["str", "ex:a1"]]]],
            ["NewRecord", b, "Usage", "none", [[["Q", "prov", PROVU, "activity"], ["str", "ex:a1"]], [["Q", "prov", PROVU, "entity"], ["str", "ex:undeclared"]]]],
            ["NewRecord", ["d", "0"], "Usage", "none", [[["Q", "prov", PROVU, "activity"], ["str", "ex:a1"]], [["Q", "prov", PROVU, "entity"], ["str", "ex:undeclared"]]]]]
    return [same,
            [["NewDoc"], ["AddNs", ["d", "0"], "ex", EXU],
             ["NewRecord", ["d", "0"], "Entity", ["S", "ex:top"], [[["S", "ex:k"], ["str", "v"]]]],
             ["NewBundle", "0", ["S", "ex:b"]],
             ["NewRecord", b, "Entity", ["S", "ex:e"], [[["S", "ex:k"], ["str", "one"]]]],
             ["NewRecord", b, "Entity", ["S", "ex:e"], [[["S", "ex:k"], ["str", "two"]], [["S", "prov:label"], ["str", "lab"]]]],
             ["NewRecord", b, "Activity", ["S", "ex:a"], []],
             ["NewRecord", b, "Entity", ["S", "ex:top"], []],
             ["NewRecord", b, "Generation", "none", [[["Q", "prov", PROVU, "entity"], ["str", "ex:e"]],
                                                     [["Q", "prov", PROVU, "activity"], ["str", "ex:a"]],
                                                     [["Q", "prov", PROVU, "time"], t]]],
             ["NewRecord", ["d", "0"], "Usage", ["S", "ex:u"], [[["Q", "prov", PROVU, "activity"], ["str", "ex:a"]],
                                                                [["Q", "prov", PROVU, "entity"], ["str", "ex:top"]],
                                                                [["Q", "prov", PROVU, "time"], t]]]]]


def run(tier, seed, log, model_runs=True, enlarged=False):
    res = worldprop.run(PROP, tier, seed, log, model_runs, enlarged, C15OracleAll if tier == "thorough" else C15Oracle,
                        ["mixed", "graph", "merge"], n_quick=60, n_thorough=400, classify=classify, post=post,
                        ops_range_quick=(5, 14), ops_range_thorough=(6, 22),
                        rule_text="API programs plus records whose identifiers, namespace URIs, labels and values contain quotes, "
                                  "angle brackets, ampersands, backslashes, newlines and non-ASCII text; every document of the "
                                  "final world is converted with 7 (quick) or all 80 (thorough) combinations of show_nary x "
                                  "use_labels x show_element_attributes x show_relation_attributes x direction; each DOT text "
                                  "goes through the real Graphviz (dot -Tdot_json): acceptance, rankdir, one labelled node per "
                                  "element in its bundle's cluster, one direct or blank-node path per two-ended relation with "
                                  "the right URLs and direction, annotation rows; non-trivial = any program with records",
                        extra_cases=fixed_programs(),
                        theorem_note="C15 quoting layer (Dot.v)")
    if model_runs:
        import prov.dot  # noqa
        strings = ['', 'plain', 'quo"te', 'back\\', '\\"', 'a<b & c>d', "it's", "two\nlines", "ünï", "&amp;", '"""', "\\\\\\"]
        bad = quoting_correspondence(strings)
        res["coverage"]["quoting_strings_compared"] = len(strings)
        for b in bad[:2]:
            res["disagreements"].append({"first_difference": json.dumps(b)[:800],
                                         "theorem": "correspondence Dot.dot_quote / html_escape ~ prov.dot._quoted / html.escape"})
        if STRUCT_LEVEL:
            n, bad = structure_correspondence(tier, seed)
            res["coverage"]["structure_cases"] = n
            log("drawing structure: %d document x option cases, %d disagreements" % (n, len(bad)))
            for b in bad[:2]:
                res["disagreements"].append({"first_difference": json.dumps({k: v for k, v in b.items() if k != "program"})[:1200],
                                             "program": b.get("program"),
                                             "theorem": "correspondence Dotg.dot_structure ~ the pydot graph prov_to_dot builds "
                                                        "(C15_elements_one_node_each, C15_relation_path, C15_nary_further_ends are stated over the model)"})
        nl, bad, lfails, lstats = label_correspondence(tier, seed)
        res["coverage"]["label_cases"] = nl
        res["coverage"]["label_stats"] = lstats
        log("HTML-like labels: %d single-record documents, %d disagreements, %d failing inputs (%s)" % (nl, len(bad), len(lfails), lstats))
        for b in bad[:2]:
            res["disagreements"].append({"first_difference": json.dumps(b)[:1500],
                                         "theorem": "correspondence DotLabel.ann_label / fancy_label / html_label_ok ~ the labels prov_to_dot builds "
                                                    "(C15_annotation_table_accepted, C15_fancy_label_accepted are stated over the model)"})
        for f in lfails[:2]:
            res["violations"].append({"kind": "failing-input", "failure": f, "program": None})
    return res


def replay(path, log):
    return worldprop.replay(path, C15Oracle, log)
