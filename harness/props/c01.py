"""C01 — PROV-JSON round trip preserves every document exactly."""
import datetime
import json

from harness import worldprop, impl as I
from harness.content import strict_doc, strict_value

PROP = "C01"
TRUSTED_BASE = [
    "Coq 8.16.1 kernel (coqc); vm_compute for Examples/_refuted witnesses; no native_compute",
    "model: coq/theories/Json.v (encode_json_document/container/representation and decode_json_document/container/"
    "representation at tree level) on top of Nsm/Record/World; tied to /repo by ExportJson/LoadJson calls in the "
    "correspondence programs: the implementation's output parsed by json.loads must equal the model's tree, and the "
    "document it loads must equal the model's decode of that tree",
    "the json library (text <-> tree, indent/sort_keys/ensure_ascii) is trusted; swept by the direct oracle",
    "float repr/'%g' and float() are an oracle table from CPython; dateutil modelled on the ISO-8601 subset",
    "extraction: ExtrOcamlBasic + ExtrOcamlString; ocaml/driver.ml",
]
ASSUMPTIONS = [
    "excluded by the property: one attribute holding ==-equal values of different kind (1/True/1.0); NaN",
    "usage discipline of C03 (default namespace not re-bound)",
]

OPTS = [{}, {"indent": 0}, {"indent": 4, "sort_keys": True}, {"ensure_ascii": False}, {"sort_keys": True, "ensure_ascii": False}]


def has_mixed_kinds(d):
    for c in [d] + list(d.bundles):
        for r in c.get_records():
            for k, vs in r._attributes.items():
                vl = list(vs)
                for i in range(len(vl)):
                    for j in range(i + 1, len(vl)):
                        a, b = vl[i], vl[j]
                        if isinstance(a, (int, float, bool)) and isinstance(b, (int, float, bool)) and a == b and type(a) != type(b):
                            return True
                    if isinstance(vl[i], float) and vl[i] != vl[i]:
                        return True
    return False


def diagnose(d):
    """Features of a document that put a failure into a known class."""
    feats = set()
    dm = d._namespaces
    for c in [d] + list(d.bundles):
        m = c._namespaces
        for n in m.get_registered_namespaces():
            if n.prefix == "default":
                feats.add("prefix-named-default")
            if n.prefix == "":
                feats.add("empty-prefix-registered")
        names = []
        for r in c.get_records():
            if r.identifier is not None:
                names.append(r.identifier)
            for a, v in r.attributes:
                names.append(a)
                if hasattr(v, "namespace"):
                    names.append(v)
                if isinstance(v, I.M.Literal) and hasattr(v.datatype, "namespace"):
                    names.append(v.datatype)
        if c is not d and c.identifier is not None:
            names.append(c.identifier)
        for q in names:
            if q.namespace.uri == "http://www.w3.org/2001/XMLSchema":
                feats.add("xsd-uri-without-hash")
            if q.namespace.uri == "http://www.w3.org/2001/XMLSchema-instance":
                feats.add("xsi-name")
            p, l = q.namespace.prefix, q.localpart
            if (p == "" and (":" in l or l == "")) or p == "_" or ":" in p:
                feats.add("unprintable-name")
            # does the printed form resolve, in this container, to the same URI?
            import copy
            try:
                r = copy.deepcopy(c).valid_qualified_name(str(q))
            except Exception:
                r = None
            if r is None or r.uri != q.uri:
                feats.add("ambiguous-name")
    # two bundles of one document whose identifiers print alike (one homed in the document's scope by bundle(), one
    # in its own scope by add_bundle() or the JSON reader) share one key of the PROV-JSON bundle map
    keys = {}
    for b in d.bundles:
        if b.identifier is not None:
            keys.setdefault(str(b.identifier), set()).add(b.identifier.uri)
    if any(len(u) > 1 for u in keys.values()):
        feats.add("bundle-key-collision")
    return feats


class C01Oracle(worldprop.Oracle):
    def after(self, idx, op, ob):
        if op[0] in ("ExportJson",):
            self.roundtrip(idx, int(op[1]))

    def finish(self, ops):
        for i in range(len(self.im.docs)):
            self.roundtrip(len(ops), i)

    def roundtrip(self, idx, di):
        import prov.model as M
        d = self.im.docs[di]
        if has_mixed_kinds(d):
            return
        want = strict_doc(d)
        for o in OPTS:
            try:
                text = d.serialize(format="json", **o)
            except Exception as e:
                self.fail(idx, "serialize(format='json') raised", doc=di, opts=repr(o), exc=repr(e)[:300],
                          feats=sorted(diagnose(d)))
                return
            try:
                d2 = M.ProvDocument.deserialize(content=text, format="json")
            except Exception as e:
                self.fail(idx, "deserialising the emitted PROV-JSON raised", doc=di, opts=repr(o), exc=repr(e)[:300],
                          feats=sorted(diagnose(d)))
                return
            got = strict_doc(d2)
            if got != want:
                diff = []
                for k in set(want) | set(got):
                    a, b = want.get(k), got.get(k)
                    if a != b:
                        if a is None or b is None:
                            diff.append(("bundle", k, "missing" if b is None else "extra"))
                        else:
                            diff.append((k, list((a - b).elements())[:2], list((b - a).elements())[:2]))
                self.fail(idx, "PROV-JSON round trip changed the content", doc=di, opts=repr(o), diff=repr(diff)[:900],
                          feats=sorted(diagnose(d)))
                return


def classify(f, ops):
    feats = set(f.get("feats", []))
    if "bundle-key-collision" in feats:
        return "C01-F4"
    if "prefix-named-default" in feats:
        return "C01-F3"
    if "unprintable-name" in feats:
        return "C01-F2"
    if "ambiguous-name" in feats or "empty-prefix-registered" in feats:
        return "C01-F1"
    return None


def nontrivial(ops):
    return sum(1 for o in ops if o[0] in ("NewRecord", "Factory")) >= 2


def attached_bundle_programs():
    """fixed programs: a document of its own, with its own binding of a prefix (or its own default namespace), attached
    with add_bundle under an identifier homed in ITS scope to a document that binds the same prefix (default) otherwise"""
    U1, U2 = "http://example.org/doc/", "http://example.org/bundle/"
    out = []
    for how in ("prefix", "default", "plain"):
        p = [["NewDoc"], ["NewDoc"]]
        if how == "prefix":
            p += [["AddNs", ["d", "0"], "ex", U1], ["AddNs", ["d", "1"], "ex", U2]]
            ident = ["Q", "ex", U2, "b1"]
            names = ("ex:e1", "ex:k")
        elif how == "default":
            p += [["SetDefault", ["d", "0"], U1], ["SetDefault", ["d", "1"], U2], ["AddNs", ["d", "0"], "ex", U1]]
            ident = ["Q", "", U2, "b1"]
            names = ("e1", "k")
        else:
            p += [["AddNs", ["d", "0"], "ex", U1], ["AddNs", ["d", "1"], "other", U2]]
            ident = ["Q", "other", U2, "b1"]
            names = ("other:e1", "other:k")
        p += [["NewRecord", ["d", "0"], "Entity", ["S", "ex:top"], []],
              ["NewRecord", ["d", "1"], "Entity", ["S", names[0]], [[["S", names[1]], ["int", "1"]]]],
              ["AddBundleDoc", "0", "1", ident, [] if how == "default" else (["ex"] if how == "prefix" else ["other"])],
              ["ExportJson", "0"]]
        out.append(p)
    return out


def run(tier, seed, log, model_runs=True, enlarged=False):
    return worldprop.run(PROP, tier, seed, log, model_runs, enlarged, C01Oracle, ["json", "json", "mixed"],
                         n_quick=160, n_thorough=3000, classify=classify, nontrivial=nontrivial,
                         ops_range_quick=(6, 22), ops_range_thorough=(8, 40),
                         rule_text="API programs (profile json: all record kinds, argument masks, anonymous/identified, repeated "
                                   "identifiers, bundles, namespace histories, every value kind) with ExportJson/LoadJson calls "
                                   "compared against the model; oracle: every document, at every export and at the end, is "
                                   "serialised with 5 json.dump option sets, re-loaded and compared by strict content (kind, "
                                   "identifier URI, attribute URI, value with Python kind/datatype/lang/offset, multiplicity, "
                                   "bundle); non-trivial = >=2 record-creating calls",
                         extra_cases=attached_bundle_programs() + __import__('harness.progs', fromlist=['x']).same_text_programs(("ExportJson",)) + __import__('harness.progs', fromlist=['x']).scoping_programs(("ExportJson",)) + __import__('harness.progs', fromlist=['x']).value_grid_programs(("ExportJson",)) + __import__('harness.progs', fromlist=['x']).subtype_programs(("ExportJson",)),
                         theorem_note="C01_* over Json.encode_doc / decode_doc")


def replay(path, log):
    return worldprop.replay(path, C01Oracle, log)
